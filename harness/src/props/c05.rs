//! C05 — reflection metadata agrees with the emitted source.  (E1: bounded exhaustive enumeration.)
//!
//! Space: sequences of resource declarations (full kind alphabet at length <= 2, class alphabet at length 3-4) x
//! pipeline scenarios (0-2 pipelines, DefaultBindGroup 0..2, shared entry points) x use sites (which function touches
//! which resource, directly or through a helper) x target configs {Dx, Vk, VkBa, Msl} x modes {all, named, no-pipeline};
//! plus small spaces for reserved entry-point / resource names, numthreads forms, unbounded arrays, the syntactic position
//! of the use site (every statement / expression position x allocator class), the leaf of a nested brace initialiser that
//! holds the use (every aggregate type of nesting depth <= 3 built from arrays / structs / uint2 x every leaf x local, for-init
//! and second-declarator definitions), the shape of the call graph between the entry point and the function holding the use
//! (all 64 acyclic graphs over three helpers), how each helper of the call graph is written (free function defined before its
//! callers / prototype first and definition after the entry point / template instance / method of its own struct / function in a
//! namespace: every assignment to the three helpers x every graph x every use site; and all helpers as methods of ONE struct in
//! every declaration order, instance and static) and the attribute lists of entry points.
//!
//! Oracle `reflect`: the annotations are re-read from the EMITTED source (HLSL: the text is parsed back; MSL: the tree
//! handed to the formatter, tied to the emitted bytes by formatting it again) and compared with the returned metadata as
//! sets keyed by name. Reachability for `is_used` is the harness' own call-graph walk over the typed IR.
//!
//! Signatures: `reflect|<field>|<declaration class>|<target>` with field in {name, group, slot, offset, type, count,
//! bindless, is_used, missing-entry, extra-entry, inline-constants, entry-point, thread-group-size}. For is_used the class is
//! the only way the binding is reached when that is not an ordinary statement (via-nested-initialiser: only inside the inner
//! braces of a brace initialiser; via-default-argument; via-static-initialiser) instead of the declaration class. For type the
//! class gets the suffix `-array` when the source declares an ARRAY of 64 bit integers that carries a descriptor slot.

use crate::engine::*;
use crate::json::{Json, obj};
use crate::util::*;
use rssl::ast;
use rssl::ir;
use rssl::ir::export::{ApiLocation, DescriptorType as DT};
use std::collections::{BTreeMap, BTreeSet};

// ---------------------------------------------------------------------------------------------
// input model

/// rssl type text and allocator class of every bindable object type
const OBJ: [(&str, &str); 20] = [
    ("ByteAddressBuffer", "raw-buffer"),
    ("RWByteAddressBuffer", "raw-buffer"),
    ("BufferAddress", "buffer-address"),
    ("RWBufferAddress", "buffer-address"),
    ("StructuredBuffer<S>", "raw-buffer"),
    ("RWStructuredBuffer<S>", "raw-buffer"),
    ("Buffer<float4>", "texture-srv"),
    ("RWBuffer<float4>", "texture-uav"),
    ("Texture2D<float4>", "texture-srv"),
    ("Texture2DArray<float4>", "texture-srv"),
    ("RWTexture2D<float4>", "texture-uav"),
    ("RWTexture2DArray<float4>", "texture-uav"),
    ("TextureCube<float4>", "texture-srv"),
    ("TextureCubeArray<float4>", "texture-srv"),
    ("Texture3D<float4>", "texture-srv"),
    ("RWTexture3D<float4>", "texture-uav"),
    ("RaytracingAccelerationStructure", "texture-srv"),
    ("SamplerState", "sampler"),
    ("SamplerComparisonState", "sampler"),
    ("ConstantBuffer<S>", "constant-buffer-object"),
];
const K_CBUFFER: u8 = 20;
const K_STATIC_SAMPLER: u8 = 21;
const K_PLAIN: u8 = 22;
const KINDS: u8 = 23;

/// representatives of the allocator classes (kind numbers)
const CLASS_REPS: [u8; 9] = [8, 10, 1, 2, 17, K_STATIC_SAMPLER, K_CBUFFER, 19, K_PLAIN];

/// allocator class of a declared rssl/HLSL type name (used for signatures; derived from the input source)
fn class_of_type_name(t: &str) -> &'static str {
    match t {
        "ByteAddressBuffer" | "RWByteAddressBuffer" | "StructuredBuffer" | "RWStructuredBuffer" => "raw-buffer",
        "BufferAddress" | "RWBufferAddress" => "buffer-address",
        "Buffer" | "Texture2D" | "Texture2DArray" | "TextureCube" | "TextureCubeArray" | "Texture3D" | "RaytracingAccelerationStructure" => "texture-srv",
        "RWBuffer" | "RWTexture2D" | "RWTexture2DArray" | "RWTexture3D" => "texture-uav",
        "SamplerState" | "SamplerComparisonState" => "sampler",
        "ConstantBuffer" => "constant-buffer-object",
        _ => "plain-global",
    }
}

#[derive(Clone, Copy, PartialEq, Eq, Hash, Debug)]
pub struct Decl {
    /// 0..19 object types, 20 cbuffer, 21 static sampler, 22 non-resource global
    pub kind: u8,
    /// 0 = not an array, 1..3 = [n], 4 = unsized []
    pub arr: u8,
    /// 0 none, 1..3 register(space0..2), 4..6 [[rssl::bind_group(0..2)]], 7..9 [[vk::binding(5, 0..2)]]
    pub grp: u8,
    pub bindless: bool,
}

impl Decl {
    fn plain(kind: u8) -> Decl {
        Decl { kind, arr: 0, grp: 0, bindless: false }
    }
}

fn decl_text(d: &Decl, name: &str) -> String {
    let mut s = String::new();
    if d.bindless {
        s.push_str("[[rssl::bindless]] ");
    }
    match d.grp {
        4..=6 => s.push_str(&format!("[[rssl::bind_group({})]] ", d.grp - 4)),
        7..=9 => s.push_str(&format!("[[vk::binding(5, {})]] ", d.grp - 7)),
        _ => {}
    }
    let arr = match d.arr {
        0 => String::new(),
        4 => "[]".to_string(),
        n => format!("[{}]", n),
    };
    let reg = match d.grp {
        1..=3 => format!(" : register(space{})", d.grp - 1),
        _ => String::new(),
    };
    match d.kind {
        K_CBUFFER => s.push_str(&format!("cbuffer {}{}{} {{ float4 {}_m; }}", name, arr, reg, name)),
        K_STATIC_SAMPLER => s.push_str(&format!("SamplerState {}{}{} = StaticSampler {{ Filter = MIN_MAG_MIP_LINEAR; }};", name, arr, reg)),
        K_PLAIN => s.push_str(&format!("float4 {}{}{};", name, arr, reg)),
        k => s.push_str(&format!("{} {}{}{};", OBJ[k as usize].0, name, arr, reg)),
    }
    s
}

fn use_text(d: &Decl, name: &str) -> String {
    if d.kind == K_CBUFFER { format!("{}_m;", name) } else { format!("{};", name) }
}

/// every declaration of the full alphabet (invalid combinations are kept: the front end must reject them)
pub fn full_alphabet() -> Vec<Decl> {
    let mut v = Vec::new();
    for arr in 0..4u8 {
        for bindless in [false, true] {
            for grp in 0..10u8 {
                for kind in 0..KINDS {
                    if kind == K_CBUFFER && (arr != 0 || bindless) {
                        // `cbuffer X[2]` is not syntax; [[rssl::bindless]] cbuffer is an assertion in the typer (C08's subject)
                        continue;
                    }
                    if bindless && arr == 0 {
                        continue;
                    }
                    v.push(Decl { kind, arr, grp, bindless });
                }
            }
        }
    }
    v
}

// ---------------------------------------------------------------------------------------------
// pipelines, entry points and use sites

#[derive(Clone, Copy, PartialEq, Eq, Debug, Hash)]
pub enum Shape {
    /// no pipeline block (only no-pipeline mode compiles)
    None,
    /// one compute pipeline PC
    C,
    /// one vertex+pixel pipeline PG
    G,
    /// PC then PG
    CG,
    /// PC and PC2 sharing the entry point
    CC,
}

#[derive(Clone, Copy, PartialEq, Eq, Debug, Hash)]
pub struct Scenario {
    pub shape: Shape,
    pub d1: u8,
    pub d2: u8,
}

pub const S_CS: u8 = 1;
pub const S_HCS: u8 = 2;
pub const S_VS: u8 = 4;
pub const S_PS: u8 = 8;
pub const S_HPS: u8 = 16;
pub const S_ORPHAN: u8 = 32;

impl Scenario {
    fn has_c(&self) -> bool {
        matches!(self.shape, Shape::C | Shape::CG | Shape::CC)
    }
    fn has_g(&self) -> bool {
        matches!(self.shape, Shape::G | Shape::CG)
    }
    pub fn pipelines(&self) -> Vec<&'static str> {
        match self.shape {
            Shape::None => vec![],
            Shape::C => vec!["PC"],
            Shape::G => vec!["PG"],
            Shape::CG => vec!["PC", "PG"],
            Shape::CC => vec!["PC", "PC2"],
        }
    }
    /// use sites a single-site variant ranges over
    fn styles(&self) -> Vec<u8> {
        let mut v = Vec::new();
        if self.has_c() {
            v.extend([S_CS, S_HCS]);
        }
        if self.has_g() {
            v.extend([S_VS, S_PS, S_HPS]);
        }
        v.push(S_ORPHAN);
        v
    }
    /// the "everything reachable" assignment: resource i is used at mix[i % len]
    fn mix(&self) -> Vec<u8> {
        match self.shape {
            Shape::None => vec![S_ORPHAN],
            Shape::C | Shape::CC => vec![S_CS, S_HCS],
            Shape::G => vec![S_PS, S_HPS, S_VS],
            Shape::CG => vec![S_CS | S_PS, S_HCS | S_HPS, S_CS | S_VS],
        }
    }
    /// sites from which pipeline `p` reaches a resource
    fn sites_of(&self, p: &str) -> u8 {
        match p {
            "PC" | "PC2" => S_CS | S_HCS,
            "PG" => S_VS | S_PS | S_HPS,
            _ => 0,
        }
    }
    pub fn modes(&self, all_modes: bool) -> Vec<Mode> {
        let mut v = Vec::new();
        let ps = self.pipelines();
        if !ps.is_empty() {
            v.push(Mode::All);
            if all_modes || ps.len() > 1 {
                for p in &ps {
                    v.push(Mode::Named(p.to_string()));
                }
            }
        }
        v.push(Mode::NoPipeline);
        v
    }
}

pub struct EntryNames<'a> {
    pub cs: &'a str,
    pub vs: &'a str,
    pub ps: &'a str,
    pub numthreads: &'a str,
    pub prelude: &'a str,
}

pub const DEFAULT_NAMES: EntryNames<'static> = EntryNames { cs: "CSMAIN", vs: "VSMAIN", ps: "PSMAIN", numthreads: "8, 4, 2", prelude: "" };

/// the rssl program for a declaration sequence, a scenario and a use-site mask per declaration
pub fn build_program(decls: &[(Decl, String)], sc: &Scenario, sites: &[u8], names: &EntryNames) -> String {
    let mut s = String::from("struct S { float4 a; uint b; };\n");
    s.push_str(names.prelude);
    for (d, n) in decls {
        s.push_str(&decl_text(d, n));
        s.push('\n');
    }
    let uses = |site: u8| -> String {
        let mut u = String::new();
        for (i, (d, n)) in decls.iter().enumerate() {
            if sites.get(i).copied().unwrap_or(0) & site != 0 {
                u.push(' ');
                u.push_str(&use_text(d, n));
            }
        }
        u
    };
    s.push_str(&format!("void h_orphan() {{{} }}\n", uses(S_ORPHAN)));
    if sc.has_c() {
        s.push_str(&format!("void h_cs() {{{} }}\n", uses(S_HCS)));
        s.push_str(&format!("[numthreads({})]\nvoid {}() {{{} h_cs(); }}\n", names.numthreads, names.cs, uses(S_CS)));
    }
    if sc.has_g() {
        s.push_str(&format!("void h_ps() {{{} }}\n", uses(S_HPS)));
        s.push_str(&format!("void {}(out float4 o_pos : SV_Position) {{ o_pos = float4(0.0, 0.0, 0.0, 1.0);{} }}\n", names.vs, uses(S_VS)));
        s.push_str(&format!("float4 {}(float4 pos : SV_Position) : SV_Target0 {{{} h_ps(); return pos; }}\n", names.ps, uses(S_PS)));
    }
    match sc.shape {
        Shape::None => {}
        Shape::C => s.push_str(&format!("Pipeline PC {{ ComputeShader = {}; DefaultBindGroup = {}; }}\n", names.cs, sc.d1)),
        Shape::G => s.push_str(&format!("Pipeline PG {{ VertexShader = {}; PixelShader = {}; RenderTargetFormat0 = \"R8G8B8A8_UNORM\"; DefaultBindGroup = {}; }}\n", names.vs, names.ps, sc.d1)),
        Shape::CG => {
            s.push_str(&format!("Pipeline PC {{ ComputeShader = {}; DefaultBindGroup = {}; }}\n", names.cs, sc.d1));
            // stages written out of execution order here (pixel before vertex); shape G writes them in order
            s.push_str(&format!("Pipeline PG {{ PixelShader = {}; VertexShader = {}; RenderTargetFormat0 = \"R8G8B8A8_UNORM\"; DefaultBindGroup = {}; }}\n", names.ps, names.vs, sc.d2));
        }
        Shape::CC => {
            s.push_str(&format!("Pipeline PC {{ ComputeShader = {}; DefaultBindGroup = {}; }}\n", names.cs, sc.d1));
            s.push_str(&format!("Pipeline PC2 {{ ComputeShader = {}; DefaultBindGroup = {}; }}\n", names.cs, sc.d2));
        }
    }
    s
}

fn cfg_short(cfg: Cfg) -> &'static str {
    match cfg {
        Cfg::Dx => "dx",
        Cfg::Vk => "vk",
        Cfg::VkBa => "vkba",
        Cfg::Msl => "msl",
    }
}

fn mode_text(m: &Mode) -> String {
    match m {
        Mode::All => "all".to_string(),
        Mode::NoPipeline => "nopipe".to_string(),
        Mode::Named(n) => format!("named {}", n),
    }
}

fn replay_text(src: &str, cfg: Cfg, mode: &Mode) -> String {
    format!("kind: reflect\ncfg: {}\nmode: {}\n=====\n{}", cfg.name(), mode_text(mode), src)
}

// ---------------------------------------------------------------------------------------------
// what the oracle needs to know about the INPUT source (all derived from the source text, so a replay needs nothing else)

pub struct SrcInfo {
    /// input declaration name -> (allocator class, has [[rssl::bindless]])
    pub decls: BTreeMap<String, (String, bool)>,
    /// pipeline names in source order
    pub pipelines: Vec<String>,
    /// pipeline name -> input names of the globals / cbuffers some entry point of the pipeline reaches
    pub reach: BTreeMap<String, BTreeSet<String>>,
    /// pipeline name -> reachable name -> "" when a statement of a reachable function touches it outside the inner braces of
    /// a brace initialiser, else the only way it is reached (":via-nested-initialiser", ":via-default-argument",
    /// ":via-static-initialiser"); part of the is_used signature class
    pub reach_how: BTreeMap<String, BTreeMap<String, &'static str>>,
    /// pipeline name -> (stage property of the pipeline block, function it names), e.g. ("PixelShader", "PSMAIN")
    pub stage_functions: BTreeMap<String, Vec<(String, String)>>,
}

fn declarator_name(d: &ast::Declarator) -> Option<String> {
    match d {
        ast::Declarator::Empty => None,
        ast::Declarator::Identifier(id, _) => id.identifiers.last().map(|l| l.node.clone()),
        ast::Declarator::Pointer(p) => declarator_name(&p.inner),
        ast::Declarator::Reference(r) => declarator_name(&r.inner),
        ast::Declarator::Array(a) => declarator_name(&a.inner),
    }
}

fn attr_is(a: &ast::Attribute, path: &[&str]) -> bool {
    a.name.len() == path.len() && a.name.iter().zip(path).all(|(n, p)| n.node == *p)
}

fn type_leaf(t: &ast::Type) -> String {
    t.layout.0.identifiers.last().map(|l| l.node.clone()).unwrap_or_default()
}

fn type_path(t: &ast::Type) -> String {
    t.layout.0.identifiers.iter().map(|l| l.node.as_str()).collect::<Vec<_>>().join("::")
}

fn collect_input_decls(defs: &[ast::RootDefinition], out: &mut BTreeMap<String, (String, bool)>) {
    for d in defs {
        match d {
            ast::RootDefinition::GlobalVariable(gv) => {
                let bindless = gv.attributes.iter().any(|a| attr_is(a, &["rssl", "bindless"]));
                let is_local = gv.global_type.modifiers.modifiers.iter().any(|m| matches!(m.node, ast::TypeModifier::Static | ast::TypeModifier::GroupShared));
                for def in &gv.defs {
                    let Some(name) = declarator_name(&def.declarator) else { continue };
                    let class = if is_local {
                        "plain-global"
                    } else if matches!(def.init, Some(ast::Initializer::StaticSampler(_))) {
                        "static-sampler"
                    } else {
                        class_of_type_name(&type_leaf(&gv.global_type))
                    };
                    out.insert(name, (class.to_string(), bindless));
                }
            }
            ast::RootDefinition::ConstantBuffer(cb) => {
                let bindless = cb.attributes.iter().any(|a| attr_is(a, &["rssl", "bindless"]));
                out.insert(cb.name.node.clone(), ("cbuffer".to_string(), bindless));
            }
            ast::RootDefinition::Namespace(_, inner) => collect_input_decls(inner, out),
            _ => {}
        }
    }
}

/// the harness' own reachability: functions and globals touched from a set of entry points
struct Walk<'m> {
    m: &'m ir::Module,
    funcs: BTreeSet<u32>,
    globals: BTreeSet<String>,
    pending: Vec<ir::FunctionId>,
    /// follow default-argument expressions of calls that omit the argument
    with_defaults: bool,
    /// follow the initialiser of a static global that is read
    with_inits: bool,
    /// look into the inner braces of a brace initialiser (false: only the entries of the outermost braces that are expressions)
    with_nested: bool,
}

impl<'m> Walk<'m> {
    fn block(&mut self, b: &ir::ScopeBlock) {
        for s in &b.0 {
            self.stmt(s);
        }
    }
    fn init(&mut self, i: &Option<ir::Initializer>) {
        if let Some(i) = i {
            self.init1(i, 0);
        }
    }
    fn init1(&mut self, i: &ir::Initializer, depth: usize) {
        match i {
            ir::Initializer::Expression(e) => self.expr(e),
            ir::Initializer::Aggregate(v) => {
                if depth >= 1 && !self.with_nested {
                    return;
                }
                for x in v {
                    self.init1(x, depth + 1);
                }
            }
        }
    }
    fn stmt(&mut self, s: &ir::Statement) {
        use ir::StatementKind as K;
        match &s.kind {
            K::Expression(e) => self.expr(e),
            K::Var(v) => self.init(&v.init),
            K::Block(b) => self.block(b),
            K::If(c, b) | K::While(c, b) | K::Switch(c, b) => {
                self.expr(c);
                self.block(b);
            }
            K::IfElse(c, a, b) => {
                self.expr(c);
                self.block(a);
                self.block(b);
            }
            K::For(i, c, a, b) => {
                match i {
                    ir::ForInit::Empty => {}
                    ir::ForInit::Expression(e) => self.expr(e),
                    ir::ForInit::Definitions(ds) => {
                        for d in ds {
                            self.init(&d.init);
                        }
                    }
                }
                if let Some(c) = c {
                    self.expr(c);
                }
                if let Some(a) = a {
                    self.expr(a);
                }
                self.block(b);
            }
            K::DoWhile(b, c) => {
                self.block(b);
                self.expr(c);
            }
            K::Return(Some(e)) => self.expr(e),
            K::Return(None) | K::Break | K::Continue | K::Discard | K::CaseLabel(_) | K::DefaultLabel => {}
        }
    }
    fn expr(&mut self, e: &ir::Expression) {
        use ir::Expression as E;
        match e {
            E::Literal(_) | E::Variable(_) | E::MemberVariable(..) | E::EnumValue(_) | E::SizeOf(_) => {}
            E::Global(id) => {
                let g = &self.m.global_registry[id.0 as usize];
                // reading a static global runs its initialiser
                if self.globals.insert(g.name.node.clone()) && self.with_inits {
                    let init = g.init.clone();
                    self.init(&init);
                }
            }
            E::ConstantVariable(id) => {
                self.globals.insert(self.m.cbuffer_registry[id.0.0 as usize].name.node.clone());
            }
            E::TernaryConditional(a, b, c) => {
                self.expr(a);
                self.expr(b);
                self.expr(c);
            }
            E::Sequence(v) => {
                for x in v {
                    self.expr(x);
                }
            }
            E::Swizzle(o, _) | E::MatrixSwizzle(o, _) | E::StructMember(o, _, _) | E::ObjectMember(o, _) | E::Cast(_, o) => self.expr(o),
            E::ArraySubscript(a, b) => {
                self.expr(a);
                self.expr(b);
            }
            E::Call(f, _, args) => {
                if self.funcs.insert(f.0) {
                    self.pending.push(*f);
                }
                for a in args {
                    self.expr(a);
                }
                // parameters the call does not supply are evaluated from their default expressions
                if let (true, Some(imp)) = (self.with_defaults, self.m.function_registry.get_function_implementation(*f)) {
                    let defaults: Vec<ir::Expression> = imp.params.iter().skip(args.len()).filter_map(|p| p.default_expr.clone()).collect();
                    for d in &defaults {
                        self.expr(d);
                    }
                }
            }
            E::Constructor(_, slots) => {
                for s in slots {
                    self.expr(&s.expr);
                }
            }
            E::IntrinsicOp(_, args) => {
                for a in args {
                    self.expr(a);
                }
            }
        }
    }
    fn run(m: &'m ir::Module, entries: &[ir::FunctionId], with_defaults: bool, with_inits: bool, with_nested: bool) -> BTreeSet<String> {
        let mut w = Walk { m, funcs: BTreeSet::new(), globals: BTreeSet::new(), pending: Vec::new(), with_defaults, with_inits, with_nested };
        for e in entries {
            if w.funcs.insert(e.0) {
                w.pending.push(*e);
            }
        }
        while let Some(f) = w.pending.pop() {
            if let Some(imp) = m.function_registry.get_function_implementation(f) {
                let imp = imp.clone();
                w.block(&imp.scope_block);
            }
        }
        w.globals
    }
}

/// parse + type check the input; Err = the front end rejects the program
pub fn analyse_source(src: &str) -> Result<SrcInfo, String> {
    let tree = parse_src(src)?;
    let module = rssl::typer::type_check(&tree).map_err(|_| "type error".to_string())?;
    let mut decls = BTreeMap::new();
    collect_input_decls(&tree.root_definitions, &mut decls);
    let mut pipelines = Vec::new();
    let mut reach = BTreeMap::new();
    let mut reach_how = BTreeMap::new();
    for p in &module.pipelines {
        let entries: Vec<ir::FunctionId> = p.stages.iter().map(|s| s.entry_point).collect();
        pipelines.push(p.name.node.clone());
        let shallow = Walk::run(&module, &entries, false, false, false);
        let plain = Walk::run(&module, &entries, false, false, true);
        let with_defaults = Walk::run(&module, &entries, true, false, true);
        let all = Walk::run(&module, &entries, true, true, true);
        let mut how = BTreeMap::new();
        for n in &all {
            how.insert(
                n.clone(),
                if shallow.contains(n) {
                    ""
                } else if plain.contains(n) {
                    ":via-nested-initialiser"
                } else if with_defaults.contains(n) {
                    ":via-default-argument"
                } else {
                    ":via-static-initialiser"
                },
            );
        }
        reach_how.insert(p.name.node.clone(), how);
        reach.insert(p.name.node.clone(), all);
    }
    let mut stage_functions = BTreeMap::new();
    for d in &tree.root_definitions {
        if let ast::RootDefinition::Pipeline(pd) = d {
            let mut v = Vec::new();
            for prop in &pd.properties {
                if let ast::PipelinePropertyValue::Single(ast::Expression::Identifier(id)) = &prop.value.node {
                    if prop.property.node.ends_with("Shader") {
                        v.push((prop.property.node.clone(), id.identifiers.last().map(|l| l.node.clone()).unwrap_or_default()));
                    }
                }
            }
            stage_functions.insert(pd.name.node.clone(), v);
        }
    }
    Ok(SrcInfo { decls, pipelines, reach, reach_how, stage_functions })
}

impl SrcInfo {
    /// the input declaration an emitted / reported name belongs to (the exporters rename `x` to `x_<n>`)
    fn input_name(&self, emitted: &str) -> Option<&str> {
        if let Some((k, _)) = self.decls.get_key_value(emitted) {
            return Some(k.as_str());
        }
        if let Some(p) = emitted.rfind('_') {
            let (base, suffix) = (&emitted[..p], &emitted[p + 1..]);
            if !suffix.is_empty() && suffix.bytes().all(|b| b.is_ascii_digit()) {
                if let Some((k, _)) = self.decls.get_key_value(base) {
                    return Some(k.as_str());
                }
            }
        }
        None
    }
    fn class(&self, emitted: &str) -> String {
        match self.input_name(emitted) {
            Some(n) => self.decls[n].0.clone(),
            None => "generated".to_string(),
        }
    }
}
// ---------------------------------------------------------------------------------------------
// re-reading the emitted source

/// one externally bound declaration as the emitted source states it
#[derive(Clone, Debug)]
pub struct SrcBinding {
    pub name: String,
    pub group: u32,
    /// None when the annotation carries no number
    pub loc: Option<ApiLocation>,
    /// how the annotation is written, for messages
    pub annotation: String,
    /// canonical declared type (see `allowed_types`)
    pub ty: String,
    /// Some(n) declared length (1 when not an array), None for an unsized array
    pub count: Option<u64>,
    /// the declarator has an array suffix (also `[1]`)
    pub is_array: bool,
}

fn declared_as_array(s: &SrcBinding) -> bool {
    s.is_array
}

#[derive(Clone, Debug, Default)]
pub struct SrcFunction {
    pub name: String,
    pub has_body: bool,
    /// stage attribute on Metal entry points (kernel / vertex / fragment / object / mesh)
    pub stage_attr: Option<String>,
    /// the values of [numthreads(x, y, z)]; None when an argument cannot be evaluated
    pub numthreads: Option<Option<(u64, u64, u64)>>,
    /// the value of [[max_total_threads_per_threadgroup(n)]]
    pub max_threads: Option<Option<u64>>,
}

#[derive(Default, Debug)]
pub struct Emitted {
    pub bindings: Vec<SrcBinding>,
    /// group -> (binding index of g_inlineDescriptorN, byte size of InlineDescriptorN)
    pub inline: BTreeMap<u32, (Option<u64>, Option<u64>)>,
    pub functions: Vec<SrcFunction>,
    /// true when the source declares at least one ArgumentBufferN struct (Metal)
    pub has_argument_buffers: bool,
}

fn lit_u64(e: &ast::Expression) -> Option<u64> {
    match e {
        ast::Expression::Literal(ast::Literal::IntUntyped(v)) | ast::Expression::Literal(ast::Literal::IntUnsigned32(v)) | ast::Expression::Literal(ast::Literal::IntUnsigned64(v)) => Some(*v),
        ast::Expression::Literal(ast::Literal::IntSigned64(v)) if *v >= 0 => Some(*v as u64),
        _ => None,
    }
}

/// integer constant expressions as they appear in emitted attributes: literals, named constants, + - *, casts
fn eval_const(e: &ast::Expression, consts: &BTreeMap<String, u64>) -> Option<u64> {
    use ast::Expression as E;
    match e {
        E::Literal(_) => lit_u64(e),
        E::Identifier(id) => consts.get(&id.identifiers.last()?.node).copied(),
        E::BinaryOperation(op, a, b) => {
            let (a, b) = (eval_const(&a.node, consts)?, eval_const(&b.node, consts)?);
            match op {
                ast::BinOp::Multiply => a.checked_mul(b),
                ast::BinOp::Add => a.checked_add(b),
                ast::BinOp::Subtract => a.checked_sub(b),
                _ => None,
            }
        }
        E::Cast(_, inner) => eval_const(&inner.node, consts),
        E::Call(_, _, args) if args.len() == 1 => eval_const(&args[0].node, consts),
        E::AmbiguousParseBranch(v) => v.iter().find_map(|c| eval_const(&c.expr.node, consts)),
        _ => None,
    }
}

fn collect_consts(defs: &[ast::RootDefinition], out: &mut BTreeMap<String, u64>) {
    for d in defs {
        match d {
            ast::RootDefinition::GlobalVariable(gv) => {
                for def in &gv.defs {
                    if let (Some(n), Some(ast::Initializer::Expression(e))) = (declarator_name(&def.declarator), &def.init) {
                        if let Some(v) = eval_const(&e.node, out) {
                            out.insert(n, v);
                        }
                    }
                }
            }
            ast::RootDefinition::Namespace(_, inner) => collect_consts(inner, out),
            _ => {}
        }
    }
}

/// (declared array length: Some(Some(n)) sized, Some(None) unsized, None not an array)
fn declarator_array(d: &ast::Declarator, consts: &BTreeMap<String, u64>) -> Option<Option<u64>> {
    match d {
        ast::Declarator::Array(a) => Some(a.array_size.as_ref().and_then(|e| eval_const(&e.node, consts))),
        ast::Declarator::Reference(r) => declarator_array(&r.inner, consts),
        ast::Declarator::Pointer(p) => declarator_array(&p.inner, consts),
        _ => None,
    }
}

fn declarator_is_reference(d: &ast::Declarator) -> bool {
    match d {
        ast::Declarator::Reference(_) => true,
        ast::Declarator::Array(a) => declarator_is_reference(&a.inner),
        _ => false,
    }
}

fn type_arg_type(a: &ast::ExpressionOrType) -> Option<&ast::TypeId> {
    match a {
        ast::ExpressionOrType::Type(t) | ast::ExpressionOrType::Either(_, t) => Some(t),
        _ => None,
    }
}

fn function_info(f: &ast::FunctionDefinition, consts: &BTreeMap<String, u64>) -> SrcFunction {
    let mut out = SrcFunction { name: f.name.node.clone(), has_body: f.body.is_some(), ..Default::default() };
    for a in &f.attributes {
        let leaf = a.name.last().map(|n| n.node.as_str()).unwrap_or("");
        match leaf {
            "numthreads" if a.name.len() == 1 => {
                let v: Vec<Option<u64>> = a.arguments.iter().map(|e| eval_const(&e.node, consts)).collect();
                out.numthreads = Some(match v.as_slice() {
                    [Some(x), Some(y), Some(z)] => Some((*x, *y, *z)),
                    _ => None,
                });
            }
            "max_total_threads_per_threadgroup" => {
                out.max_threads = Some(a.arguments.first().and_then(|e| eval_const(&e.node, consts)));
            }
            "kernel" | "vertex" | "fragment" | "object" | "mesh" if a.name.len() == 1 && a.two_square_brackets => {
                out.stage_attr = Some(leaf.to_string());
            }
            _ => {}
        }
    }
    out
}

/// HLSL: every global / cbuffer with register(...) or [[vk::binding]], every [[vk::offset]] member of InlineDescriptorN
pub fn read_hlsl(module: &ast::Module) -> Emitted {
    let mut em = Emitted::default();
    let mut consts = BTreeMap::new();
    collect_consts(&module.root_definitions, &mut consts);
    read_hlsl_defs(&module.root_definitions, &consts, &mut em);
    em
}

fn annotation_of(attributes: &[ast::Attribute], regs: &[ast::LocationAnnotation]) -> Option<(u32, Option<ApiLocation>, String)> {
    for a in attributes {
        if attr_is(a, &["vk", "binding"]) {
            let i = a.arguments.first().and_then(|e| lit_u64(&e.node));
            let s = a.arguments.get(1).and_then(|e| lit_u64(&e.node)).unwrap_or(0);
            let text = format!("[[vk::binding({}{})]]", i.map(|v| v.to_string()).unwrap_or("?".into()), if a.arguments.len() > 1 { format!(", {}", s) } else { String::new() });
            return Some((s as u32, i.map(|v| ApiLocation::Index(v as u32)), text));
        }
    }
    for r in regs {
        if let ast::LocationAnnotation::Register(r) = r {
            let space = r.space.unwrap_or(0);
            let text = format!(
                "register({}{})",
                r.slot.as_ref().map(|s| format!("{}{}", s.slot_type, s.index)).unwrap_or_default(),
                r.space.map(|s| format!(", space{}", s)).unwrap_or_default()
            );
            return Some((space, r.slot.as_ref().map(|s| ApiLocation::Index(s.index)), text));
        }
    }
    None
}

fn read_hlsl_defs(defs: &[ast::RootDefinition], consts: &BTreeMap<String, u64>, em: &mut Emitted) {
    for d in defs {
        match d {
            ast::RootDefinition::Struct(sd) => {
                if let Some(n) = sd.name.node.strip_prefix("InlineDescriptor").and_then(|n| n.parse::<u32>().ok()) {
                    let mut size = 0u64;
                    for m in &sd.members {
                        let ast::StructEntry::Variable(m) = m else { continue };
                        let off = m.attributes.iter().find(|a| attr_is(a, &["vk", "offset"])).and_then(|a| a.arguments.first()).and_then(|e| lit_u64(&e.node));
                        let width = if type_leaf(&m.ty) == "uint64_t" { 8 } else { 0 };
                        for def in &m.defs {
                            let Some(name) = declarator_name(&def.declarator) else { continue };
                            if let Some(o) = off {
                                size = size.max(o + width);
                                em.bindings.push(SrcBinding {
                                    name,
                                    group: n,
                                    loc: Some(ApiLocation::InlineConstant(o as u32)),
                                    annotation: format!("[[vk::offset({})]] member of {}", o, sd.name.node),
                                    ty: format!("inline:{}", type_leaf(&m.ty)),
                                    count: Some(declarator_array(&def.declarator, consts).map(|l| l.unwrap_or(0)).unwrap_or(1)),
                                    is_array: declarator_array(&def.declarator, consts).is_some(),
                                });
                            }
                        }
                    }
                    em.inline.entry(n).or_insert((None, None)).1 = Some(size);
                }
            }
            ast::RootDefinition::GlobalVariable(gv) => {
                for def in &gv.defs {
                    let Some(name) = declarator_name(&def.declarator) else { continue };
                    let Some((group, loc, annotation)) = annotation_of(&gv.attributes, &def.location_annotations) else { continue };
                    let leaf = type_leaf(&gv.global_type);
                    // the generated constant buffer that carries the inline descriptors of a group
                    let inline_struct = if leaf == "ConstantBuffer" {
                        gv.global_type.layout.1.first().and_then(type_arg_type).map(|t| type_leaf(&t.base)).and_then(|n| n.strip_prefix("InlineDescriptor").and_then(|n| n.parse::<u32>().ok()))
                    } else {
                        None
                    };
                    if let Some(n) = inline_struct {
                        let idx = match loc {
                            Some(ApiLocation::Index(i)) if group == n => Some(i as u64),
                            _ => None,
                        };
                        em.inline.entry(n).or_insert((None, None)).0 = idx;
                        continue;
                    }
                    let count = match declarator_array(&def.declarator, consts) {
                        None => Some(1),
                        Some(Some(n)) => Some(n),
                        Some(None) => None,
                    };
                    em.bindings.push(SrcBinding { name, group, loc, annotation, ty: format!("hlsl:{}", leaf), count, is_array: declarator_array(&def.declarator, consts).is_some() });
                }
            }
            ast::RootDefinition::ConstantBuffer(cb) => {
                if let Some((group, loc, annotation)) = annotation_of(&cb.attributes, &cb.location_annotations) {
                    em.bindings.push(SrcBinding { name: cb.name.node.clone(), group, loc, annotation, ty: "hlsl:cbuffer".to_string(), count: Some(1), is_array: false });
                }
            }
            ast::RootDefinition::Function(f) => em.functions.push(function_info(f, consts)),
            ast::RootDefinition::Namespace(_, inner) => read_hlsl_defs(inner, consts, em),
            _ => {}
        }
    }
}

/// Metal: every [[id(n)]] member of each ArgumentBufferN struct, and the generated entry functions
pub fn read_msl(module: &ast::Module) -> Emitted {
    let mut em = Emitted::default();
    let mut consts = BTreeMap::new();
    collect_consts(&module.root_definitions, &mut consts);
    for d in &module.root_definitions {
        match d {
            ast::RootDefinition::Struct(sd) => {
                // an argument buffer struct is recognised by what it is - a struct with [[id(n)]] members - not by the name
                // the generator happens to give it; the bind group is the number the generated name ends in
                let has_id_member = sd.members.iter().any(|m| matches!(m, ast::StructEntry::Variable(v) if v.attributes.iter().any(|a| attr_is(a, &["id"]))));
                if !has_id_member {
                    continue;
                }
                let digits: String = sd.name.node.chars().rev().take_while(|c| c.is_ascii_digit()).collect::<Vec<_>>().into_iter().rev().collect();
                let Some(n) = digits.parse::<u32>().ok() else { continue };
                em.has_argument_buffers = true;
                for m in &sd.members {
                    let ast::StructEntry::Variable(m) = m else { continue };
                    let Some(id) = m.attributes.iter().find(|a| attr_is(a, &["id"])) else { continue };
                    let idx = id.arguments.first().and_then(|e| eval_const(&e.node, &consts));
                    for def in &m.defs {
                        let Some(name) = declarator_name(&def.declarator) else { continue };
                        let (ty, count) = msl_type(&m.ty, &def.declarator, &consts);
                        em.bindings.push(SrcBinding {
                            name,
                            group: n,
                            loc: idx.map(|v| ApiLocation::Index(v as u32)),
                            annotation: format!("[[id({})]] member of {}", idx.map(|v| v.to_string()).unwrap_or("?".into()), sd.name.node),
                            ty,
                            count,
                            is_array: count != Some(1) || declarator_array(&def.declarator, &consts).is_some() || type_path(&m.ty) == "metal::array",
                        });
                    }
                }
            }
            ast::RootDefinition::Function(f) => em.functions.push(function_info(f, &consts)),
            _ => {}
        }
    }
    em
}

/// canonical declared type and length of an argument buffer member
fn msl_type(ty: &ast::Type, decl: &ast::Declarator, consts: &BTreeMap<String, u64>) -> (String, Option<u64>) {
    let path = type_path(ty);
    if path == "metal::array" {
        let inner = ty.layout.1.first().and_then(type_arg_type);
        let len = match ty.layout.1.get(1) {
            Some(ast::ExpressionOrType::Expression(e)) | Some(ast::ExpressionOrType::Either(e, _)) => eval_const(&e.node, consts),
            _ => None,
        };
        // `metal::array<constant S, n>& name`: the reference of a constant buffer object sits on the outer declarator
        let inner_ty = match inner {
            Some(t) if declarator_is_reference(decl) => msl_type(&t.base, decl, consts).0,
            Some(t) => msl_type(&t.base, &t.abstract_declarator, consts).0,
            None => "msl:?".to_string(),
        };
        return (inner_ty, Some(len.unwrap_or(0)));
    }
    let constant_space = ty.modifiers.modifiers.iter().any(|m| matches!(m.node, ast::TypeModifier::AddressSpace(ast::AddressSpace::Constant)));
    let count = match declarator_array(decl, consts) {
        None => Some(1),
        Some(Some(n)) => Some(n),
        Some(None) => None,
    };
    if constant_space && declarator_is_reference(decl) {
        return ("msl:constant-reference".to_string(), count);
    }
    let rw = ty.layout.1.iter().any(|a| match a {
        ast::ExpressionOrType::Expression(e) | ast::ExpressionOrType::Either(e, _) => matches!(&e.node, ast::Expression::Identifier(id) if id.identifiers.last().map(|l| l.node.as_str()) == Some("read_write")),
        _ => false,
    });
    (format!("msl:{}{}", path, if rw { "|read_write" } else { "" }), count)
}

/// declared type in the emitted source -> descriptor types that may describe it (table written from the doc comments
/// of ir/src/export.rs: "A ByteAddressBuffer or SSBO resource view", "Raw buffer address or ByteBuffer if raw addresses
/// are disabled", "A read-only sampled 2d texture", ...)
pub fn allowed_types(ty: &str) -> &'static [DT] {
    match ty {
        "hlsl:cbuffer" | "hlsl:ConstantBuffer" | "msl:constant-reference" => &[DT::ConstantBuffer],
        "hlsl:ByteAddressBuffer" | "msl:helper::ByteAddressBuffer" => &[DT::ByteBuffer, DT::BufferAddress],
        "hlsl:RWByteAddressBuffer" | "msl:helper::RWByteAddressBuffer" => &[DT::RwByteBuffer, DT::RwBufferAddress],
        // a raw buffer address is a 64 bit integer member of InlineDescriptorN at a [[vk::offset]] ("Raw buffer address");
        // a declaration that carries a descriptor slot (register / [[vk::binding]]) is a resource view ("or ByteBuffer if raw
        // addresses are disabled"): a 64 bit integer there (`hlsl:uint64_t`) is describable by no descriptor type
        "inline:uint64_t" => &[DT::BufferAddress, DT::RwBufferAddress],
        "hlsl:StructuredBuffer" | "msl:helper::StructuredBuffer" => &[DT::StructuredBuffer],
        "hlsl:RWStructuredBuffer" | "msl:helper::RWStructuredBuffer" => &[DT::RwStructuredBuffer],
        "hlsl:Buffer" | "msl:metal::texture_buffer" => &[DT::TexelBuffer],
        "hlsl:RWBuffer" | "msl:metal::texture_buffer|read_write" => &[DT::RwTexelBuffer],
        "hlsl:Texture2D" | "msl:metal::texture2d" => &[DT::Texture2d],
        "hlsl:Texture2DArray" | "msl:metal::texture2d_array" => &[DT::Texture2dArray],
        "hlsl:RWTexture2D" | "msl:metal::texture2d|read_write" => &[DT::RwTexture2d],
        "hlsl:RWTexture2DArray" | "msl:metal::texture2d_array|read_write" => &[DT::RwTexture2dArray],
        "hlsl:TextureCube" | "msl:metal::texturecube" => &[DT::TextureCube],
        "hlsl:TextureCubeArray" | "msl:metal::texturecube_array" => &[DT::TextureCubeArray],
        "hlsl:Texture3D" | "msl:metal::texture3d" => &[DT::Texture3d],
        "hlsl:RWTexture3D" | "msl:metal::texture3d|read_write" => &[DT::RwTexture3d],
        "hlsl:RaytracingAccelerationStructure" | "msl:metal::raytracing::instance_acceleration_structure" => &[DT::RaytracingAccelerationStructure],
        "hlsl:SamplerState" => &[DT::SamplerState],
        "hlsl:SamplerComparisonState" => &[DT::SamplerComparisonState],
        "msl:metal::sampler" => &[DT::SamplerState, DT::SamplerComparisonState],
        _ => &[],
    }
}
// ---------------------------------------------------------------------------------------------
// oracle `reflect`

pub struct Finding {
    pub field: &'static str,
    pub class: String,
    pub detail: String,
}

fn loc_text(l: &ApiLocation) -> String {
    match l {
        ApiLocation::Index(i) => format!("slot {}", i),
        ApiLocation::InlineConstant(o) => format!("inline-constant offset {}", o),
    }
}

/// Compare one compiled pipeline with what its emitted source says. `pipeline` = its name (None in no-pipeline mode).
pub fn check_pipeline(p: &rssl::CompiledPipeline, em: &Emitted, cfg: Cfg, pipeline: Option<&str>, info: &SrcInfo, out: &mut Vec<Finding>, acc: &mut Acc) {
    let msl = cfg == Cfg::Msl;
    // Metal, no-pipeline mode: neither entry points nor argument buffers are generated (documented: "generating output
    // without the pipeline boilerplate"), so the source states no binding the entries could be compared with
    let no_annotations_by_design = msl && pipeline.is_none() && !em.has_argument_buffers;

    // --- source side, keyed by name
    let mut src: BTreeMap<&str, &SrcBinding> = BTreeMap::new();
    for b in &em.bindings {
        if src.insert(b.name.as_str(), b).is_some() {
            out.push(Finding { field: "name", class: info.class(&b.name), detail: format!("the emitted source has two externally bound declarations named `{}`", b.name) });
        }
    }
    // --- metadata side
    let mut seen: BTreeSet<&str> = BTreeSet::new();
    let mut claimed: BTreeSet<&str> = BTreeSet::new();
    let reach = pipeline.and_then(|n| info.reach.get(n));
    for (g, group) in p.metadata.bind_groups.iter().enumerate() {
        for b in &group.bindings {
            let class = info.class(&b.name);
            if !seen.insert(b.name.as_str()) {
                out.push(Finding { field: "extra-entry", class: class.clone(), detail: format!("metadata has more than one entry named `{}`", b.name) });
                continue;
            }
            acc.count("metadata_entries_checked");
            let input = info.input_name(&b.name);
            // bindless: the emitted source has no marker for it; the attribute of the input declaration is the reference
            if let Some(n) = input {
                if info.decls[n].1 != b.is_bindless {
                    out.push(Finding { field: "bindless", class: class.clone(), detail: format!("`{}`: metadata is_bindless={} but the declaration {} [[rssl::bindless]]", b.name, b.is_bindless, if info.decls[n].1 { "has" } else { "does not have" }) });
                }
            }
            // is_used
            match reach {
                Some(r) => {
                    let reachable = input.map(|n| r.contains(n)).unwrap_or(false);
                    if reachable {
                        acc.count(if b.is_used { "reachable_bindings_reported_used" } else { "reachable_bindings_reported_unused" });
                        if !b.is_used {
                            let how = pipeline.and_then(|p| info.reach_how.get(p)).and_then(|h| input.and_then(|n| h.get(n))).copied().unwrap_or("");
                            out.push(Finding {
                                field: "is_used",
                                // one class per way of reaching when it is not an ordinary statement: the kind of resource plays no part
                                class: if how.is_empty() { class.clone() } else { how[1..].to_string() },
                                detail: format!("`{}` is reachable from an entry point of pipeline {}{} but reported is_used=false", b.name, pipeline.unwrap_or(""), if how.is_empty() { String::new() } else { format!(" (only {})", &how[1..]) }),
                            });
                        }
                    } else if msl && input.is_some() {
                        acc.count(if b.is_used { "msl_unreachable_bindings_reported_used" } else { "msl_unreachable_bindings_reported_unused" });
                        if b.is_used {
                            out.push(Finding { field: "is_used", class: class.clone(), detail: format!("`{}` cannot be reached from any entry point of pipeline {} but Metal metadata reports is_used=true", b.name, pipeline.unwrap_or("")) });
                        }
                    }
                }
                None => {
                    if msl && b.is_used {
                        out.push(Finding { field: "is_used", class: class.clone(), detail: format!("`{}`: no-pipeline mode has no entry point but Metal metadata reports is_used=true", b.name) });
                    }
                }
            }
            if no_annotations_by_design {
                acc.count("msl_nopipeline_entries_without_source_annotation(by design)");
                continue;
            }
            // an entry whose name is not declared but `<name>_<n>` is, in the same group and not described otherwise: the
            // declaration was renamed by the exporter and the metadata did not follow (one finding instead of extra + missing)
            let renamed = if src.contains_key(b.name.as_str()) {
                None
            } else {
                em.bindings.iter().find(|s| {
                    s.group == g as u32
                        && s.name.strip_prefix(b.name.as_str()).and_then(|r| r.strip_prefix('_')).map(|r| !r.is_empty() && r.bytes().all(|c| c.is_ascii_digit())).unwrap_or(false)
                        && !p.metadata.bind_groups.iter().any(|gr| gr.bindings.iter().any(|o| o.name == s.name))
                })
            };
            if let Some(s) = renamed {
                out.push(Finding { field: "name", class: "renamed-declaration".into(), detail: format!("metadata names `{}` ({}, group {}) but the declaration bound there is emitted as `{}` ({})", b.name, loc_text(&b.api_binding), g, s.name, s.annotation) });
                claimed.insert(s.name.as_str());
            }
            let Some(s) = renamed.or_else(|| src.get(b.name.as_str()).copied()) else {
                out.push(Finding {
                    field: "extra-entry",
                    class,
                    detail: format!("metadata group {} has `{}` ({}, {:?}) but no declaration with that name carries a binding annotation in the emitted source", g, b.name, loc_text(&b.api_binding), b.descriptor_type),
                });
                continue;
            };
            acc.count("bindings_compared");
            if s.group != g as u32 {
                out.push(Finding { field: "group", class: class.clone(), detail: format!("`{}`: metadata bind group {} but the source says {}", b.name, g, s.annotation) });
            }
            match (&s.loc, &b.api_binding) {
                (Some(ApiLocation::Index(a)), ApiLocation::Index(m)) if a == m => {}
                (Some(ApiLocation::InlineConstant(a)), ApiLocation::InlineConstant(m)) if a == m => {}
                (Some(ApiLocation::InlineConstant(_)), m) | (_, m @ ApiLocation::InlineConstant(_)) => {
                    out.push(Finding { field: "offset", class: class.clone(), detail: format!("`{}`: metadata {} but the source says {}", b.name, loc_text(m), s.annotation) });
                }
                (_, m) => {
                    out.push(Finding { field: "slot", class: class.clone(), detail: format!("`{}`: metadata {} but the source says {}", b.name, loc_text(m), s.annotation) });
                }
            }
            let allowed = allowed_types(&s.ty);
            if !allowed.contains(&b.descriptor_type) {
                // an ARRAY declared as 64 bit integers that carries a descriptor slot is its own class (one root cause: arrays of
                // buffer addresses are not moved into the inline constants)
                let class = if s.ty == "hlsl:uint64_t" && declared_as_array(s) { format!("{}-array", class) } else { class.clone() };
                out.push(Finding { field: "type", class, detail: format!("`{}`: metadata descriptor type {:?} but the source declares it as {} (describable as {:?})", b.name, b.descriptor_type, s.ty, allowed) });
            }
            match (s.count, b.descriptor_count) {
                (None, None) => {}
                (Some(a), Some(m)) if a == m as u64 => {}
                (a, m) => {
                    out.push(Finding { field: "count", class: class.clone(), detail: format!("`{}`: metadata descriptor_count {:?} but the source declares length {:?} (None = unsized)", b.name, m, a) });
                }
            }
        }
        // inline constants of this group
        let src_inline = em.inline.get(&(g as u32));
        match (&group.inline_constants, src_inline) {
            (None, None) => {}
            (Some(m), Some((idx, size))) => {
                acc.count("inline_constant_buffers_compared");
                if *idx != Some(m.api_location as u64) || *size != Some(m.size_in_bytes as u64) {
                    out.push(Finding {
                        field: "inline-constants",
                        class: "buffer-address".into(),
                        detail: format!("group {}: metadata inline_constants {{api_location {}, size {}}} but the source binds g_inlineDescriptor{} at {:?} and InlineDescriptor{} is {:?} bytes", g, m.api_location, m.size_in_bytes, g, idx, g, size),
                    });
                }
            }
            (m, s) => out.push(Finding { field: "inline-constants", class: "buffer-address".into(), detail: format!("group {}: metadata inline_constants {:?} but the source has {:?}", g, m, s) }),
        }
    }
    for (g, s) in &em.inline {
        if *g as usize >= p.metadata.bind_groups.len() {
            out.push(Finding { field: "inline-constants", class: "buffer-address".into(), detail: format!("the source has an inline descriptor buffer {:?} for group {} but metadata has no such group", s, g) });
        }
    }
    // --- every externally bound declaration of the source is described
    for b in &em.bindings {
        if !seen.contains(b.name.as_str()) && !claimed.contains(b.name.as_str()) {
            out.push(Finding { field: "missing-entry", class: info.class(&b.name), detail: format!("the source binds `{}` with {} (group {}) but metadata has no entry with that name", b.name, b.annotation, b.group) });
        }
    }
    // --- stages
    for st in &p.stages {
        acc.count("stages_compared");
        let cands: Vec<&SrcFunction> = em.functions.iter().filter(|f| f.name == st.entry_point && f.has_body).collect();
        let stage_class = format!("{:?}", st.stage).to_lowercase();
        if cands.is_empty() {
            let renamed = em.functions.iter().find(|f| f.has_body && f.name.strip_prefix(st.entry_point.as_str()).and_then(|r| r.strip_prefix('_')).map(|r| !r.is_empty() && r.bytes().all(|c| c.is_ascii_digit())).unwrap_or(false));
            let (class, why) = match renamed {
                Some(f) => ("renamed-function".to_string(), format!("the function was emitted as `{}`", f.name)),
                None => (format!("{}-no-such-function", stage_class), "no function of that name is defined".to_string()),
            };
            out.push(Finding { field: "entry-point", class, detail: format!("stage {:?} reports entry point `{}` but {} in the emitted source", st.stage, st.entry_point, why) });
            continue;
        }
        let f = cands[0];
        if !msl {
            // the function reported for a stage is the one the pipeline block binds to that stage (possibly renamed `f_<n>`)
            let prop = match st.stage {
                rssl::ShaderStage::Compute => "ComputeShader",
                rssl::ShaderStage::Vertex => "VertexShader",
                rssl::ShaderStage::Pixel => "PixelShader",
                rssl::ShaderStage::Task => "TaskShader",
                rssl::ShaderStage::Mesh => "MeshShader",
            };
            let bound = pipeline.and_then(|n| info.stage_functions.get(n)).and_then(|v| v.iter().find(|(p, _)| p == prop)).map(|(_, f)| f.as_str());
            if let Some(bound) = bound {
                let same = st.entry_point == bound || st.entry_point.strip_prefix(bound).and_then(|r| r.strip_prefix('_')).map(|r| !r.is_empty() && r.bytes().all(|c| c.is_ascii_digit())).unwrap_or(false);
                if !same {
                    out.push(Finding { field: "entry-point", class: format!("{}-other-function", stage_class), detail: format!("stage {:?} reports entry point `{}` but the pipeline binds {} = {}", st.stage, st.entry_point, prop, bound) });
                }
            }
        }
        if msl {
            let want = match st.stage {
                rssl::ShaderStage::Compute => "kernel",
                rssl::ShaderStage::Vertex => "vertex",
                rssl::ShaderStage::Pixel => "fragment",
                rssl::ShaderStage::Task => "object",
                rssl::ShaderStage::Mesh => "mesh",
            };
            if f.stage_attr.as_deref() != Some(want) {
                out.push(Finding { field: "entry-point", class: format!("{}-wrong-kind", stage_class), detail: format!("stage {:?} reports `{}` but that function is declared [[{}]]", st.stage, st.entry_point, f.stage_attr.clone().unwrap_or("no stage attribute".into())) });
            }
            // Metal states only the total
            match (st.thread_group_size, f.max_threads) {
                (Some((x, y, z)), Some(Some(n))) => {
                    acc.count("thread_group_sizes_compared");
                    if x as u64 * y as u64 * z as u64 != n {
                        out.push(Finding { field: "thread-group-size", class: stage_class.clone(), detail: format!("stage reports {:?} but the source says max_total_threads_per_threadgroup({})", (x, y, z), n) });
                    }
                }
                (_, Some(None)) => acc.count("thread_group_size_not_evaluable(skipped)"),
                (None, Some(Some(n))) => out.push(Finding { field: "thread-group-size", class: stage_class.clone(), detail: format!("stage reports no thread group size but the source says max_total_threads_per_threadgroup({})", n) }),
                (Some(_), None) => acc.count("msl_thread_group_size_not_emitted"),
                (None, None) => {}
            }
        } else {
            match (st.thread_group_size, f.numthreads) {
                (Some((x, y, z)), Some(Some(n))) => {
                    acc.count("thread_group_sizes_compared");
                    if (x as u64, y as u64, z as u64) != n {
                        out.push(Finding { field: "thread-group-size", class: stage_class.clone(), detail: format!("stage reports {:?} but the source says [numthreads{:?}] on `{}`", (x, y, z), n, f.name) });
                    }
                }
                (_, Some(None)) => acc.count("thread_group_size_not_evaluable(skipped)"),
                (Some(t), None) => out.push(Finding { field: "thread-group-size", class: stage_class.clone(), detail: format!("stage reports {:?} but `{}` has no [numthreads] in the source", t, f.name) }),
                (None, Some(Some(n))) => out.push(Finding { field: "thread-group-size", class: stage_class.clone(), detail: format!("stage reports no thread group size but `{}` has [numthreads{:?}]", f.name, n) }),
                (None, None) => {}
            }
        }
    }
}

fn compile_with_tree(src: &str, cfg: Cfg, mode: &Mode) -> Result<(Result<Vec<rssl::CompiledPipeline>, String>, Option<ast::Module>), PanicInfo> {
    guard(|| {
        let _ = rssl::msl::verif::take_last_ast();
        let r = compile1(src, cfg, mode.clone());
        let t = if cfg == Cfg::Msl { rssl::msl::verif::take_last_ast() } else { None };
        (r, t)
    })
}

/// what the emitted source of one pipeline says; Err = it cannot be re-read (reported as a machinery class)
fn read_emitted(p: &rssl::CompiledPipeline, cfg: Cfg, tree: Option<&ast::Module>) -> Result<Emitted, String> {
    let text = String::from_utf8_lossy(&p.data).to_string();
    if cfg == Cfg::Msl {
        let Some(tree) = tree else { return Err("msl-tree-missing: hook returned no tree".into()) };
        match rssl_formatter::format(tree, rssl_formatter::Target::Msl) {
            Ok(t) if t == text => Ok(read_msl(tree)),
            Ok(_) => Err("msl-tree-not-tied: formatting the hook tree does not give the emitted bytes".into()),
            Err(e) => Err(format!("msl-tree-not-tied: {:?}", e)),
        }
    } else {
        match parse_src(&text) {
            Ok(m) => Ok(read_hlsl(&m)),
            Err(e) => Err(format!("emitted-hlsl-unparsable: {}", one_line(&e, 200))),
        }
    }
}

/// Run one (source, config, mode) case through the oracle. Returns false when the program is rejected.
pub fn check_case(src: &str, cfg: Cfg, mode: &Mode, info: &SrcInfo, trees: &mut BTreeMap<String, ast::Module>, acc: &mut Acc) -> bool {
    acc.evals += 1;
    let (res, tree) = match compile_with_tree(src, cfg, mode) {
        Ok(x) => x,
        Err(pi) => {
            acc.count("compile_panics(reported under C08)");
            acc.count(&format!("compile_{} [{}]", pi.signature(), cfg_short(cfg)));
            return false;
        }
    };
    let ps = match res {
        Ok(ps) => ps,
        Err(_) => {
            acc.count("rejected_by_exporter_or_mode");
            return false;
        }
    };
    acc.count("accepted");
    let names: Vec<Option<String>> = match mode {
        Mode::NoPipeline => vec![None],
        Mode::Named(n) => vec![Some(n.clone())],
        Mode::All => info.pipelines.iter().map(|n| Some(n.clone())).collect(),
    };
    let mut findings: Vec<Finding> = Vec::new();
    let mut machinery: Vec<String> = Vec::new();
    if names.len() != ps.len() {
        machinery.push(format!("pipeline-count: {} pipelines returned, {} expected", ps.len(), names.len()));
    }
    for (i, p) in ps.iter().enumerate().take(names.len()) {
        // Metal with several pipelines in one call: the hook keeps only the last tree; get the tree of pipeline i from a
        // named compile and tie it to the bytes returned by THIS call
        let own_tree;
        let pname = names[i].clone().unwrap_or_default();
        let tree_i = if cfg == Cfg::Msl && ps.len() > 1 {
            if let Some(t) = trees.get(&pname) {
                Some(t)
            } else {
                acc.count("msl_tree_recompiles");
                own_tree = match compile_with_tree(src, cfg, &Mode::Named(pname.clone())) {
                    Ok((_, t)) => t,
                    Err(_) => None,
                };
                own_tree.as_ref()
            }
        } else {
            tree.as_ref()
        };
        match read_emitted(p, cfg, tree_i) {
            Ok(em) => {
                if cfg == Cfg::Msl && ps.len() == 1 && !pname.is_empty() {
                    if let Some(t) = tree.as_ref() {
                        trees.insert(pname.clone(), t.clone());
                    }
                }
                check_pipeline(p, &em, cfg, names[i].as_deref(), info, &mut findings, acc);
                if !p.metadata.bind_groups.iter().all(|g| g.bindings.is_empty()) || !p.stages.is_empty() {
                    let stages: Vec<String> = p.stages.iter().map(|s| format!("{:?} {} {:?}", s.stage, s.entry_point, s.thread_group_size)).collect();
                    acc.outcome(&(cfg, format!("{:?}", p.metadata), stages));
                }
            }
            Err(e) => machinery.push(e),
        }
    }
    for m in machinery {
        let class = m.split(':').next().unwrap_or("").to_string();
        acc.violation(Violation { signature: format!("machinery|{}|{}", class, cfg_short(cfg)), detail: format!("[{} {}] {}", cfg.name(), mode_text(mode), m), replay: replay_text(src, cfg, mode) });
    }
    for f in findings {
        if f.field == "entry-point" || f.field == "name" {
            // which names are affected (evidence only)
            let subject = f.detail.split('`').nth(1).unwrap_or("");
            acc.count(&format!("finding {}|{}|{} on `{}`", f.field, f.class, cfg_short(cfg), subject));
        }
        acc.violation(Violation {
            signature: format!("reflect|{}|{}|{}", f.field, f.class, cfg_short(cfg)),
            detail: format!("[{} {}] {}", cfg.name(), mode_text(mode), f.detail),
            replay: replay_text(src, cfg, mode),
        });
    }
    true
}
// ---------------------------------------------------------------------------------------------
// enumeration

#[derive(Clone, Copy, Debug)]
pub enum Variant {
    /// every resource is used from every pipeline where possible (direct / helper alternating): all 4 configs, all modes
    Mix,
    /// the resources in `mask` are used at exactly one site, the others nowhere: Metal only (the only target whose
    /// is_used varies), pipeline modes only
    Single { mask: u8, site: u8 },
}

fn sc(shape: Shape, d1: u8, d2: u8) -> Scenario {
    Scenario { shape, d1, d2 }
}

/// (scenario, variant) combinations for sequences of length n
fn combos(scs: &[Scenario], masks: &[u8], styles: u8) -> Vec<(Scenario, Variant)> {
    let mut v = Vec::new();
    for s in scs {
        v.push((*s, Variant::Mix));
        if s.shape == Shape::None {
            continue;
        }
        v.push((*s, Variant::Single { mask: 0, site: S_ORPHAN }));
        // 0 = every site, 1 = first entry direct + helper of the last entry, 2 = helper of the last entry
        let styles = match (styles, s.shape) {
            (0, _) => s.styles(),
            (1, Shape::C | Shape::CC) => vec![S_CS, S_HCS],
            (1, Shape::G) => vec![S_VS, S_HPS],
            (1, _) => vec![S_CS, S_HPS],
            (_, Shape::C | Shape::CC) => vec![S_HCS],
            _ => vec![S_HPS],
        };
        for st in styles {
            for m in masks {
                v.push((*s, Variant::Single { mask: *m, site: st }));
            }
        }
    }
    v
}

/// one unit of work: a declaration sequence under one scenario and one use-site variant, on every config / mode it applies to
fn run_unit(decls: &[(Decl, String)], s: &Scenario, variant: Variant, names: &EntryNames, all_modes: bool, skip_nopipe: bool, acc: &mut Acc) {
    let sites: Vec<u8> = match variant {
        Variant::Mix => {
            let mix = s.mix();
            (0..decls.len()).map(|i| mix[i % mix.len()]).collect()
        }
        Variant::Single { mask, site } => (0..decls.len()).map(|i| if mask >> i & 1 == 1 { site } else { 0 }).collect(),
    };
    // a non-resource global is never referenced: the Metal exporter panics on that (pipeline.rs, global_to_set_index; C08's
    // subject) and the panic would hide the bindings of the other declarations of the sequence
    let sites: Vec<u8> = sites.iter().zip(decls).map(|(s, (d, _))| if d.kind == K_PLAIN { 0 } else { *s }).collect();
    let src = build_program(decls, s, &sites, names);
    let info = match guard(|| analyse_source(&src)) {
        Ok(Ok(i)) => i,
        Ok(Err(_)) => {
            acc.evals += 1;
            acc.count("rejected_by_front_end");
            return;
        }
        Err(pi) => {
            acc.evals += 1;
            acc.count("front_end_panics(reported under C08)");
            acc.count(&format!("front_end_{}", pi.signature()));
            return;
        }
    };
    // the generator knows which function touches which declaration: the IR walk must agree (guards the oracle's own model)
    for p in s.pipelines() {
        let expect: BTreeSet<String> = decls.iter().enumerate().filter(|(i, _)| sites[*i] & s.sites_of(p) != 0).map(|(_, (_, n))| n.clone()).collect();
        let got: BTreeSet<String> = info.reach.get(p).map(|r| r.iter().filter(|n| decls.iter().any(|(_, d)| d == *n)).cloned().collect()).unwrap_or_default();
        if expect != got {
            acc.violation(Violation {
                signature: "machinery|reachability-model".into(),
                detail: format!("pipeline {}: generator expects {:?} reachable, IR walk finds {:?}", p, expect, got),
                replay: replay_text(&src, Cfg::Msl, &Mode::Named(p.to_string())),
            });
        }
    }
    let cfgs: &[Cfg] = match variant {
        Variant::Mix => &ALL_CFGS,
        Variant::Single { .. } => &[Cfg::Msl],
    };
    for cfg in cfgs {
        // named modes first: their Metal trees serve the all-pipelines call (the hook keeps one tree per thread)
        let mut trees = BTreeMap::new();
        let mut modes = s.modes(all_modes);
        modes.sort_by_key(|m| !matches!(m, Mode::Named(_)));
        for mode in modes {
            if (skip_nopipe || matches!(variant, Variant::Single { .. })) && mode == Mode::NoPipeline {
                continue;
            }
            check_case(&src, *cfg, &mode, &info, &mut trees, acc);
        }
    }
}

fn named(decls: &[Decl]) -> Vec<(Decl, String)> {
    decls.iter().enumerate().map(|(i, d)| (*d, format!("r{}", i))).collect()
}

fn seq_json(decls: &[(Decl, String)], s: &Scenario, v: &Variant) -> Json {
    obj(vec![
        ("declarations", Json::Arr(decls.iter().map(|(d, n)| decl_text(d, n).into()).collect())),
        ("scenario", format!("{:?} DefaultBindGroup {}/{}", s.shape, s.d1, s.d2).into()),
        ("use_sites", format!("{:?}", v).into()),
    ])
}

fn run_space(ctx: &Ctx, rep: &mut Report, name: &str, seqs: &[Vec<Decl>], cmb: &[(Scenario, Variant)], all_modes: bool, skip_nopipe: bool) {
    let n = cmb.len() as u64;
    let total = seqs.len() as u64 * n;
    let r = run_par(ctx, total, 64, |idx, acc| {
        let decls = named(&seqs[(idx / n) as usize]);
        let (s, v) = &cmb[(idx % n) as usize];
        run_unit(&decls, s, *v, &DEFAULT_NAMES, all_modes, skip_nopipe, acc);
        if idx % 50021 == 17 {
            acc.sample(seq_json(&decls, s, v));
        }
    });
    rep.cov(&format!("sequences_{}", name), Json::Int(seqs.len() as i64));
    rep.cov(&format!("scenario_variants_{}", name), Json::Int(cmb.len() as i64));
    rep.absorb(name, r);
}

/// reserved / generated names the front end may accept as function or resource names
const ENTRY_NAMES: [&str; 20] = [
    "float16_t", "min16float", "sample", "constant", "kernel", "texture", "vertex", "fragment", "main", "half", "abs", "min", "metal", "helper", "ComputeShaderEntry", "PixelShaderEntry", "device", "out", "InterlockedAdd", "CSMAIN_0",
];
const RESOURCE_NAMES: [&str; 22] = [
    "kernel", "vertex", "fragment", "metal", "helper", "main", "ArgumentBuffer0", "ComputeShaderEntry", "abs", "min", "float16_t", "out", "in", "sample", "texture", "constant", "device", "set0", "g_inlineDescriptor0", "InlineDescriptor0", "Texture2D", "r0_0",
];
const NUMTHREADS: [&str; 10] = ["1, 1, 1", "8, 8, 1", "64, 1, 1", "2, 3, 4", "1024, 1, 1", "4u, 4u, 1u", "N, 1, 1", "N * 2, N, 1", "N + 1, 2, M", "(uint)N, 1, 1"];

/// explicit cases: (label, declarations, scenario, entry names)
fn special_cases() -> Vec<(String, Vec<(Decl, String)>, Scenario, [String; 4])> {
    let mut v = Vec::new();
    let base = |n: &[&str]| -> Vec<(Decl, String)> { n.iter().enumerate().map(|(i, n)| (Decl::plain([8u8, 1, 17][i % 3]), n.to_string())).collect() };
    let dn = |cs: &str, vs: &str, ps: &str, nt: &str| [cs.to_string(), vs.to_string(), ps.to_string(), nt.to_string()];
    for e in ENTRY_NAMES {
        v.push((format!("entry-name cs={}", e), base(&["r0", "r1"]), sc(Shape::C, 0, 0), dn(e, "VSMAIN", "PSMAIN", "8, 4, 2")));
        v.push((format!("entry-name ps={}", e), base(&["r0", "r1"]), sc(Shape::G, 1, 0), dn("CSMAIN", "VSMAIN", e, "8, 4, 2")));
        v.push((format!("entry-name vs={}", e), base(&["r0", "r1"]), sc(Shape::G, 0, 0), dn("CSMAIN", e, "PSMAIN", "8, 4, 2")));
        v.push((format!("entry-name cs={} +PG", e), base(&["r0", "r1", "r2"]), sc(Shape::CG, 0, 2), dn(e, "VSMAIN", "PSMAIN", "8, 4, 2")));
        v.push((format!("entry-name shared cs={}", e), base(&["r0"]), sc(Shape::CC, 1, 2), dn(e, "VSMAIN", "PSMAIN", "8, 4, 2")));
    }
    for r in RESOURCE_NAMES {
        for k in [8u8, 0, 2, K_CBUFFER, 19, K_STATIC_SAMPLER, 17] {
            for (arr, grp) in [(0u8, 0u8), (2, 5)] {
                if k == K_CBUFFER && arr != 0 {
                    continue;
                }
                let d = Decl { kind: k, arr, grp, bindless: false };
                v.push((format!("resource-name {} kind {}", r, k), vec![(d, r.to_string()), (Decl::plain(10), "r1".to_string())], sc(Shape::C, 0, 0), dn("CSMAIN", "VSMAIN", "PSMAIN", "8, 4, 2")));
            }
        }
    }
    for nt in NUMTHREADS {
        for s in [sc(Shape::C, 0, 0), sc(Shape::CG, 1, 0), sc(Shape::CC, 0, 1)] {
            v.push((format!("numthreads {}", nt), base(&["r0", "r1"]), s, dn("CSMAIN", "VSMAIN", "PSMAIN", nt)));
        }
    }
    // unbounded arrays (presence, group, slot, type, count == None)
    for k in (0..20u8).chain([K_STATIC_SAMPLER, K_PLAIN]) {
        for grp in [0u8, 2, 5, 8] {
            for bindless in [false, true] {
                let d = Decl { kind: k, arr: 4, grp, bindless };
                v.push((format!("unbounded kind {}", k), vec![(Decl::plain(8), "r0".to_string()), (d, "r1".to_string()), (Decl::plain(10), "r2".to_string())], sc(Shape::C, 1, 0), dn("CSMAIN", "VSMAIN", "PSMAIN", "8, 4, 2")));
            }
        }
    }
    v
}

// ---------------------------------------------------------------------------------------------
// syntactic positions of the use site, attribute lists of entry points

/// one complete program with what the generator knows about it
pub struct SrcCase {
    pub label: String,
    pub src: String,
    /// (pipeline, names that must be reachable, names that must not be) — checked against the IR walk
    pub expect: Option<(String, Vec<String>, Vec<String>)>,
    pub cfgs: Vec<Cfg>,
}

/// (label, extra definitions placed after the declarations, statement) for a use `x` of a resource; `e` = a uint
/// expression whose evaluation touches the resource
fn positions(x: &str) -> Vec<(String, String, String)> {
    let e = format!("({}, 0u)", x);
    let mut v: Vec<(String, String, String)> = Vec::new();
    let mut add = |l: &str, defs: String, st: String| v.push((l.to_string(), defs, st));
    add("expression-statement", String::new(), format!("{};", x));
    add("var-initialiser", String::new(), format!("uint v0 = {};", e));
    add("aggregate-initialiser", String::new(), format!("uint a0[2] = {{ 0u, {} }};", e));
    add("assignment-rhs", String::new(), format!("uint v1; v1 = {};", e));
    add("compound-assignment-rhs", String::new(), format!("uint v2 = 0u; v2 += {};", e));
    add("binary-operand", String::new(), format!("uint v3 = 1u + {};", e));
    add("unary-operand", String::new(), format!("uint v4 = ~{};", e));
    add("sequence-first", String::new(), format!("({}, 1u);", e));
    add("if-condition", String::new(), format!("if ({}) {{ }}", e));
    add("if-body", String::new(), format!("if (true) {{ {}; }}", x));
    add("ifelse-condition", String::new(), format!("if ({}) {{ }} else {{ }}", e));
    add("ifelse-then", String::new(), format!("if (true) {{ {}; }} else {{ }}", x));
    add("ifelse-else", String::new(), format!("if (true) {{ }} else {{ {}; }}", x));
    add("while-condition", String::new(), format!("while ({}) {{ break; }}", e));
    add("while-body", String::new(), format!("while (true) {{ {}; break; }}", x));
    add("do-body", String::new(), format!("do {{ {}; }} while (false);", x));
    add("do-condition", String::new(), format!("do {{ }} while ({});", e));
    // for: init {absent, expression, definition} x condition {absent, present} x increment {absent, present}, the resource
    // in each present clause or in the body
    for init in 0..3 {
        for cond in 0..2 {
            for inc in 0..2 {
                for place in 0..4 {
                    // place: 0 init, 1 condition, 2 increment, 3 body
                    if (place == 0 && init == 0) || (place == 1 && cond == 0) || (place == 2 && inc == 0) {
                        continue;
                    }
                    let i = match (init, place == 0) {
                        (0, _) => String::new(),
                        (1, true) => e.clone(),
                        (1, false) => "i = 0u".to_string(),
                        (_, true) => format!("uint j = {}", e),
                        (_, false) => "uint j = 0u".to_string(),
                    };
                    let c = match (cond, place == 1) {
                        (0, _) => String::new(),
                        (_, true) => e.clone(),
                        (_, false) => "i < 1u".to_string(),
                    };
                    let a = match (inc, place == 2) {
                        (0, _) => String::new(),
                        (_, true) => e.clone(),
                        (_, false) => "i++".to_string(),
                    };
                    let body = if place == 3 { format!("{}; break;", x) } else { "break;".to_string() };
                    add(
                        &format!("for-{}[init={} cond={} inc={}]", ["init", "condition", "increment", "body"][place], ["absent", "expression", "definition"][init], cond, inc),
                        String::new(),
                        format!("for ({}; {}; {}) {{ {} }}", i, c, a, body),
                    );
                }
            }
        }
    }
    add("switch-selector", String::new(), format!("switch ({}) {{ case 0: break; default: break; }}", e));
    add("case-body", String::new(), format!("switch (0u) {{ case 0: {}; break; default: break; }}", x));
    add("default-body", String::new(), format!("switch (0u) {{ case 0: break; default: {}; break; }}", x));
    add("return-value", format!("uint h_ret() {{ return {}; }}\n", e), "h_ret();".to_string());
    add("call-argument", String::new(), format!("u_id({});", e));
    add("nested-call-argument", String::new(), format!("u_id(u_id({}));", e));
    add("array-index", String::new(), format!("arr[{}];", e));
    add("array-index-lvalue", String::new(), format!("arr[{}] = 1u;", e));
    add("ternary-condition", String::new(), format!("uint t0 = {} ? 1u : 2u;", e));
    add("ternary-true-arm", String::new(), format!("uint t1 = true ? {} : 2u;", e));
    add("ternary-false-arm", String::new(), format!("uint t2 = true ? 2u : {};", e));
    add("nested-block", String::new(), format!("{{ {{ {}; }} }}", x));
    add("nested-loop-if", String::new(), format!("for (uint k = 0u; k < 1u; k++) {{ if (k) {{ {}; }} }}", x));
    add("cast-operand", String::new(), format!("(float){};", e));
    add("constructor-argument", String::new(), format!("uint2({}, 0u);", e));
    add("swizzle-object", String::new(), format!("uint2({}, 0u).x;", e));
    add("struct-member-assignment", String::new(), format!("S sv; sv.b = {};", e));
    add("default-argument", format!("uint u_def(uint x = {}) {{ return x; }}\n", e), "u_def();".to_string());
    add("static-global-initialiser", format!("static uint s_v = {};\n", e), "s_v;".to_string());
    v
}

/// the program of a use-site case: statement `st` in the entry point (site 0), in a helper it calls (1) or in a function
/// nothing calls (2); `defs` are extra definitions placed after the declaration of `r0`
fn position_program(d: &Decl, defs: &str, st: &str, site: usize) -> String {
    let pick = |s: usize| if s == site { st } else { "" };
    let locals = "uint i = 0u; uint arr[2] = { 0u, 0u };";
    format!(
        "struct S {{ float4 a; uint b; }};\n{}\nRWTexture2D<float4> rc;\nuint u_id(uint x) {{ return x; }}\n{}void h_pos() {{ {} {} }}\nvoid h_orphan() {{ {} {} }}\n[numthreads(8, 4, 2)]\nvoid CSMAIN() {{ rc; {} {} h_pos(); }}\nPipeline PC {{ ComputeShader = CSMAIN; DefaultBindGroup = 1; }}\n",
        decl_text(d, "r0"),
        defs,
        locals,
        pick(1),
        locals,
        pick(2),
        locals,
        pick(0)
    )
}

pub fn position_cases() -> Vec<SrcCase> {
    let mut out = Vec::new();
    for k in CLASS_REPS {
        if k == K_PLAIN {
            continue; // never referenced (see run_unit)
        }
        let d = Decl::plain(k);
        let x = if k == K_CBUFFER { "r0_m" } else { "r0" };
        for (label, defs, st) in positions(x) {
            // 0 = in the entry point, 1 = in a helper it calls, 2 = in a function nothing calls
            for site in 0..3 {
                let src = position_program(&d, &defs, &st, site);
                let (must, must_not) = if site == 2 { (vec!["rc".to_string()], vec!["r0".to_string()]) } else { (vec!["rc".to_string(), "r0".to_string()], vec![]) };
                out.push(SrcCase {
                    label: format!("position {} of kind {} in {}", label, k, ["entry", "helper", "orphan"][site]),
                    src,
                    expect: Some(("PC".to_string(), must, must_not)),
                    // an unreachable use only matters where is_used may be false
                    cfgs: if site == 2 { vec![Cfg::Msl] } else { ALL_CFGS.to_vec() },
                });
            }
        }
    }
    out
}

// ---------------------------------------------------------------------------------------------
// brace initialisers: every aggregate type up to a nesting depth x every leaf of its initialiser tree

/// the types a brace initialiser can initialise, built from `uint` by: array of 1, array of 2, struct { T; uint; },
/// struct { uint; T; }; `uint2` (initialised by an inner brace pair) counts as one level of nesting
#[derive(Clone, Debug, PartialEq, Eq)]
pub enum ITy {
    U,
    V2,
    Arr(Box<ITy>, u8),
    StFirst(Box<ITy>),
    StLast(Box<ITy>),
}

/// every type of exactly nesting depth `d` (5 at depth 1, 20 at depth 2, 80 at depth 3), simplest first
pub fn ity_level(d: usize) -> Vec<ITy> {
    if d == 0 {
        return vec![ITy::U];
    }
    let mut v = Vec::new();
    for t in ity_level(d - 1) {
        v.push(ITy::Arr(Box::new(t.clone()), 1));
        v.push(ITy::Arr(Box::new(t.clone()), 2));
        v.push(ITy::StFirst(Box::new(t.clone())));
        v.push(ITy::StLast(Box::new(t)));
    }
    if d == 1 {
        v.push(ITy::V2);
    }
    v
}

fn ity_text(t: &ITy) -> String {
    match t {
        ITy::U => "uint".into(),
        ITy::V2 => "uint2".into(),
        ITy::Arr(t, n) => format!("{}[{}]", ity_text(t), n),
        ITy::StFirst(t) => format!("{{{}; uint}}", ity_text(t)),
        ITy::StLast(t) => format!("{{uint; {}}}", ity_text(t)),
    }
}

/// number of scalar leaves of the initialiser tree
fn ity_leaves(t: &ITy) -> usize {
    match t {
        ITy::U => 1,
        ITy::V2 => 2,
        ITy::Arr(t, n) => ity_leaves(t) * *n as usize,
        ITy::StFirst(t) | ITy::StLast(t) => ity_leaves(t) + 1,
    }
}

/// (base type name, array suffix of the declarator); struct definitions are appended to `defs` innermost first
fn ity_decl(t: &ITy, defs: &mut String, counter: &mut u32) -> (String, String) {
    match t {
        ITy::U => ("uint".into(), String::new()),
        ITy::V2 => ("uint2".into(), String::new()),
        ITy::Arr(t, n) => {
            let (b, d) = ity_decl(t, defs, counter);
            (b, format!("[{}]{}", n, d))
        }
        ITy::StFirst(inner) | ITy::StLast(inner) => {
            let (b, d) = ity_decl(inner, defs, counter);
            let name = format!("IT{}", *counter);
            *counter += 1;
            if matches!(t, ITy::StFirst(_)) {
                defs.push_str(&format!("struct {} {{ {} m0{}; uint m1; }};\n", name, b, d));
            } else {
                defs.push_str(&format!("struct {} {{ uint m0; {} m1{}; }};\n", name, b, d));
            }
            (name, String::new())
        }
    }
}

/// the fully braced initialiser of `t` with `e` at leaf number `target` (depth first, left to right) and 0u elsewhere
fn ity_init(t: &ITy, next: &mut usize, target: usize, e: &str) -> String {
    let leaf = |next: &mut usize| -> String {
        let s = if *next == target { e.to_string() } else { "0u".to_string() };
        *next += 1;
        s
    };
    match t {
        ITy::U => leaf(next),
        ITy::V2 => format!("{{ {}, {} }}", leaf(next), leaf(next)),
        ITy::Arr(inner, n) => {
            let parts: Vec<String> = (0..*n).map(|_| ity_init(inner, next, target, e)).collect();
            format!("{{ {} }}", parts.join(", "))
        }
        ITy::StFirst(inner) => {
            let a = ity_init(inner, next, target, e);
            let b = leaf(next);
            format!("{{ {}, {} }}", a, b)
        }
        ITy::StLast(inner) => {
            let a = leaf(next);
            let b = ity_init(inner, next, target, e);
            format!("{{ {}, {} }}", a, b)
        }
    }
}

const INIT_HOSTS: [&str; 3] = ["local-definition", "for-init-definition", "second-declarator"];

/// (label, definitions, statement, nesting depth, host) for the use `x` at every leaf of the brace initialiser of every
/// type of nesting depth 1..=max_depth, hosted by a local definition / a for-init definition / the second declarator of a
/// local definition
fn initialiser_positions(x: &str, max_depth: usize) -> Vec<(String, String, String, usize, usize)> {
    let e = format!("({}, 0u)", x);
    let mut v = Vec::new();
    for depth in 1..=max_depth {
        for t in ity_level(depth) {
            let mut defs = String::new();
            let (base, dims) = ity_decl(&t, &mut defs, &mut 0);
            for leaf in 0..ity_leaves(&t) {
                let init = ity_init(&t, &mut 0, leaf, &e);
                for (h, host) in INIT_HOSTS.iter().enumerate() {
                    let st = match h {
                        0 => format!("{} n0{} = {};", base, dims, init),
                        1 => format!("for ({} n1{} = {}; false; ) {{ }}", base, dims, init),
                        _ => format!("{} z2, n2{} = {};", base, dims, init),
                    };
                    v.push((format!("initialiser leaf {} of {} ({})", leaf, ity_text(&t), host), defs.clone(), st, depth, h));
                }
            }
        }
    }
    v
}

/// quick: depth <= 2 for every allocator class (Metal everywhere, the HLSL targets for the plain local definition in the
/// entry point), depth 3 for a texture and a cbuffer in a plain local definition on Metal; thorough: everything
pub fn initialiser_cases(quick: bool) -> Vec<SrcCase> {
    let mut out = Vec::new();
    for k in CLASS_REPS {
        if k == K_PLAIN {
            continue; // never referenced (see run_unit)
        }
        let d = Decl::plain(k);
        let x = if k == K_CBUFFER { "r0_m" } else { "r0" };
        for (label, defs, st, depth, host) in initialiser_positions(x, 3) {
            if quick && depth > 2 && !(host == 0 && (k == 8 || k == K_CBUFFER)) {
                continue;
            }
            for site in 0..3 {
                let src = position_program(&d, &defs, &st, site);
                let (must, must_not) = if site == 2 { (vec!["rc".to_string()], vec!["r0".to_string()]) } else { (vec!["rc".to_string(), "r0".to_string()], vec![]) };
                let all_cfgs = if quick { depth <= 2 && host == 0 && site == 0 } else { site != 2 };
                out.push(SrcCase {
                    label: format!("{} of kind {} in {}", label, k, ["entry", "helper", "orphan"][site]),
                    src,
                    expect: Some(("PC".to_string(), must, must_not)),
                    cfgs: if all_cfgs { ALL_CFGS.to_vec() } else { vec![Cfg::Msl] },
                });
            }
        }
    }
    out
}

// ---------------------------------------------------------------------------------------------
// call graphs: every acyclic call graph over the entry point and three helpers x the function that holds the use

/// edges (bit i of `g`): E->f1, E->f2, E->f3, f1->f2, f1->f3, f2->f3; `site` 0 = the entry point, 1..3 = f1..f3
pub fn call_graph_cases(quick: bool) -> Vec<SrcCase> {
    let mut out = Vec::new();
    let kinds: Vec<u8> = if quick { vec![8, K_CBUFFER, 2] } else { CLASS_REPS.iter().copied().filter(|k| *k != K_PLAIN).collect() };
    for k in kinds {
        let d = Decl::plain(k);
        let x = if k == K_CBUFFER { "r0_m;" } else { "r0;" };
        for g in 0..64u32 {
            let edge = |b: u32| g >> b & 1 == 1;
            // reachable[n]: function n (0 = entry) is called, directly or not, from the entry point
            let mut reachable = [true, edge(0), edge(1), edge(2)];
            if reachable[1] && edge(3) {
                reachable[2] = true;
            }
            if (reachable[1] && edge(4)) || (reachable[2] && edge(5)) {
                reachable[3] = true;
            }
            for site in 0..4usize {
                let u = |n: usize| if n == site { x } else { "" };
                let call = |b: u32, f: &str| if edge(b) { format!(" {}();", f) } else { String::new() };
                let src = format!(
                    "struct S {{ float4 a; uint b; }};\n{}\nRWTexture2D<float4> rc;\nvoid f3() {{ {} }}\nvoid f2() {{ {}{} }}\nvoid f1() {{ {}{}{} }}\n[numthreads(8, 4, 2)]\nvoid CSMAIN() {{ rc; {}{}{}{} }}\nPipeline PC {{ ComputeShader = CSMAIN; DefaultBindGroup = 1; }}\n",
                    decl_text(&d, "r0"),
                    u(3),
                    u(2),
                    call(5, "f3"),
                    u(1),
                    call(3, "f2"),
                    call(4, "f3"),
                    u(0),
                    call(0, "f1"),
                    call(1, "f2"),
                    call(2, "f3")
                );
                let r = reachable[site];
                let (must, must_not) = if r { (vec!["rc".to_string(), "r0".to_string()], vec![]) } else { (vec!["rc".to_string()], vec!["r0".to_string()]) };
                out.push(SrcCase {
                    label: format!("call graph {:06b} (E>f1 E>f2 E>f3 f1>f2 f1>f3 f2>f3, lowest bit first), use of kind {} in {}", g, k, ["entry", "f1", "f2", "f3"][site]),
                    src,
                    expect: Some(("PC".to_string(), must, must_not)),
                    cfgs: if quick || !r { vec![Cfg::Msl] } else { ALL_CFGS.to_vec() },
                });
            }
        }
    }
    out
}

/// reachable[n]: function n (0 = the entry point, 1..3 = f1..f3) is called, directly or not, from the entry point in graph `g`
fn graph_reachable(g: u32) -> [bool; 4] {
    let edge = |b: u32| g >> b & 1 == 1;
    let mut reachable = [true, edge(0), edge(1), edge(2)];
    if reachable[1] && edge(3) {
        reachable[2] = true;
    }
    if (reachable[1] && edge(4)) || (reachable[2] && edge(5)) {
        reachable[3] = true;
    }
    reachable
}

/// how a helper of the call graph is written (decides when the front end registers the function relative to its callers)
pub const FN_FORMS: [&str; 5] = ["free-defined-before-callers", "free-prototype-first-defined-after-entry", "template-instance", "method-of-own-struct", "function-in-own-namespace"];

/// Call graphs x the form of every helper. Forms 0, 2, 3, 4 are defined callee first (f3, f2, f1) before the entry point;
/// form 1 has its prototype at the top (f1, f2, f3: caller first) and its definition after the entry point (caller first).
/// A template helper is instantiated by the call (`fN<uint>(0u)`), a method helper is called on a local of its struct.
pub fn call_graph_form_cases(kinds: &[u8], forms: u32, cfgs_reachable: &[Cfg]) -> Vec<SrcCase> {
    let mut out = Vec::new();
    for k in kinds {
        let d = Decl::plain(*k);
        let x = if *k == K_CBUFFER { "r0_m;" } else { "r0;" };
        for fa in 0..forms.pow(3) {
            let form = [0, fa % forms, fa / forms % forms, fa / forms / forms];
            if form[1..].iter().all(|f| *f == 0) {
                continue; // the plain call-graph space
            }
            for g in 0..64u32 {
                let edge = |b: u32| g >> b & 1 == 1;
                let reachable = graph_reachable(g);
                for site in 0..4usize {
                    let call = |b: u32, n: usize| -> String {
                        if !edge(b) {
                            return String::new();
                        }
                        match form[n] {
                            2 => format!(" f{}<uint>(0u);", n),
                            3 => format!(" {{ H{} o{}; o{}.f{}(); }}", n, n, n, n),
                            4 => format!(" N{}::f{}();", n, n),
                            _ => format!(" f{}();", n),
                        }
                    };
                    let body = |n: usize| -> String {
                        let u = if n == site { x } else { "" };
                        match n {
                            3 => format!("{} ", u),
                            2 => format!("{}{} ", u, call(5, 3)),
                            1 => format!("{}{}{} ", u, call(3, 2), call(4, 3)),
                            _ => format!("rc; {}{}{}{} ", u, call(0, 1), call(1, 2), call(2, 3)),
                        }
                    };
                    let mut src = format!("struct S {{ float4 a; uint b; }};\n{}\nRWTexture2D<float4> rc;\n", decl_text(&d, "r0"));
                    for n in 1..4 {
                        if form[n] == 1 {
                            src.push_str(&format!("void f{}();\n", n));
                        }
                    }
                    for n in [3usize, 2, 1] {
                        match form[n] {
                            0 => src.push_str(&format!("void f{}() {{ {}}}\n", n, body(n))),
                            2 => src.push_str(&format!("template<typename T> void f{}(T v) {{ {}}}\n", n, body(n))),
                            3 => src.push_str(&format!("struct H{} {{ void f{}() {{ {}}} }};\n", n, n, body(n))),
                            4 => src.push_str(&format!("namespace N{} {{ void f{}() {{ {}}} }}\n", n, n, body(n))),
                            _ => {}
                        }
                    }
                    src.push_str(&format!("[numthreads(8, 4, 2)]\nvoid CSMAIN() {{ {}}}\n", body(0)));
                    for n in 1..4 {
                        if form[n] == 1 {
                            src.push_str(&format!("void f{}() {{ {}}}\n", n, body(n)));
                        }
                    }
                    src.push_str("Pipeline PC { ComputeShader = CSMAIN; DefaultBindGroup = 1; }\n");
                    let r = reachable[site];
                    let (must, must_not) = if r { (vec!["rc".to_string(), "r0".to_string()], vec![]) } else { (vec!["rc".to_string()], vec!["r0".to_string()]) };
                    out.push(SrcCase {
                        label: format!("callforms graph {:06b} helpers f1/f2/f3 written as {}/{}/{}, use of kind {} in {}", g, FN_FORMS[form[1] as usize], FN_FORMS[form[2] as usize], FN_FORMS[form[3] as usize], k, ["entry", "f1", "f2", "f3"][site]),
                        src,
                        expect: Some(("PC".to_string(), must, must_not)),
                        cfgs: if r { cfgs_reachable.to_vec() } else { vec![Cfg::Msl] },
                    });
                }
            }
        }
    }
    out
}

/// Call graphs whose helpers are all methods of ONE struct: every declaration order of the three methods x instance / static
/// (a method may call a method declared later in the struct)
pub fn call_graph_method_cases(kinds: &[u8], cfgs_reachable: &[Cfg]) -> Vec<SrcCase> {
    const ORDERS: [[usize; 3]; 6] = [[3, 2, 1], [3, 1, 2], [2, 3, 1], [2, 1, 3], [1, 3, 2], [1, 2, 3]];
    let mut out = Vec::new();
    for k in kinds {
        let d = Decl::plain(*k);
        let x = if *k == K_CBUFFER { "r0_m;" } else { "r0;" };
        for is_static in [false, true] {
            for order in ORDERS {
                for g in 0..64u32 {
                    let edge = |b: u32| g >> b & 1 == 1;
                    let reachable = graph_reachable(g);
                    for site in 0..4usize {
                        let u = |n: usize| if n == site { x } else { "" };
                        let call = |b: u32, n: usize| if edge(b) { format!(" f{}();", n) } else { String::new() };
                        // (the front end has no `H::f()` call form: a static method is called through an object as well)
                        let ecall = |b: u32, n: usize| if edge(b) { format!(" h.f{}();", n) } else { String::new() };
                        let body = |n: usize| -> String {
                            match n {
                                3 => format!("{} ", u(3)),
                                2 => format!("{}{} ", u(2), call(5, 3)),
                                _ => format!("{}{}{} ", u(1), call(3, 2), call(4, 3)),
                            }
                        };
                        let mut src = format!("struct S {{ float4 a; uint b; }};\n{}\nRWTexture2D<float4> rc;\nstruct H {{\n", decl_text(&d, "r0"));
                        for n in order {
                            src.push_str(&format!("    {}void f{}() {{ {}}}\n", if is_static { "static " } else { "" }, n, body(n)));
                        }
                        src.push_str(&format!("}};\n[numthreads(8, 4, 2)]\nvoid CSMAIN() {{ rc; H h; {}{}{}{} }}\nPipeline PC {{ ComputeShader = CSMAIN; DefaultBindGroup = 1; }}\n", u(0), ecall(0, 1), ecall(1, 2), ecall(2, 3)));
                        let r = reachable[site];
                        let (must, must_not) = if r { (vec!["rc".to_string(), "r0".to_string()], vec![]) } else { (vec!["rc".to_string()], vec!["r0".to_string()]) };
                        out.push(SrcCase {
                            label: format!("callmethods graph {:06b} {}methods of one struct declared f{} f{} f{}, use of kind {} in {}", g, if is_static { "static " } else { "" }, order[0], order[1], order[2], k, ["entry", "f1", "f2", "f3"][site]),
                            src,
                            expect: Some(("PC".to_string(), must, must_not)),
                            cfgs: if r { cfgs_reachable.to_vec() } else { vec![Cfg::Msl] },
                        });
                    }
                }
            }
        }
    }
    out
}

const OTHER_ATTRIBUTES: [&str; 3] =["WaveSize(32)", "outputtopology(\"triangle\")", "maxvertexcount(3)"];

/// attribute lists of length 0..2
fn attribute_lists() -> Vec<Vec<&'static str>> {
    let mut v: Vec<Vec<&'static str>> = vec![vec![]];
    for a in OTHER_ATTRIBUTES {
        v.push(vec![a]);
    }
    for a in OTHER_ATTRIBUTES {
        for b in OTHER_ATTRIBUTES {
            v.push(vec![a, b]);
        }
    }
    v
}

pub fn attribute_cases() -> Vec<SrcCase> {
    let mut out = Vec::new();
    let lists = attribute_lists();
    for spelling in ["numthreads", "NumThreads"] {
        for before in &lists {
            for after in &lists {
                if spelling != "numthreads" && before.len() + after.len() > 2 {
                    continue;
                }
                let attrs = |nt: &str| -> String {
                    let mut s = String::new();
                    for a in before {
                        s.push_str(&format!("[{}]\n", a));
                    }
                    s.push_str(&format!("[{}({})]\n", spelling, nt));
                    for a in after {
                        s.push_str(&format!("[{}]\n", a));
                    }
                    s
                };
                let label = format!("[{}] {} [{}]", before.join("]["), spelling, after.join("]["));
                let mesh_fn = "void MSMAIN(uint3 dtid : SV_DispatchThreadID, out vertices VA o_vertices[64], out indices uint3 o_triangles[64]) {\n    r0;\n    SetMeshOutputCounts(64, 64);\n    VA vertex;\n    vertex.position = float4(0, 0, 0, 1);\n    o_vertices[dtid.x] = vertex;\n    o_triangles[dtid.x] = uint3(0, 1, 2);\n}\n";
                // compute
                out.push(SrcCase {
                    label: format!("compute entry {}", label),
                    src: format!("Texture2D<float4> r0;\nRWTexture2D<float4> r1;\n{}void CSMAIN() {{ r0; r1; }}\nPipeline PC {{ ComputeShader = CSMAIN; }}\n", attrs("8, 4, 2")),
                    expect: None,
                    cfgs: ALL_CFGS.to_vec(),
                });
                // mesh + pixel (the mesh entry needs exactly one topology on Metal: lists without it get one at the end)
                let has_topology = before.iter().chain(after.iter()).any(|a| a.starts_with("outputtopology"));
                out.push(SrcCase {
                    label: format!("mesh entry {}", label),
                    src: format!(
                        "struct VA {{ float4 position : SV_Position; }};\nTexture2D<float4> r0;\nRWTexture2D<float4> r1;\n{}{}{}float4 PSMAIN() : SV_Target0 {{ r1; return float4(1, 1, 1, 1); }}\nPipeline PM {{ MeshShader = MSMAIN; PixelShader = PSMAIN; }}\n",
                        attrs("32, 2, 1"),
                        if has_topology { "" } else { "[outputtopology(\"line\")]\n" },
                        mesh_fn
                    ),
                    expect: None,
                    cfgs: ALL_CFGS.to_vec(),
                });
                // task + mesh (HLSL only: the Metal exporter has no task shaders)
                out.push(SrcCase {
                    label: format!("task entry {}", label),
                    src: format!(
                        "struct Payload {{ uint start; }};\nstruct VA {{ float4 position : SV_Position; }};\ngroupshared Payload lds_data;\nTexture2D<float4> r0;\n{}void TSMAIN(uint3 dtid : SV_DispatchThreadID) {{\n    lds_data.start = dtid.x;\n    DispatchMesh(4u, 1u, 1u, lds_data);\n}}\n[numthreads(64, 1, 1)]\n[outputtopology(\"triangle\")]\nvoid MSMAIN(uint3 dtid : SV_DispatchThreadID, in payload Payload data, out vertices VA o_vertices[64], out indices uint3 o_triangles[64]) {{\n    r0;\n    SetMeshOutputCounts(64, 64);\n    VA vertex;\n    vertex.position = float4(data.start, 0, 0, 1);\n    o_vertices[dtid.x] = vertex;\n    o_triangles[dtid.x] = uint3(0, 1, 2);\n}}\nPipeline PT {{ TaskShader = TSMAIN; MeshShader = MSMAIN; }}\n",
                        attrs("16, 2, 2")
                    ),
                    expect: None,
                    cfgs: vec![Cfg::Dx, Cfg::Vk, Cfg::VkBa],
                });
            }
        }
    }
    out
}

fn run_src_case(c: &SrcCase, acc: &mut Acc) {
    let info = match guard(|| analyse_source(&c.src)) {
        Ok(Ok(i)) => i,
        Ok(Err(_)) => {
            acc.evals += 1;
            acc.count("rejected_by_front_end");
            // which family of written-out cases (non-vacuity evidence: the families are meant to be accepted)
            acc.count(&format!("rejected_by_front_end [{} cases]", c.label.split(' ').next().unwrap_or("")));
            return;
        }
        Err(pi) => {
            acc.evals += 1;
            acc.count("front_end_panics(reported under C08)");
            acc.count(&format!("front_end_{}", pi.signature()));
            return;
        }
    };
    acc.count(&format!("accepted_by_front_end [{} cases]", c.label.split(' ').next().unwrap_or("")));
    if let Some((p, must, must_not)) = &c.expect {
        let r = info.reach.get(p).cloned().unwrap_or_default();
        if must.iter().any(|n| !r.contains(n)) || must_not.iter().any(|n| r.contains(n)) {
            acc.violation(Violation {
                signature: "machinery|reachability-model".into(),
                detail: format!("{}: generator expects {:?} reachable and {:?} not, IR walk finds {:?}", c.label, must, must_not, r),
                replay: replay_text(&c.src, Cfg::Msl, &Mode::All),
            });
        }
    }
    for cfg in &c.cfgs {
        check_case(&c.src, *cfg, &Mode::All, &info, &mut BTreeMap::new(), acc);
    }
}

fn run_src_space(ctx: &Ctx, rep: &mut Report, name: &str, cases: &[SrcCase]) {
    let r = run_par(ctx, cases.len() as u64, 8, |idx, acc| {
        let c = &cases[idx as usize];
        run_src_case(c, acc);
        if idx % 997 == 3 {
            acc.sample(obj(vec![("case", c.label.as_str().into()), ("source", c.src.as_str().into())]));
        }
    });
    rep.absorb(name, r);
}

pub fn run(ctx: &Ctx) -> i32 {
    let mut rep = Report::new("exploration");
    rep.rule = "a case = one rssl::compile call (source x target config x mode) whose emitted source is re-read and compared with the returned metadata; non-trivial = accepted and the pipeline reports at least one binding or stage; distinct = different (config, metadata, stage list)".into();
    let quick = ctx.quick();
    let full = full_alphabet();

    // ---- names, numthreads forms, unbounded arrays (first: small, and it holds the known findings)
    let special = special_cases();
    let r = run_par(ctx, special.len() as u64, 4, |idx, acc| {
        let (_, decls, s, n) = &special[idx as usize];
        let prelude = "static const uint N = 8;\nstatic const uint M = 3;\n";
        let names = EntryNames { cs: &n[0], vs: &n[1], ps: &n[2], numthreads: &n[3], prelude };
        run_unit(decls, s, Variant::Mix, &names, true, false, acc);
        if s.shape != Shape::None {
            run_unit(decls, s, Variant::Single { mask: 1, site: s.styles()[1] }, &names, true, false, acc);
        }
    });
    rep.cov("special_cases", Json::Arr(vec![format!("{} entry-point names x 5 pipeline shapes", ENTRY_NAMES.len()).into(), format!("{} resource names x 7 kinds x 2 forms", RESOURCE_NAMES.len()).into(), format!("{} numthreads forms x 3 shapes", NUMTHREADS.len()).into(), "unbounded arrays of 22 kinds x 4 group forms x bindless".into()]));
    rep.absorb("names_threads_unbounded", r);

    // ---- syntactic position of the use site x allocator class; attribute lists around [numthreads] on compute / mesh / task entries
    let pos = position_cases();
    rep.cov("use_site_positions", Json::Int(positions("r0").len() as i64));
    run_src_space(ctx, &mut rep, "use_site_positions", &pos);
    // ---- brace initialisers: every aggregate type of nesting depth <= 3 x every leaf x host statement x site x allocator class
    let inits = initialiser_cases(quick);
    rep.cov(
        "initialiser_trees",
        Json::Arr(vec![
            format!("types built from uint by array-of-1 / array-of-2 / struct{{T; uint}} / struct{{uint; T}} (uint2 = one level): {} / {} / {} types of depth 1 / 2 / 3", ity_level(1).len(), ity_level(2).len(), ity_level(3).len()).into(),
            format!("leaf positions: {} / {} / {}", ity_level(1).iter().map(ity_leaves).sum::<usize>(), ity_level(2).iter().map(ity_leaves).sum::<usize>(), ity_level(3).iter().map(ity_leaves).sum::<usize>()).into(),
            format!("hosts {:?} x sites entry / helper / orphan", INIT_HOSTS).into(),
            format!("cases this tier: {}", inits.len()).into(),
        ]),
    );
    run_src_space(ctx, &mut rep, "initialiser_trees", &inits);
    // ---- call graphs: all 64 acyclic graphs over the entry point and three helpers x the function holding the use
    let graphs = call_graph_cases(quick);
    rep.cov("call_graphs", Json::Arr(vec!["64 acyclic call graphs over entry, f1, f2, f3 x 4 use sites".into(), format!("cases this tier: {}", graphs.len()).into()]));
    run_src_space(ctx, &mut rep, "call_graphs", &graphs);
    // ---- call graphs x how each helper is written (registration order of callee and caller): free function defined first,
    // prototype first + definition after the entry point, template instance, method / static method of its own struct; and
    // all helpers as methods of one struct in every declaration order
    let form_kinds: Vec<u8> = if quick { vec![8] } else { vec![8, K_CBUFFER, 2] };
    let form_cfgs: Vec<Cfg> = if quick { vec![Cfg::Msl] } else { ALL_CFGS.to_vec() };
    let gforms = call_graph_form_cases(&form_kinds, FN_FORMS.len() as u32, &form_cfgs);
    rep.cov(
        "call_graph_helper_forms",
        Json::Arr(vec![
            format!("64 acyclic call graphs x 4 use sites x every assignment of a form to f1, f2, f3 from {:?} (all-free excluded: it is the call_graphs space) = {} assignments", FN_FORMS, FN_FORMS.len().pow(3) - 1).into(),
            format!("resource kinds this tier: {:?}; cases this tier: {}", form_kinds, gforms.len()).into(),
        ]),
    );
    run_src_space(ctx, &mut rep, "call_graph_helper_forms", &gforms);
    let gmethods = call_graph_method_cases(&form_kinds, &form_cfgs);
    rep.cov(
        "call_graph_methods_of_one_struct",
        Json::Arr(vec!["64 acyclic call graphs x 4 use sites x 6 declaration orders of the methods f1, f2, f3 in the struct x instance / static".into(), format!("cases this tier: {}", gmethods.len()).into()]),
    );
    run_src_space(ctx, &mut rep, "call_graph_methods_of_one_struct", &gmethods);
    let attrs = attribute_cases();
    rep.cov("entry_attribute_lists", Json::Arr(vec![format!("{} lists of 0-2 attributes from {:?} before and after [numthreads] (and spelled [NumThreads] for <= 2 others) x compute / mesh+pixel / task+mesh entries", attribute_lists().len(), OTHER_ATTRIBUTES).into()]));
    run_src_space(ctx, &mut rep, "entry_attribute_lists", &attrs);

    // ---- length 1, full alphabet
    let mut scs1 = vec![sc(Shape::None, 0, 0)];
    if quick {
        scs1.extend([sc(Shape::C, 2, 0), sc(Shape::CG, 0, 1)]);
    } else {
        for d in 0..3 {
            scs1.push(sc(Shape::C, d, 0));
            scs1.push(sc(Shape::G, d, 0));
        }
        for d1 in 0..3 {
            for d2 in 0..3 {
                scs1.push(sc(Shape::CG, d1, d2));
            }
        }
        scs1.extend([sc(Shape::CC, 0, 1), sc(Shape::CC, 2, 2), sc(Shape::CC, 1, 0)]);
    }
    let seqs1: Vec<Vec<Decl>> = full.iter().map(|d| vec![*d]).collect();
    run_space(ctx, &mut rep, "len1_full_alphabet", &seqs1, &combos(&scs1, &[1], 0), true, false);

    // ---- length 2: every pair of kinds x array / group patterns
    let patterns: Vec<((u8, u8), (u8, u8))> = if quick {
        vec![((0, 0), (0, 0)), ((2, 2), (0, 0)), ((0, 5), (3, 0)), ((2, 6), (3, 6))]
    } else {
        let a = [(0u8, 0u8), (2, 2), (3, 5), (1, 9)];
        let mut p = Vec::new();
        for x in a {
            for y in a {
                p.push((x, y));
            }
        }
        p
    };
    let mut seqs2 = Vec::new();
    for (pa, pb) in &patterns {
        for k1 in 0..KINDS {
            for k2 in 0..KINDS {
                if (k1 == K_CBUFFER && pa.0 != 0) || (k2 == K_CBUFFER && pb.0 != 0) {
                    continue;
                }
                seqs2.push(vec![Decl { kind: k1, arr: pa.0, grp: pa.1, bindless: false }, Decl { kind: k2, arr: pb.0, grp: pb.1, bindless: pb.0 == 3 }]);
            }
        }
    }
    let scs2 = if quick { vec![sc(Shape::CG, 1, 0)] } else { vec![sc(Shape::C, 0, 0), sc(Shape::G, 1, 0), sc(Shape::CG, 0, 2)] };
    run_space(ctx, &mut rep, "len2_kind_pairs", &seqs2, &combos(&scs2, if quick { &[1, 2] } else { &[1, 2, 3] }, if quick { 1 } else { 0 }), false, false);

    // ---- length 2: full alphabet in one position, class alphabet in the other
    let ctx_classes: Vec<u8> = if quick { vec![1] } else { CLASS_REPS.to_vec() };
    let mut seqs2b = Vec::new();
    for c in &ctx_classes {
        for d in &full {
            seqs2b.push(vec![Decl::plain(*c), *d]);
            seqs2b.push(vec![*d, Decl { kind: *c, arr: if *c == K_CBUFFER { 0 } else { 2 }, grp: 0, bindless: false }]);
        }
    }
    let cmb2b = if quick { vec![(sc(Shape::C, 1, 0), Variant::Mix)] } else { combos(&[sc(Shape::CG, 2, 0)], &[1, 2], 2) };
    run_space(ctx, &mut rep, "len2_full_x_class", &seqs2b, &cmb2b, false, false);

    // ---- length 3: class alphabet x {plain, [2] in bind group 1}
    let mut elems3: Vec<Decl> = CLASS_REPS.iter().map(|k| Decl::plain(*k)).collect();
    if !quick {
        elems3.extend(CLASS_REPS.iter().map(|k| Decl { kind: *k, arr: if *k == K_CBUFFER { 0 } else { 2 }, grp: 5, bindless: false }));
    }
    let mut seqs3 = Vec::new();
    for a in &elems3 {
        for b in &elems3 {
            for c in &elems3 {
                seqs3.push(vec![*a, *b, *c]);
            }
        }
    }
    run_space(ctx, &mut rep, "len3_classes", &seqs3, &combos(&[sc(Shape::CG, 1, 0)], &[1, 2, 3, 4, 5, 6, 7], if quick { 2 } else { 1 }), false, false);

    // ---- length 4: class alphabet
    let mut seqs4 = Vec::new();
    let pats4: &[[(u8, u8); 4]] = if quick { &[[(0, 0); 4]] } else { &[[(0, 0); 4], [(2, 0), (0, 2), (3, 5), (0, 0)]] };
    for pat in pats4 {
        for a in CLASS_REPS {
            for b in CLASS_REPS {
                for c in CLASS_REPS {
                    for d in CLASS_REPS {
                        let ks = [a, b, c, d];
                        seqs4.push((0..4).map(|i| Decl { kind: ks[i], arr: if ks[i] == K_CBUFFER { 0 } else { pat[i].0 }, grp: pat[i].1, bindless: false }).collect::<Vec<_>>());
                    }
                }
            }
        }
    }
    let cmb4 = if quick { vec![(sc(Shape::C, 0, 0), Variant::Mix)] } else { combos(&[sc(Shape::CG, 0, 1)], &[0b1111, 0b0101], 2) };
    run_space(ctx, &mut rep, "len4_classes", &seqs4, &cmb4, false, quick);

    rep.cov("kinds", Json::Int(KINDS as i64));
    rep.cov("full_alphabet_declarations", Json::Int(full.len() as i64));
    rep.cov("target_configs", Json::Arr(ALL_CFGS.iter().map(|c| c.name().into()).collect()));
    rep.assumptions = vec![
        "an 'externally bound declaration in the source' is one that carries register(...), [[vk::binding]], [[vk::offset]] inside InlineDescriptorN, or [[id(n)]] inside an argument buffer struct (a struct with [[id]] members, whatever its generated name, whose trailing number is the bind group); unannotated globals ($Globals members, Metal static samplers) are outside the property".into(),
        "HLSL is re-read by parsing the emitted text with rssl's own parser; Metal is re-read from the tree handed to the formatter (hook H1), accepted only if formatting that tree reproduces the emitted bytes".into(),
        "descriptor type is compared through a table written from the doc comments of ir/src/export.rs (declared type -> describable descriptor types; ByteAddressBuffer may be ByteBuffer or BufferAddress, metal::sampler either sampler type; a uint64_t is a BufferAddress / RwBufferAddress only as a [[vk::offset]] member of InlineDescriptorN, a declaration carrying a descriptor slot must be declared with a resource type); unbounded arrays are compared for presence, group, slot, type and count == None only on targets that accept them".into(),
        "the emitted source has no bindless marker: is_bindless is compared with the [[rssl::bindless]] attribute of the input declaration of that name".into(),
        "Metal no-pipeline mode emits neither entry points nor argument buffers by design; there the entries are checked for uniqueness, bindless and is_used == false only. HLSL no-pipeline mode: is_used is not checked (no entry point defines reachability)".into(),
        "Metal states only the product of the thread-group size (max_total_threads_per_threadgroup); numthreads arguments are evaluated over literals, named constants with literal initialisers, + - * and casts, anything else is skipped and counted".into(),
        "compiles that panic are counted and left to C08".into(),
    ];
    finish(ctx, rep)
}

pub fn replay(ctx: &Ctx, body: &str) -> i32 {
    let Some((head, src)) = body.split_once("\n=====\n") else {
        eprintln!("machinery error: bad replay file");
        return 2;
    };
    let mut cfg = Cfg::Dx;
    let mut mode = Mode::NoPipeline;
    for l in head.lines() {
        if let Some(v) = l.strip_prefix("cfg: ") {
            cfg = Cfg::from_name(v.trim()).unwrap_or(Cfg::Dx);
        } else if let Some(v) = l.strip_prefix("mode: ") {
            mode = match v.trim() {
                "all" => Mode::All,
                "nopipe" => Mode::NoPipeline,
                o => Mode::Named(o.trim_start_matches("named ").to_string()),
            };
        }
    }
    let mut acc = Acc::default();
    if std::env::var_os("C05_DUMP").is_some() {
        // diagnostics only: what the compiler returns for this case
        match guard(|| compile1(src, cfg, mode.clone())) {
            Ok(Ok(ps)) => {
                for p in &ps {
                    println!("--- emitted source ---\n{}\n--- metadata ---\n{:#?}\n--- stages ---\n{:?}", String::from_utf8_lossy(&p.data), p.metadata, p.stages.iter().map(|s| format!("{:?} {} {:?}", s.stage, s.entry_point, s.thread_group_size)).collect::<Vec<_>>());
                }
            }
            Ok(Err(e)) => println!("--- rejected: {}", e),
            Err(pi) => println!("--- panic: {}", pi.signature()),
        }
    }
    match analyse_source(src) {
        Ok(info) => {
            if !check_case(src, cfg, &mode, &info, &mut BTreeMap::new(), &mut acc) {
                println!("replay: the program is rejected ({:?})", acc.counters);
            }
        }
        Err(e) => println!("replay: the front end rejects the program: {}", e),
    }
    finish_replay(ctx, &acc)
}

//! C01 — HLSL export preserves the meaning of every accepted program.
//!
//! For every enumerated well-typed program P, every function f of P and every argument tuple of a boundary grid:
//!     ir_interp(type_check(parse(P)), f, args)  ==  c_interp(parse(text emitted by rssl::compile(P, target)), f', args)
//! bit-identically on (return value, out/inout parameters, final static globals). f' is the function at the same position
//! in declaration order. The HLSL side never uses the rssl type checker.
//!
//! Signature vocabulary (classes, never whole programs):
//!   meaning|hlsl|expr|<shape>            an expression shape, e.g. `Minus>Minus`, `Shl>Add|R`, `AddAssign`
//!   meaning|hlsl|cast|<from>-><to>       a conversion
//!   meaning|hlsl|literal|<kind>          a literal kind
//!   meaning|hlsl|stmt|<form>             a statement form
//!   meaning|hlsl|decl|<feature>          a declaration feature (overload, template, default-arg, out-param, ...)
//!   meaning|hlsl|unreadable|...          emitted text that the reader rejects
//!   meaning|hlsl|not-evaluable|...       emitted text that has no meaning under the C rules (unknown name, arity, ...)
//!   interp|ir-stuck|...                  machinery: the typed IR was not evaluable (must never fire)

use crate::ast_norm;
use crate::engine::*;
use crate::exec::Outcome;
use crate::exec::c_interp::{CProgram, Dialect};
use crate::exec::ir_interp::IrProgram;
use crate::exec::values::{self, Sc, Stop, Ty, Value, ST};
use crate::json::{Json, obj};
use crate::util::{self, Cfg, Mode};
use std::collections::HashMap;
use std::sync::{Arc, Mutex};

const FUEL: u64 = 4000;
const UNIT: usize = 40;

// ---------------------------------------------------------------------------------------------
// cases

#[derive(Clone, Debug)]
pub struct Case {
    /// source of exactly one free, non-template function named `f<k>` (k = position in the unit) — `@` stands for the name
    pub src: String,
    /// class of the construct under test (becomes the violation signature)
    pub tag: String,
}

fn case(src: String, tag: String) -> Case {
    Case { src, tag }
}

fn render_unit(prelude: &str, cases: &[&Case]) -> String {
    let mut s = String::with_capacity(prelude.len() + cases.len() * 80);
    s.push_str(prelude);
    for (i, c) in cases.iter().enumerate() {
        s.push_str(&c.src.replace('@', &format!("f{}", i)));
        s.push('\n');
    }
    s
}

// ---------------------------------------------------------------------------------------------
// value grid

fn scalar_grid(st: ST) -> Vec<Sc> {
    const INTS: [i32; 10] = [0, 1, 2, 3, -1, 7, 31, 32, i32::MIN, i32::MAX];
    const UINTS: [u32; 9] = [0, 1, 2, 3, 7, 31, 32, 0x8000_0000, u32::MAX];
    const FLOATS: [f64; 10] = [0.0, -0.0, 0.5, 1.0, -1.0, 2.5, 1e-3, 16777216.0, 3.4e38, f64::INFINITY];
    let mut out: Vec<Sc> = Vec::new();
    let mut push = |s: Sc| {
        if !out.iter().any(|o| values::same_sc(*o, s)) {
            out.push(s);
        }
    };
    match st {
        ST::Bool => {
            push(Sc::B(false));
            push(Sc::B(true));
        }
        ST::Int | ST::LitInt => INTS.iter().for_each(|v| push(Sc::I(*v))),
        ST::UInt => UINTS.iter().for_each(|v| push(Sc::U(*v))),
        ST::Half => FLOATS.iter().for_each(|v| push(Sc::H(values::round_to_f16(*v) as f32))),
        ST::Float | ST::LitFloat => FLOATS.iter().for_each(|v| push(Sc::F(*v as f32))),
        ST::Double => FLOATS.iter().for_each(|v| push(Sc::D(*v))),
    }
    out
}

/// reduced list used when a function has three or more input parameters
fn scalar_grid_small(st: ST) -> Vec<Sc> {
    let full = scalar_grid(st);
    match st {
        ST::Int | ST::LitInt => vec![Sc::I(0), Sc::I(1), Sc::I(-1), Sc::I(7), Sc::I(i32::MIN), Sc::I(i32::MAX)],
        ST::UInt => vec![Sc::U(0), Sc::U(1), Sc::U(7), Sc::U(32), Sc::U(0x8000_0000), Sc::U(u32::MAX)],
        ST::Bool => full,
        _ => vec![full[0], full[1], full[2], full[4], full[5], *full.last().unwrap()],
    }
}

fn type_grid(t: &Ty, small: bool) -> Option<Vec<Value>> {
    match t {
        Ty::S(st) => Some((if small { scalar_grid_small(*st) } else { scalar_grid(*st) }).into_iter().map(Value::S).collect()),
        Ty::V(st, n) => {
            let g = if small { scalar_grid_small(*st) } else { scalar_grid(*st) };
            // vectors take distinct component values: the k-th vector starts at grid value k
            let mut v: Vec<Value> = (0..g.len()).map(|k| Value::V((0..*n).map(|j| g[(k + j) % g.len()]).collect())).collect();
            if *st == ST::Bool {
                v.push(Value::V(vec![Sc::B(true); *n]));
                v.push(Value::V(vec![Sc::B(false); *n]));
            }
            Some(v)
        }
        _ => None,
    }
}

/// Argument tuples for a parameter list: all combinations when there are at most `cap` of them, otherwise a
/// deterministic greedy pairwise-covering subset (every pair of values of every two parameters occurs together).
fn build_tuples(params: &[(Ty, bool, bool)], cap: usize) -> Option<Vec<Vec<Value>>> {
    let inputs: Vec<usize> = params.iter().enumerate().filter(|(_, p)| p.1).map(|(i, _)| i).collect();
    let small = inputs.len() >= 3;
    let mut lists: Vec<Vec<Value>> = Vec::new();
    for p in params {
        if p.1 {
            lists.push(type_grid(&p.0, small)?);
        } else {
            lists.push(vec![Value::Void]);
        }
    }
    let product: usize = lists.iter().map(|l| l.len()).product();
    let mut tuples = Vec::new();
    if product <= cap {
        let radices: Vec<u64> = lists.iter().map(|l| l.len() as u64).collect();
        let mut d = Vec::new();
        for idx in 0..product as u64 {
            util::decode(idx, &radices, &mut d);
            tuples.push(d.iter().enumerate().map(|(i, k)| lists[i][*k as usize].clone()).collect());
        }
        return Some(tuples);
    }
    // greedy pairwise covering
    let k = lists.len();
    let mut uncovered: std::collections::BTreeSet<(usize, usize, usize, usize)> = std::collections::BTreeSet::new();
    for i in 0..k {
        for j in i + 1..k {
            for a in 0..lists[i].len() {
                for b in 0..lists[j].len() {
                    uncovered.insert((i, a, j, b));
                }
            }
        }
    }
    while !uncovered.is_empty() && tuples.len() < cap.max(1) * 2 {
        let mut pick: Vec<usize> = Vec::new();
        for i in 0..k {
            let mut best = (0usize, 0usize);
            for a in 0..lists[i].len() {
                // pairs newly covered with the already chosen positions + pairs still open with later positions
                let mut gain = 0;
                for (j, b) in pick.iter().enumerate() {
                    if uncovered.contains(&(j, *b, i, a)) {
                        gain += 1000;
                    }
                }
                for j in i + 1..k {
                    for b in 0..lists[j].len() {
                        if uncovered.contains(&(i, a, j, b)) {
                            gain += 1;
                        }
                    }
                }
                if gain > best.0 {
                    best = (gain, a);
                }
            }
            pick.push(best.1);
        }
        for i in 0..k {
            for j in i + 1..k {
                uncovered.remove(&(i, pick[i], j, pick[j]));
            }
        }
        tuples.push(pick.iter().enumerate().map(|(i, a)| lists[i][*a].clone()).collect());
    }
    Some(tuples)
}

fn tuples_for(params: &[(Ty, bool, bool)], cap: usize) -> Option<Arc<Vec<Vec<Value>>>> {
    static CACHE: Mutex<Option<HashMap<String, Option<Arc<Vec<Vec<Value>>>>>>> = Mutex::new(None);
    let key = format!("{:?}|{}", params, cap);
    {
        let g = CACHE.lock().unwrap();
        if let Some(m) = g.as_ref() {
            if let Some(v) = m.get(&key) {
                return v.clone();
            }
        }
    }
    let v = build_tuples(params, cap).map(Arc::new);
    let mut g = CACHE.lock().unwrap();
    g.get_or_insert_with(HashMap::new).insert(key, v.clone());
    v
}

// ---------------------------------------------------------------------------------------------
// the oracle

#[derive(Clone, Copy, PartialEq, Eq, Debug)]
pub enum Backend {
    Hlsl(Cfg),
    Msl,
}

impl Backend {
    pub fn cfg(self) -> Cfg {
        match self {
            Backend::Hlsl(c) => c,
            Backend::Msl => Cfg::Msl,
        }
    }
    pub fn family(self) -> &'static str {
        match self {
            Backend::Hlsl(_) => "hlsl",
            Backend::Msl => "msl",
        }
    }
    pub fn from_cfg(c: Cfg) -> Backend {
        if c == Cfg::Msl { Backend::Msl } else { Backend::Hlsl(c) }
    }
}

pub const HLSL_BACKENDS: [Backend; 2] = [Backend::Hlsl(Cfg::Dx), Backend::Hlsl(Cfg::Vk)];

pub struct Opts {
    pub cap: usize,
    pub verbose: bool,
    /// evaluate only this argument tuple (replay)
    pub only_args: Option<Vec<Value>>,
}

fn error_class(e: &str) -> String {
    // first line of the rendered diagnostic, without positions and quoted names
    let line = e.lines().find(|l| l.contains("error")).unwrap_or(e.lines().next().unwrap_or(""));
    let line = line.split("error:").last().unwrap_or(line).trim();
    let mut out = String::new();
    let mut in_quote = false;
    for c in line.chars().take(80) {
        if c == '\'' || c == '`' || c == '"' {
            in_quote = !in_quote;
            out.push('\'');
            continue;
        }
        if in_quote {
            continue;
        }
        if c.is_ascii_digit() {
            if !out.ends_with('#') {
                out.push('#');
            }
        } else {
            out.push(c);
        }
    }
    out
}

fn stop_class(s: &Stop) -> String {
    match s {
        Stop::Unspec(w) => format!("unspecified:{}", w),
        Stop::Fuel => "fuel".into(),
        Stop::Ambiguous(_) => "ambiguous".into(),
        Stop::Unsupported(w) => format!("unsupported:{}", w),
        Stop::Stuck(w) => {
            let mut o = String::new();
            for c in w.chars().take(60) {
                if c.is_ascii_digit() {
                    if !o.ends_with('#') {
                        o.push('#');
                    }
                } else {
                    o.push(c);
                }
            }
            format!("stuck:{}", o)
        }
    }
}

fn type_names_of(m: &rssl::ast::Module) -> Vec<String> {
    fn walk(defs: &[rssl::ast::RootDefinition], out: &mut Vec<String>) {
        for d in defs {
            match d {
                rssl::ast::RootDefinition::Struct(s) => out.push(s.name.node.clone()),
                rssl::ast::RootDefinition::Enum(e) => out.push(e.name.node.clone()),
                rssl::ast::RootDefinition::Namespace(_, inner) => walk(inner, out),
                _ => {}
            }
        }
    }
    let mut out = Vec::new();
    walk(&m.root_definitions, &mut out);
    out
}

fn read_hlsl(text: &str) -> Result<rssl::ast::Module, String> {
    let mut m = util::parse_src(text)?;
    let names = type_names_of(&m);
    let is_type = move |id: &rssl::ast::ScopedIdentifier| {
        let last = id.identifiers.last().map(|l| l.node.as_str()).unwrap_or("");
        (id.identifiers.len() == 1 && ast_norm::is_builtin_type_name(last)) || names.iter().any(|n| n == last)
    };
    let mut norm = ast_norm::Norm::new(&is_type);
    norm.module(&mut m);
    Ok(m)
}

fn replay_body(prelude: &str, c: &Case, be: Backend, args: &[Value]) -> String {
    let cfg = be.cfg();
    let mut s = String::new();
    s.push_str("kind: c01-case\n");
    s.push_str(&format!("target: {}\n", cfg.name()));
    s.push_str(&format!("tag: {}\n", c.tag));
    s.push_str(&format!("args: {}\n", args.iter().map(values::show).collect::<Vec<_>>().join(" ; ")));
    s.push_str("source:\n");
    s.push_str(prelude);
    s.push_str(&c.src.replace('@', "f0"));
    s.push('\n');
    s
}

fn violation(acc: &mut Acc, sig: String, detail: String, replay: String) {
    acc.violation(Violation { signature: sig, detail, replay });
}

/// Check a unit; cases that the type checker or the exporter refuse are identified individually and the rest is re-run.
pub fn check_cases(prelude: &str, cases: &[&Case], cfgs: &[Backend], acc: &mut Acc, opts: &Opts) {
    if cases.is_empty() {
        return;
    }
    let src = render_unit(prelude, cases);
    // 1. the type checker (the property quantifies over accepted programs)
    let tc = guard(|| util::typecheck_src(&src));
    let module = match tc {
        Ok(Ok(m)) => m,
        other => {
            if cases.len() == 1 {
                match other {
                    Ok(Err(e)) => {
                        acc.count("functions_rejected_by_type_checker");
                        acc.count(&format!("rejected|{}", error_class(&e)));
                        if let Ok(pat) = std::env::var("C01_DUMP_REJECT") {
                            if error_class(&e).contains(&pat) {
                                eprintln!("REJECTED [{}] <{}> {}", error_class(&e), cases[0].tag, cases[0].src);
                            }
                        }
                        if opts.verbose {
                            println!("rejected: {}", e);
                        }
                    }
                    Err(p) => {
                        acc.count("type_checker_panicked(C08)");
                        acc.count(&format!("typer-panic|{}", p.signature()));
                        if opts.verbose {
                            println!("type checker panicked: {}", p.signature());
                        }
                    }
                    _ => unreachable!(),
                }
                return;
            }
            // per-function verdicts: find the refused functions one by one, then run the accepted ones together
            acc.count("units_split_after_rejection");
            let mut good: Vec<&Case> = Vec::new();
            for c in cases {
                let one = render_unit(prelude, &[c]);
                match guard(|| util::typecheck_src(&one)) {
                    Ok(Ok(_)) => good.push(c),
                    _ => check_cases(prelude, &[c], cfgs, acc, opts),
                }
            }
            if good.len() == cases.len() {
                // each function alone is accepted but not together: run them alone
                for c in good {
                    check_cases(prelude, &[c], cfgs, acc, opts);
                }
            } else {
                check_cases(prelude, &good, cfgs, acc, opts);
            }
            return;
        }
    };
    let irp = IrProgram::new(&module);
    if irp.functions.len() < cases.len() {
        violation(acc, "interp|ir-function-count".into(), format!("{} functions in the IR for {} cases", irp.functions.len(), cases.len()), src.clone());
        return;
    }
    let base = irp.functions.len() - cases.len();
    // 2. reference results, once per function and tuple
    struct Ref {
        tuples: Arc<Vec<Vec<Value>>>,
        results: Vec<Result<Outcome, Stop>>,
    }
    let mut refs: Vec<Option<Ref>> = Vec::new();
    for (i, c) in cases.iter().enumerate() {
        let idx = base + i;
        let params = match irp.params(idx) {
            Ok(p) => p,
            Err(e) => {
                acc.count(&format!("skipped_function|ir:{}", stop_class(&e)));
                refs.push(None);
                continue;
            }
        };
        let tuples = match &opts.only_args {
            Some(a) => Some(Arc::new(vec![a.clone()])),
            None => tuples_for(&params, opts.cap),
        };
        let tuples = match tuples {
            Some(t) => t,
            None => {
                acc.count("skipped_function|no-grid-for-parameter-type");
                refs.push(None);
                continue;
            }
        };
        let mut results = Vec::with_capacity(tuples.len());
        for t in tuples.iter() {
            let r = irp.run(idx, t, FUEL);
            if let Err(Stop::Stuck(w)) = &r {
                violation(acc, format!("interp|ir-stuck|{}", stop_class(&Stop::Stuck(w.clone()))), format!("typed IR not evaluable: {} [{}]", w, c.tag), replay_body(prelude, c, cfgs[0], t));
            }
            results.push(r);
        }
        refs.push(Some(Ref { tuples, results }));
    }
    // 3. every target
    let ir_global_names: Vec<String> = irp.static_global_names().iter().map(|s| s.to_string()).collect();
    let ir_global_init = irp.initial_globals();
    let ir_params: Vec<Option<Vec<(Ty, bool, bool)>>> = (0..cases.len()).map(|i| irp.params(base + i).ok()).collect();
    for &be in cfgs {
        let cfg = be.cfg();
        let fam = be.family();
        let compiled = guard(|| util::compile1(&src, cfg, Mode::NoPipeline));
        let text = match compiled {
            Ok(Ok(p)) if p.len() == 1 => String::from_utf8_lossy(&p[0].data).to_string(),
            other => {
                if cases.len() == 1 {
                    match other {
                        Ok(Ok(p)) => acc.count(&format!("export_returned_{}_pipelines", p.len())),
                        Ok(Err(e)) => {
                            acc.count("export_rejected");
                            acc.count(&format!("export-rejected|{}", error_class(&e)));
                            if opts.verbose {
                                println!("export rejected: {}", e);
                            }
                        }
                        Err(p) => {
                            acc.count("export_panicked(C08)");
                            acc.count(&format!("export-panic|{}", p.signature()));
                            if std::env::var("C01_DUMP_PANIC").is_ok() {
                                eprintln!("EXPORT-PANIC [{}] {}", p.message, cases[0].src);
                            }
                            if opts.verbose {
                                println!("export panicked: {}", p.signature());
                            }
                        }
                    }
                } else {
                    acc.count("units_split_after_export_failure");
                    for c in cases {
                        check_cases(prelude, &[c], &[be], acc, opts);
                    }
                }
                continue;
            }
        };
        if opts.verbose {
            println!("---- emitted for {} ----\n{}", cfg.name(), text);
        }
        let read = match be {
            Backend::Hlsl(_) => guard(|| read_hlsl(&text)),
            // there is no Metal reader: the tree the generator handed to the formatter is evaluated (hook H1)
            Backend::Msl => Ok(rssl::msl::verif::take_last_ast().ok_or_else(|| "the Metal generator left no syntax tree".to_string())),
        };
        let hl = match read {
            Ok(Ok(m)) => m,
            other => {
                let why = match other {
                    Ok(Err(e)) => error_class(&e),
                    Err(p) => p.signature(),
                    _ => unreachable!(),
                };
                if cases.len() == 1 {
                    violation(acc, format!("meaning|{}|{}", fam, cases[0].tag), format!("emitted text ({}) is not readable ({}): {}", cfg.name(), why, one_line(&text, 300)), replay_body(prelude, cases[0], be, &[]));
                } else {
                    for c in cases {
                        check_cases(prelude, &[c], &[be], acc, opts);
                    }
                }
                continue;
            }
        };
        let cp = match CProgram::new(&hl, if be == Backend::Msl { Dialect::Metal } else { Dialect::Hlsl }) {
            Ok(p) => p,
            Err(e) => {
                if cases.len() == 1 {
                    match e {
                        Stop::Stuck(w) => violation(acc, format!("meaning|{}|{}", fam, cases[0].tag), format!("declarations of the emitted text ({}) have no meaning: {} : {}", cfg.name(), w, one_line(&text, 300)), replay_body(prelude, cases[0], be, &[])),
                        other => acc.count(&format!("skipped_function|c:{}", stop_class(&other))),
                    }
                } else {
                    for c in cases {
                        check_cases(prelude, &[c], &[be], acc, opts);
                    }
                }
                continue;
            }
        };
        if be != Backend::Msl && (cp.functions.len() != irp.functions.len() || cp.static_globals.len() != irp.static_globals.len()) {
            if cases.len() == 1 {
                violation(
                    acc,
                    format!("meaning|{}|{}", fam, cases[0].tag),
                    format!("{} functions / {} static globals in the source, {} / {} in the emitted text", irp.functions.len(), irp.static_globals.len(), cp.functions.len(), cp.static_globals.len()),
                    replay_body(prelude, cases[0], be, &[]),
                );
            } else {
                for c in cases {
                    check_cases(prelude, &[c], &[be], acc, opts);
                }
            }
            continue;
        }
        for (i, c) in cases.iter().enumerate() {
            let idx = base + i;
            let r = match &refs[i] {
                Some(r) => r,
                None => continue,
            };
            let mut compared = 0;
            let mut last_skip: Option<String> = None;
            for (t, expect) in r.tuples.iter().zip(r.results.iter()) {
                acc.evals += 1;
                let expect = match expect {
                    Ok(o) => o,
                    Err(Stop::Stuck(_)) => continue,
                    Err(e) => {
                        acc.count(&format!("skipped_tuples|source:{}", stop_class(e)));
                        last_skip = Some(stop_class(e));
                        continue;
                    }
                };
                let got = match be {
                    Backend::Hlsl(_) => cp.run(idx, t, FUEL),
                    Backend::Msl => run_msl(&cp, &format!("f{}", i), ir_params[i].as_deref().unwrap_or(&[]), t, &ir_global_names, &ir_global_init),
                };
                if opts.verbose {
                    println!("{} args=({})\n    source: {}\n    hlsl  : {}", cfg.name(), t.iter().map(values::show).collect::<Vec<_>>().join(" ; "), expect.render(), match &got {
                        Ok(o) => o.render(),
                        Err(e) => format!("{:?}", e),
                    });
                }
                match got {
                    Ok(o) => {
                        compared += 1;
                        acc.count("tuples_compared");
                        if let Some(d) = expect.first_difference(&o) {
                            let comp = d.split('#').next().unwrap_or("").to_string();
                            violation(
                                acc,
                                format!("meaning|{}|{}", fam, c.tag),
                                format!("{} differs ({}) for args ({}): source {} / emitted {} :: {}", comp, cfg.name(), t.iter().map(values::show).collect::<Vec<_>>().join(" ; "), expect.render(), o.render(), one_line(&c.src, 200)),
                                replay_body(prelude, c, be, t),
                            );
                        }
                    }
                    Err(Stop::Ambiguous(_)) => {
                        acc.count("skipped_tuples|target:ambiguous-overload");
                        last_skip = Some("target:ambiguous-overload".into());
                    }
                    Err(Stop::Unsupported(w)) => {
                        acc.count(&format!("skipped_tuples|target:unsupported:{}", w));
                        last_skip = Some(format!("target:unsupported:{}", w));
                    }
                    Err(e) => {
                        let class = match &e {
                            Stop::Stuck(_) => "not-evaluable",
                            Stop::Fuel => "nontermination",
                            _ => "target-unspecified",
                        };
                        violation(
                            acc,
                            format!("meaning|{}|{}", fam, c.tag),
                            format!("{}: source evaluates to {} but the emitted text ({}) gives {:?} for args ({}) :: {}", class, expect.render(), cfg.name(), e, t.iter().map(values::show).collect::<Vec<_>>().join(" ; "), one_line(&c.src, 200)),
                            replay_body(prelude, c, be, t),
                        );
                    }
                }
            }
            if compared > 0 {
                acc.count("functions_compared");
                acc.outcome(&(prelude, c.src.as_str(), cfg.name()));
                if acc.samples.len() < 2 {
                    acc.sample(obj(vec![("function", c.src.as_str().into()), ("target", cfg.name().into()), ("tag", c.tag.as_str().into()), ("tuples_compared", (compared as u64).into())]));
                }
            } else {
                acc.count("functions_without_comparable_tuple");
                acc.count(&format!("no_comparable_tuple|{}", last_skip.unwrap_or_default()));
            }
        }
    }
}

/// Evaluate the Metal function `name`: parameters beyond the source function's own are the globals the generator threads
/// through by reference; their storage is allocated here (initialised as the source initialises the global) and read back.
fn run_msl(cp: &CProgram, name: &str, ir_params: &[(Ty, bool, bool)], t: &[Value], global_names: &[String], global_init: &Result<Vec<Value>, Stop>) -> Result<Outcome, Stop> {
    let fi = cp.find_function(name).ok_or_else(|| Stop::Stuck(format!("no function {} in the Metal tree", name)))?;
    let f = &cp.funcs[fi];
    let n = ir_params.len();
    if f.params.len() < n {
        return Err(Stop::Stuck(format!("{} has {} parameters, the source function {}", name, f.params.len(), n)));
    }
    let init = match global_init {
        Ok(v) => v,
        Err(e) => return Err(e.clone()),
    };
    let mut args: Vec<Value> = t.to_vec();
    let mut threaded: Vec<Option<usize>> = vec![None; global_names.len()];
    for (k, prm) in f.params[n..].iter().enumerate() {
        let g = global_names.iter().position(|g| *g == prm.name).ok_or_else(|| Stop::Stuck(format!("extra parameter {} does not name a global", prm.name)))?;
        if !prm.by_ref {
            return Err(Stop::Stuck(format!("global {} is passed by value", prm.name)));
        }
        threaded[g] = Some(n + k);
        args.push(init[g].clone());
    }
    let (o, finals) = cp.run_function(fi, &args, FUEL)?;
    let mut outs = Vec::new();
    for (i, p) in ir_params.iter().enumerate() {
        if p.2 {
            let v = finals[i].clone().ok_or_else(|| Stop::Stuck(format!("out parameter {} is neither out nor a reference", i)))?;
            outs.push((i, v));
        }
    }
    let consts = cp.static_global_names();
    let mut globals = Vec::new();
    for (g, gname) in global_names.iter().enumerate() {
        let v = match threaded[g] {
            Some(pi) => finals[pi].clone().unwrap_or(Value::Void),
            None => match consts.iter().position(|c| *c == gname.as_str()) {
                Some(ci) => o.globals[ci].clone(),
                // not needed by this function: it keeps its initial value
                None => init[g].clone(),
            },
        };
        globals.push(v);
    }
    Ok(Outcome { ret: o.ret, outs, globals, builtin_trace: o.builtin_trace })
}

// ---------------------------------------------------------------------------------------------
// generators

const SCALARS: [&str; 6] = ["bool", "int", "uint", "half", "float", "double"];

fn all_types(widths: &[usize]) -> Vec<String> {
    let mut v = Vec::new();
    for w in widths {
        for s in SCALARS {
            v.push(if *w == 1 { s.to_string() } else { format!("{}{}", s, w) });
        }
    }
    v
}

fn split_type(t: &str) -> (&str, usize) {
    let last = t.as_bytes()[t.len() - 1];
    if (b'1'..=b'4').contains(&last) { (&t[..t.len() - 1], (last - b'0') as usize) } else { (t, 1) }
}

fn rank(s: &str) -> usize {
    SCALARS.iter().position(|x| *x == s).unwrap_or(0)
}

fn join_type(a: &str, b: &str, force: Option<&str>) -> String {
    let (sa, wa) = split_type(a);
    let (sb, wb) = split_type(b);
    let s = match force {
        Some(f) => f,
        None => {
            let r = if rank(sa) >= rank(sb) { sa } else { sb };
            if r == "bool" { "int" } else { r }
        }
    };
    let w = if wa == 1 {
        wb
    } else if wb == 1 {
        wa
    } else {
        wa.min(wb)
    };
    if w == 1 { s.to_string() } else { format!("{}{}", s, w) }
}

const BIN_OPS: [(&str, &str); 18] = [
    ("Add", "+"),
    ("Sub", "-"),
    ("Mul", "*"),
    ("Div", "/"),
    ("Mod", "%"),
    ("Shl", "<<"),
    ("Shr", ">>"),
    ("BitAnd", "&"),
    ("BitOr", "|"),
    ("BitXor", "^"),
    ("And", "&&"),
    ("Or", "||"),
    ("Lt", "<"),
    ("Le", "<="),
    ("Gt", ">"),
    ("Ge", ">="),
    ("Eq", "=="),
    ("Ne", "!="),
];

const ASSIGN_OPS: [(&str, &str); 11] = [
    ("Assign", "="),
    ("AddAssign", "+="),
    ("SubAssign", "-="),
    ("MulAssign", "*="),
    ("DivAssign", "/="),
    ("ModAssign", "%="),
    ("ShlAssign", "<<="),
    ("ShrAssign", ">>="),
    ("AndAssign", "&="),
    ("OrAssign", "|="),
    ("XorAssign", "^="),
];

const UN_OPS: [(&str, &str, bool); 8] = [("PreInc", "++#", true), ("PreDec", "--#", true), ("PostInc", "#++", true), ("PostDec", "#--", true), ("Plus", "+#", false), ("Minus", "-#", false), ("Not", "!#", false), ("BitNot", "~#", false)];

fn is_compare(name: &str) -> bool {
    matches!(name, "Lt" | "Le" | "Gt" | "Ge" | "Eq" | "Ne" | "And" | "Or")
}

/// depth-1 expressions: every operator x operand type combination
fn gen_depth1(types: &[String]) -> Vec<Case> {
    let mut out = Vec::new();
    for (name, sp) in BIN_OPS {
        for a in types {
            for b in types {
                let r = join_type(a, b, if is_compare(name) { Some("bool") } else { None });
                out.push(case(format!("{r} @({a} a, {b} b) {{ return a {sp} b; }}"), format!("expr|{name}")));
            }
        }
    }
    for (name, sp) in ASSIGN_OPS {
        for a in types {
            for b in types {
                out.push(case(format!("{a} @(inout {a} a, {b} b) {{ return a {sp} b; }}"), format!("expr|{name}")));
            }
        }
    }
    for (name, sp, lv) in UN_OPS {
        for a in types {
            let e = sp.replace('#', "a");
            let r = if name == "Not" { join_type(a, a, Some("bool")) } else { a.clone() };
            if lv {
                out.push(case(format!("{r} @(inout {a} a) {{ return {e}; }}"), format!("expr|{name}")));
            } else {
                out.push(case(format!("{r} @({a} a) {{ return {e}; }}"), format!("expr|{name}")));
            }
        }
    }
    // ternary and comma
    for c in ["bool", "int", "float"] {
        for a in types {
            for b in types {
                let r = join_type(a, b, None);
                let r = if split_type(a).0 == "bool" && split_type(b).0 == "bool" { join_type(a, b, Some("bool")) } else { r };
                out.push(case(format!("{r} @({c} c, {a} a, {b} b) {{ return c ? a : b; }}"), "expr|Ternary".into()));
            }
        }
    }
    for a in types {
        for b in types {
            out.push(case(format!("{b} @(inout {a} a, {b} b) {{ return (a = a, b); }}"), "expr|Comma".into()));
        }
    }
    // casts: C-style and constructor style
    for a in types {
        for b in types {
            out.push(case(format!("{b} @({a} a) {{ return ({b})a; }}"), format!("cast|{a}->{b}")));
            if split_type(a).1 == 1 || split_type(a).1 == split_type(b).1 {
                out.push(case(format!("{b} @({a} a) {{ return {b}(a); }}"), format!("cast|{a}->{b}")));
            }
            // implicit conversion at return, initialisation and argument passing
            out.push(case(format!("{b} @({a} a) {{ return a; }}"), format!("cast|{a}->{b}")));
            out.push(case(format!("{b} @({a} a) {{ {b} r = a; return r; }}"), format!("cast|{a}->{b}")));
        }
    }
    out
}

// ---------------------------------------------------------------------------------------------
// expression trees (depth 2, depth-3 spines)

#[derive(Clone, Copy, PartialEq, Eq, Debug)]
enum Typing {
    Int,
    UInt,
    Float,
    Mixed,
    Bool,
    Half,
    Double,
}

impl Typing {
    fn name(self) -> &'static str {
        match self {
            Typing::Int => "int",
            Typing::UInt => "uint",
            Typing::Float => "float",
            Typing::Mixed => "mixed",
            Typing::Bool => "bool",
            Typing::Half => "half",
            Typing::Double => "double",
        }
    }
    /// type of leaf number k
    fn leaf_type(self, k: usize) -> &'static str {
        match self {
            Typing::Int => "int",
            Typing::UInt => "uint",
            Typing::Float => "float",
            Typing::Bool => "bool",
            Typing::Half => "half",
            Typing::Double => "double",
            Typing::Mixed => {
                if k % 2 == 0 {
                    "int"
                } else {
                    "float"
                }
            }
        }
    }
    /// type in which the value of the whole expression is observed
    fn result_type(self) -> &'static str {
        match self {
            Typing::Int => "int",
            Typing::UInt => "uint",
            Typing::Float => "float",
            Typing::Mixed => "double",
            Typing::Bool => "int",
            Typing::Half => "half",
            Typing::Double => "double",
        }
    }
}

#[derive(Clone, Copy, PartialEq, Eq, Debug)]
enum LeafForm {
    Var,
    Literal,
    /// literal of the "other" kind (float literal in an int position and vice versa)
    CrossLiteral,
    Swizzle,
    ArrayElement,
    StructMember,
    Call,
    ConstVar,
    Global,
}

/// operator constructors: (name, arity, pattern with #0 #1 #2, operand positions that must be l-values)
#[derive(Clone, Debug)]
struct Ctor {
    name: String,
    arity: usize,
    pat: String,
    lvalue: Vec<usize>,
}

fn ctor(name: &str, arity: usize, pat: &str, lvalue: &[usize]) -> Ctor {
    Ctor { name: name.into(), arity, pat: pat.into(), lvalue: lvalue.to_vec() }
}

fn full_alphabet() -> Vec<Ctor> {
    let mut v = Vec::new();
    for (n, p, lv) in UN_OPS {
        v.push(ctor(n, 1, &p.replace('#', "#0"), if lv { &[0] } else { &[] }));
    }
    for (n, p) in BIN_OPS {
        v.push(ctor(n, 2, &format!("#0 {} #1", p), &[]));
    }
    for (n, p) in ASSIGN_OPS {
        v.push(ctor(n, 2, &format!("#0 {} #1", p), &[0]));
    }
    v.push(ctor("Comma", 2, "#0, #1", &[]));
    v.push(ctor("Ternary", 3, "#0 ? #1 : #2", &[]));
    for t in ["int", "uint", "float", "bool"] {
        v.push(ctor(&format!("Cast({})", t), 1, &format!("({})#0", t), &[]));
    }
    v.push(ctor("Ctor(float)", 1, "float(#0)", &[]));
    v.push(ctor("Swizzle(x)", 1, "#0.x", &[]));
    v.push(ctor("Subscript", 1, "A[#0]", &[]));
    v.push(ctor("Call", 1, "id(#0)", &[]));
    v.push(ctor("Call2", 2, "pick(#0, #1)", &[]));
    v
}

/// one representative per (precedence level, associativity, first/last token character, operand rule)
fn typed_prelude(t: &str) -> String {
    format!("{t} id({t} x) {{ return x; }}\n{t} pick({t} x, {t} y) {{ return x * 2 + y; }}\n")
}

fn class_alphabet(float: bool) -> Vec<Ctor> {
    let all = full_alphabet();
    let mut names = vec!["PostInc", "PreDec", "Plus", "Minus", "Not", "Mul", "Div", "Sub", "Add", "Lt", "Eq", "And", "Or", "Ternary", "Assign", "SubAssign", "Comma", "Cast(int)", "Cast(float)", "Call"];
    if !float {
        names.extend(["BitNot", "Mod", "Shl", "Shr", "BitAnd", "BitXor", "BitOr", "ShlAssign"]);
    }
    all.into_iter().filter(|c| names.contains(&c.name.as_str())).collect()
}

#[derive(Clone, Debug)]
enum X {
    Leaf,
    Node(usize, Vec<X>),
}

struct Rendered {
    text: String,
    leaves: usize,
    /// leaf numbers that must be l-values
    lvalue_leaves: Vec<usize>,
}

fn render_tree(x: &X, alpha: &[Ctor], need_lvalue: bool, r: &mut Rendered) {
    match x {
        X::Leaf => {
            if need_lvalue {
                r.lvalue_leaves.push(r.leaves);
            }
            r.text.push_str(&format!("${}$", r.leaves));
            r.leaves += 1;
        }
        X::Node(c, kids) => {
            let ct = &alpha[*c];
            let mut rest = ct.pat.as_str();
            while let Some(pos) = rest.find('#') {
                r.text.push_str(&rest[..pos]);
                let k = (rest.as_bytes()[pos + 1] - b'0') as usize;
                let kid = &kids[k];
                let compound = matches!(kid, X::Node(..));
                if compound {
                    r.text.push('(');
                }
                render_tree(kid, alpha, ct.lvalue.contains(&k), r);
                if compound {
                    r.text.push(')');
                }
                rest = &rest[pos + 2..];
            }
            r.text.push_str(rest);
        }
    }
}

fn literal_for(ty: &str, k: usize) -> &'static str {
    match ty {
        "int" => ["3", "7", "2"][k % 3],
        "uint" => ["3u", "7u", "2u"][k % 3],
        "float" => ["2.5f", "0.5f", "3.0f"][k % 3],
        "bool" => ["true", "false", "true"][k % 3],
        "half" => ["2.5h", "0.5h", "3.0h"][k % 3],
        "double" => ["2.5L", "0.5L", "3.0L"][k % 3],
        _ => "1",
    }
}

const EXPR_PRELUDE: &str = "struct S { int m; float n; uint u; bool b; };\nint id(int x) { return x; }\nuint id(uint x) { return x; }\nfloat id(float x) { return x; }\nbool id(bool x) { return x; }\nint pick(int x, int y) { return x * 2 + y; }\nuint pick(uint x, uint y) { return x * 2u + y; }\nfloat pick(float x, float y) { return x * 2.0f + y; }\nbool pick(bool x, bool y) { return x && !y; }\nfloat pick(int x, float y) { return x * 2 + y; }\nfloat pick(float x, int y) { return x * 2.0f - y; }\nstatic int GI = 3;\nstatic uint GU = 3u;\nstatic float GF = 2.5f;\nstatic bool GB = true;\n";

/// wrap an expression tree as a function: l-value leaves become inout parameters, the others follow the leaf form
fn tree_case(x: &X, alpha: &[Ctor], typing: Typing, form: LeafForm, tag: String) -> Case {
    let mut r = Rendered { text: String::new(), leaves: 0, lvalue_leaves: Vec::new() };
    render_tree(x, alpha, false, &mut r);
    let mut params: Vec<String> = Vec::new();
    let mut decls = String::new();
    let mut text = r.text.clone();
    let mut first_alt = true;
    for k in 0..r.leaves {
        let ty = typing.leaf_type(k);
        let is_lv = r.lvalue_leaves.contains(&k);
        // only the first non-l-value leaf takes the alternative form; l-value positions stay variables (or l-value forms)
        let use_form = if form == LeafForm::Var {
            LeafForm::Var
        } else if is_lv {
            match form {
                LeafForm::Swizzle | LeafForm::ArrayElement | LeafForm::StructMember | LeafForm::Global if first_alt => form,
                _ => LeafForm::Var,
            }
        } else if first_alt {
            form
        } else {
            LeafForm::Var
        };
        if use_form != LeafForm::Var {
            first_alt = false;
        }
        let rep = match use_form {
            LeafForm::Var => {
                params.push(format!("{}{} v{}", if is_lv { "inout " } else { "" }, ty, k));
                format!("v{}", k)
            }
            LeafForm::Literal => literal_for(ty, k).to_string(),
            LeafForm::CrossLiteral => literal_for(if ty == "float" { "int" } else { "float" }, k).to_string(),
            LeafForm::Swizzle => {
                params.push(format!("{}{}3 w{}", if is_lv { "inout " } else { "" }, ty, k));
                format!("w{}.y", k)
            }
            LeafForm::ArrayElement => {
                params.push(format!("{} v{}", ty, k));
                decls.push_str(&format!("{} B{}[2] = {{ v{}, v{} }}; ", ty, k, k, k));
                format!("B{}[1]", k)
            }
            LeafForm::StructMember => {
                params.push(format!("{} v{}", ty, k));
                let m = match ty {
                    "int" => "m",
                    "float" => "n",
                    "uint" => "u",
                    _ => "b",
                };
                decls.push_str(&format!("S s{}; s{}.{} = v{}; ", k, k, m, k));
                format!("s{}.{}", k, m)
            }
            LeafForm::Call => {
                params.push(format!("{} v{}", ty, k));
                format!("id(v{})", k)
            }
            LeafForm::ConstVar => {
                params.push(format!("{} v{}", ty, k));
                decls.push_str(&format!("const {} c{} = v{}; ", ty, k, k));
                format!("c{}", k)
            }
            LeafForm::Global => match ty {
                "int" => "GI".to_string(),
                "uint" => "GU".to_string(),
                "float" => "GF".to_string(),
                _ => "GB".to_string(),
            },
        };
        text = text.replace(&format!("${}$", k), &rep);
    }
    let uses_a = text.contains("A[");
    if uses_a {
        let t0 = typing.leaf_type(0);
        decls.push_str(&format!("{} A[4] = {{ {}, {}, {}, {} }}; ", t0, literal_for(t0, 0), literal_for(t0, 1), literal_for(t0, 2), literal_for(t0, 1)));
    }
    let rt = typing.result_type();
    let src = format!("{} @({}) {{ {}return {}; }}", rt, params.join(", "), decls, text);
    Case { src, tag }
}

fn gen_depth2(alpha: &[Ctor], typings: &[Typing], forms: &[LeafForm]) -> Vec<Case> {
    let mut out = Vec::new();
    for (pi, p) in alpha.iter().enumerate() {
        for side in 0..p.arity {
            for (ci, c) in alpha.iter().enumerate() {
                let mut kids = vec![X::Leaf; p.arity];
                kids[side] = X::Node(ci, vec![X::Leaf; c.arity]);
                let tree = X::Node(pi, kids);
                let side_name = if p.arity == 1 { String::new() } else { format!("|{}", side) };
                for t in typings {
                    for f in forms {
                        if *f != LeafForm::Var && !matches!(t, Typing::Int | Typing::Float | Typing::Mixed) && !(*f == LeafForm::Literal && matches!(t, Typing::Half | Typing::Double)) {
                            continue;
                        }
                        if *f == LeafForm::CrossLiteral && *t != Typing::Mixed {
                            continue;
                        }
                        out.push(tree_case(&tree, alpha, *t, *f, format!("expr|{}>{}{}", p.name, c.name, side_name)));
                    }
                }
            }
        }
    }
    out
}

/// depth-3 spines: P( .., C( .., G(leaves), ..), ..) for every pair of sides
fn gen_depth3(alpha: &[Ctor], typing: Typing) -> Vec<Case> {
    let mut out = Vec::new();
    for (pi, p) in alpha.iter().enumerate() {
        for s1 in 0..p.arity {
            for (ci, c) in alpha.iter().enumerate() {
                for s2 in 0..c.arity {
                    for (gi, g) in alpha.iter().enumerate() {
                        let mut ckids = vec![X::Leaf; c.arity];
                        ckids[s2] = X::Node(gi, vec![X::Leaf; g.arity]);
                        let mut pkids = vec![X::Leaf; p.arity];
                        pkids[s1] = X::Node(ci, ckids);
                        let tree = X::Node(pi, pkids);
                        let tag = format!("expr|{}>{}>{}|{}{}", p.name, c.name, g.name, s1, s2);
                        out.push(tree_case(&tree, alpha, typing, LeafForm::Var, tag));
                    }
                }
            }
        }
    }
    out
}

/// sequenced side effects that deliberately use one variable twice across a sequence point (S7)
fn gen_sequenced() -> Vec<Case> {
    let mut out = Vec::new();
    for t in ["int", "uint", "float"] {
        let one = literal_for(t, 0);
        let mut add = |body: &str, tag: &str| {
            out.push(case(format!("{t} @(inout {t} a, inout {t} b, {t} c, bool k) {{ return {body}; }}").replace("ONE", one), format!("expr|seq|{tag}")));
        };
        add("a = b = c", "a=b=c");
        add("(a = b, a + ONE)", "(a=b,a+1)");
        add("(a += c, b = a, a * b)", "(a+=c,b=a,a*b)");
        add("k && (bool)(a = b) ? a : c", "k&&(a=b)?a:c");
        add("(k && (bool)(a = c), a)", "(k&&(a=c),a)");
        add("(k || (bool)(a = c), a)", "(k||(a=c),a)");
        add("k ? (a = b) : (b = c)", "k?(a=b):(b=c)");
        add("k ? a = b : c", "k?a=b:c");
        add("k ? c : (a = b)", "k?c:(a=b)");
        add("(k ? (a = c) : (b = c), a + b)", "(k?(a=c):(b=c),a+b)");
        add("k ? (c > a ? a : b) : (c > b ? b : c)", "nested-ternary");
        add("k ? c : k ? a : b", "right-nested-ternary");
        add("(k ? c : a) > b ? a : b", "ternary-in-condition");
        add("- -a", "- -a");
        add("-(-a)", "-(-a)");
        add("+ +a", "+ +a");
        add("-(--a)", "-(--a)");
        add("-(a--)", "-(a--)");
        add("- --a", "- --a");
        add("+(++a)", "+(++a)");
        add("(a++) + (++b)", "a++ + ++b");
        add("(a--) - (--b)", "a-- - --b");
        add("a - (-b)", "a - -b");
        add("a + (+b)", "a + +b");
        add("a - (--b)", "a - --b");
        add("a + (++b)", "a + ++b");
        add("(a++, a)", "(a++,a)");
        add("(a += ONE, a -= c, a)", "(a+=1,a-=c,a)");
        add("a -= b -= c", "a-=b-=c");
        add("(a -= b) -= c", "(a-=b)-=c");
        add("(a = b) = c", "(a=b)=c");
        add("++(++a)", "++(++a)");
        add("(++a)--", "(++a)--");
        add("(a, b) = c", "(a,b)=c");
        add("a = (b, c)", "a=(b,c)");
        add("(t)(int)(float)a".replace("(t)", &format!("({})", t)).as_str(), "cast-of-cast");
        add("(t)(bool)a".replace("(t)", &format!("({})", t)).as_str(), "cast-via-bool");
        add("(t)!(!a)".replace("(t)", &format!("({})", t)).as_str(), "!(!a)");
        add("(t)!(bool)(-a)".replace("(t)", &format!("({})", t)).as_str(), "!-a");
        add("a - (b - c)", "a-(b-c)");
        add("a - b - c", "a-b-c");
        add("a / (b / c)", "a/(b/c)");
        add("a / b / c", "a/b/c");
        add("a / (b * c)", "a/(b*c)");
        add("a * (b / c)", "a*(b/c)");
        add("a - (b + c)", "a-(b+c)");
        add("(a - b) * c", "(a-b)*c");
        add("a - b * c", "a-b*c");
        add("(t)(a < b) < c".replace("(t)", &format!("({})", t)).as_str(), "(a<b)<c");
        add("(t)(a < (t)(b < c))".replace("(t)", &format!("({})", t)).as_str(), "a<(b<c)");
        add("(t)(a == b) == c".replace("(t)", &format!("({})", t)).as_str(), "(a==b)==c");
        if t != "float" {
            add("~-a", "~-a");
            add("-~a", "-~a");
            add("~(~a)", "~(~a)");
            add("a << (b & ONE) << (c & ONE)", "a<<b<<c");
            add("a << ((b & ONE) << (c & ONE))", "a<<(b<<c)");
            add("a >> (b >> ONE)", "a>>(b>>1)");
            add("(a >> b) >> ONE", "(a>>b)>>1");
            add("a << b + c", "a<<b+c");
            add("(a << b) + c", "(a<<b)+c");
            add("a & b | c", "a&b|c");
            add("a & (b | c)", "a&(b|c)");
            add("a ^ b & c", "a^b&c");
            add("(a ^ b) & c", "(a^b)&c");
            add("a | b ^ c", "a|b^c");
            add("(a | b) ^ c", "(a|b)^c");
            add("a & b == c", "a&b==c");
            add("(a & b) == c", "(a&b)==c");
            add("a % (b % c)", "a%(b%c)");
            add("a % b % c", "a%b%c");
            add("a % b * c", "a%b*c");
            add("a % (b * c)", "a%(b*c)");
            add("a <<= b >>= ONE", "a<<=b>>=1");
        }
    }
    out
}


// ---------------------------------------------------------------------------------------------
// expression contexts: where an expression sits decides which parentheses the printer needs around it

const CONTEXT_PRELUDE: &str = "struct P2 { int x; int y; };\nint pick(int x, int y) { return x * 2 + y; }\nint one(int x) { return x + 100; }\n";

fn gen_contexts() -> Vec<Case> {
    let mut out = Vec::new();
    let tops = [("Comma", "(a++, b)"), ("Comma3", "(a++, b++, a + b)"), ("Assign", "a = b"), ("AddAssign", "a += b"), ("Ternary", "c ? a : b"), ("Or", "a || b"), ("Add", "a + b"), ("Cast", "(int)c"), ("PostInc", "a++"), ("Call", "one((a, b))")];
    let contexts: [(&str, &str); 22] = [
        ("initializer", "int r = E; return r;"),
        ("second-declarator", "int q = 1, r = E; return r + q;"),
        ("array-aggregate", "int r[2] = { E, 1 }; return r[0] * 10 + r[1];"),
        ("array-aggregate-last", "int r[2] = { 1, E }; return r[0] * 10 + r[1];"),
        ("struct-aggregate", "P2 p = { E, 2 }; return p.x * 10 + p.y;"),
        ("call-argument", "return pick(E, 1);"),
        ("call-argument-last", "return pick(1, E);"),
        ("single-call-argument", "return one(E);"),
        ("constructor-argument", "int2 v = int2(E, 1); return v.x * 10 + v.y;"),
        ("subscript", "int arr[4] = { 5, 6, 7, 8 }; return arr[(E) & 3];"),
        ("plain-subscript", "int arr[4] = { 5, 6, 7, 8 }; b = b & 1; a = a & 1; return arr[E];"),
        ("return", "return E;"),
        ("if-condition", "if (E) return 1; return 0;"),
        ("while-condition", "int n = 0; while (E) { n++; if (n > 2) break; } return n;"),
        ("do-condition", "int n = 0; do { n++; if (n > 2) break; } while (E); return n;"),
        ("for-init", "int r = 0; for (E; r < 2; r++) { } return r + a;"),
        ("for-condition", "int r = 0; for (; E; r++) { if (r > 1) break; } return r + a;"),
        ("for-increment", "int r = 0; for (int i = 0; i < 2; i++, E) { r += i; } return r + a;"),
        ("for-increment-alone", "int r = 0; for (int i = 0; i < 2; E) { r += i; i++; } return r + a;"),
        ("switch-selector", "switch (E) { case 0: return 5; case 1: return 7; default: return 6; }"),
        ("expression-statement", "E; return a * 10 + b;"),
        ("for-init-declaration", "int r = 0; for (int i = E; i < 3; i++) { r += i; if (r > 50) break; } return r;"),
    ];
    for (cn, ct) in contexts {
        for (tn, te) in tops {
            // one class per printer call site: every initialiser position goes through the same routine, every argument list too
            let family = match cn {
                "initializer" | "second-declarator" | "array-aggregate" | "array-aggregate-last" | "struct-aggregate" | "for-init-declaration" => "initializer",
                "call-argument" | "call-argument-last" | "single-call-argument" | "constructor-argument" => "argument-list",
                other => other,
            };
            let top = if tn == "Comma3" { "Comma" } else { tn };
            out.push(case(format!("int @(inout int a, inout int b, bool c) {{ {} }}", ct.replace('E', te)), format!("context|{}|{}", family, top)));
        }
    }
    out
}

// ---------------------------------------------------------------------------------------------
// statements

fn gen_statements() -> Vec<Case> {
    let mut out = Vec::new();
    let mut add = |body: &str, tag: &str| {
        out.push(case(format!("int @(inout int a, inout int b, int n) {{ int r = 0; {body} return r * 31 + a; }}"), format!("stmt|{tag}")));
    };
    // bodies with side effects; conditions over the parameters
    let conds = ["a < b", "n", "a", "a == 3 || b == 3", "(a & 1) == 0", "!n"];
    let bodies = ["r += a;", "a++;", "{ b -= a; r ^= b; }", "{ int a = 5; r += a; }", "r = r * 3 + n;", ";"];
    for (ci, c) in conds.iter().enumerate() {
        for (bi, b) in bodies.iter().enumerate() {
            add(&format!("if ({c}) {b}"), &format!("if|c{ci}b{bi}"));
            add(&format!("if ({c}) {b} else r -= 1;"), &format!("if-else|c{ci}b{bi}"));
            add(&format!("if ({c}) {{ {b} }} else {{ {} }}", bodies[(bi + 1) % bodies.len()]), &format!("if-else-blocks|c{ci}b{bi}"));
            add(&format!("if ({c}) if (b > 1) {b} else r = 9;"), &format!("dangling-else|c{ci}b{bi}"));
            add(&format!("if ({c}) {{ if (b > 1) {b} }} else r = 9;"), &format!("braced-if-else|c{ci}b{bi}"));
        }
    }
    for (bi, b) in bodies.iter().enumerate() {
        add(&format!("for (int i = 0; i < (n & 7); i++) {b}"), &format!("for-decl|b{bi}"));
        add(&format!("for (int i = 0, j = 8; i < j; i += 3, j--) {{ r += i * j; {b} }}"), &format!("for-two-decls|b{bi}"));
        // three and four declarators whose initialisers have an observable order (side effects on r, uses of earlier ones)
        add(&format!("for (int i = 0, j = (r += 3), k = (r *= 2); i < 2; i++) {{ r += j + k * 3; {b} }}"), &format!("for-three-decls-effects|b{bi}"));
        add(&format!("for (int i = 0, j = (r += 3), k = (r *= 2), m = (r -= 1); i < 2; i++) {{ r += j + k * 3 + m * 7; {b} }}"), &format!("for-four-decls-effects|b{bi}"));
        add(&format!("for (int i = 0, j = i + 5, k = j * 2, m = k - i; i < 2; i++) {{ r += j + k * 3 + m * 7; {b} }}"), &format!("for-four-decls-dependent|b{bi}"));
        add(&format!("int j = (r += 3), k = (r *= 2), m = (r -= 1), q = j + k * 3 + m * 7; r += q; {b}"), &format!("four-decls-effects|b{bi}"));
        add(&format!("int i; for (i = 0; i < (n & 7); ++i) {{ {b} }} r += i;"), &format!("for-expr-init|b{bi}"));
        add(&format!("int i = 0; for (; i < (n & 7);) {{ {b} i++; }}"), &format!("for-empty-init-inc|b{bi}"));
        add(&format!("int i = 0; for (;;) {{ if (i >= (n & 7)) break; {b} i++; }}"), &format!("for-ever-break|b{bi}"));
        add(&format!("int i = (n & 7); while (i > 0) {{ {b} i--; }}"), &format!("while|b{bi}"));
        add(&format!("int i = (n & 7); while (i-- > 0) {b}"), &format!("while-postdec-cond|b{bi}"));
        add(&format!("int i = (n & 3); do {{ {b} i--; }} while (i > 0);"), &format!("do-while|b{bi}"));
        add(&format!("int i = 0; do {b} while (++i < (n & 3));"), &format!("do-while-single|b{bi}"));
        add(&format!("for (int i = 0; i < 6; i++) {{ if (i == (n & 3)) continue; {b} r += i; }}"), &format!("continue-first|b{bi}"));
        add(&format!("for (int i = 0; i < 6; i++) {{ {b} if (i == (n & 3)) continue; r += i; }}"), &format!("continue-middle|b{bi}"));
        add(&format!("for (int i = 0; i < 6; i++) {{ r += i; {b} if (i == (n & 3)) break; }}"), &format!("break-last|b{bi}"));
        add(&format!("for (int i = 0; i < 6; i++) {{ if (i == (n & 3)) break; {b} r += i; }}"), &format!("break-first|b{bi}"));
        add(&format!("for (int i = 0; i < 3; i++) {{ for (int j = 0; j < 3; j++) {{ if (j == (n & 1)) continue; if (i == 2) break; {b} r += i * 3 + j; }} }}"), &format!("nested-loops|b{bi}"));
        add(&format!("int i = 0; while (i < 5) {{ i++; if (i == (n & 3)) continue; {b} do {{ r += i; }} while (false); }}"), &format!("while-continue|b{bi}"));
        add(&format!("int i = 0; do {{ i++; if (i == (n & 3)) continue; {b} }} while (i < 4);"), &format!("do-continue|b{bi}"));
        add(&format!("switch (n & 3) {{ case 0: {b} break; case 1: r += 10; break; default: r += 100; break; }}"), &format!("switch|b{bi}"));
        add(&format!("switch (n & 3) {{ case 0: {b} case 1: r += 10; case 2: r += 20; break; default: r += 100; }}"), &format!("switch-fallthrough|b{bi}"));
        add(&format!("switch (n & 3) {{ default: r += 100; break; case 0: case 1: {b} r += 10; break; }}"), &format!("switch-default-first|b{bi}"));
        add(&format!("switch (n & 3) {{ case 1: {{ {b} r += 1; break; }} case 2: {{ r += 2; }} case 3: r += 3; }}"), &format!("switch-blocks|b{bi}"));
        add(&format!("for (int i = 0; i < 4; i++) {{ switch (i) {{ case 1: continue; case 2: {b} break; default: r += i; }} r += 7; }}"), &format!("switch-in-loop|b{bi}"));
        add(&format!("switch (n & 1) {{ case 0: for (int i = 0; i < 3; i++) {{ if (i == 1) break; {b} }} r += 5; break; case 1: r = 9; }}"), &format!("loop-in-switch|b{bi}"));
        add(&format!("if (n > 2) {{ {b} return r + 1000; }} r += 1;"), &format!("early-return|b{bi}"));
        add(&format!("for (int i = 0; i < 5; i++) {{ {b} if (i == (n & 3)) return r - i; }}"), &format!("return-in-loop|b{bi}"));
        add(&format!("{{ int r = 7; {b} a += r; }} r += 2;"), &format!("shadow-block|b{bi}"));
        add(&format!("int x = 1; {{ int x = 2; {{ int x = 3; r += x; }} r += x * 10; }} r += x * 100; {b}"), &format!("shadow-nested|b{bi}"));
        add(&format!("for (int a = 0; a < 2; a++) {{ {b} r += a; }}"), &format!("shadow-loop-var|b{bi}"));
        add(&format!("int x = a, y = x + 1, z = y * 2; {b} r += x + y + z;"), &format!("multi-declarator|b{bi}"));
    }
    // void function with out parameter and plain return
    out.push(case("void @(int n, out int o) { o = 1; if (n > 2) return; o = 2; }".into(), "stmt|void-return".into()));
    out.push(case("void @(int n, out int o) { o = 0; for (int i = 0; i < 4; i++) { if (i > (n & 3)) return; o += i; } }".into(), "stmt|void-return-in-loop".into()));
    out.push(case("int @(int n) { [unroll] for (int i = 0; i < 3; i++) { n += i; } [branch] if (n > 3) { n = -n; } return n; }".into(), "stmt|attributes".into()));
    out.push(case("int @(int n) { [loop] while (n > 100) { n -= 100; } [flatten] if (n > 3) n = 3; [unroll(2)] for (int i = 0; i < 2; i++) n++; return n; }".into(), "stmt|attributes2".into()));
    out.push(case("float @(float x, int n) { float r = x; for (int i = 0; i < (n & 3); i++) { r = r * 0.5f + 1.0f; if (r > 2.0f) break; } return r; }".into(), "stmt|float-loop".into()));
    out.push(case("uint @(uint n) { uint r = 0u; for (uint i = n & 7u; i > 0u; i--) r += i; return r; }".into(), "stmt|uint-countdown".into()));
    out.push(case("int @(float x) { if (x) return 1; return 0; }".into(), "stmt|float-condition".into()));
    out.push(case("int @(uint x) { int r = 0; while (x) { x >>= 1u; r++; } return r; }".into(), "stmt|uint-condition".into()));
    out.push(case("int @(int3 v) { int r = 0; for (int i = 0; i < 3; i++) r = r * 7 + v[i]; return r; }".into(), "stmt|vector-subscript-loop".into()));
    out.push(case("int3 @(int3 v, int n) { for (int i = 0; i < 3; i++) v[i] += n * i; return v; }".into(), "stmt|vector-subscript-store".into()));
    out
}

// ---------------------------------------------------------------------------------------------
// declaration features, one at a time

struct DeclSpace {
    prelude: String,
    cases: Vec<Case>,
}

fn gen_decls() -> Vec<DeclSpace> {
    let mut v = Vec::new();
    let mut sp = |prelude: &str, cases: Vec<(&str, &str)>| {
        v.push(DeclSpace { prelude: prelude.to_string(), cases: cases.into_iter().map(|(s, t)| case(s.to_string(), format!("decl|{}", t))).collect() });
    };
    // overload sets: export must keep the resolved callee
    sp(
        "int ov(int x) { return 1; }\nint ov(uint x) { return 2; }\nint ov(float x) { return 3; }\nint ov(bool x) { return 4; }\nint ov(half x) { return 5; }\nint ov(double x) { return 6; }\nint ov(int2 x) { return 7; }\nint ov(float3 x) { return 8; }\nint ov(int x, float y) { return 9; }\nint ov(float x, int y) { return 10; }\nint ov(int x, int y) { return 11; }\nint ov(float x, float y) { return 12; }\n",
        vec![
            ("int @(int a) { return ov(a); }", "overload|int"),
            ("int @(uint a) { return ov(a); }", "overload|uint"),
            ("int @(float a) { return ov(a); }", "overload|float"),
            ("int @(bool a) { return ov(a); }", "overload|bool"),
            ("int @(half a) { return ov(a); }", "overload|half"),
            ("int @(double a) { return ov(a); }", "overload|double"),
            ("int @(int2 a) { return ov(a); }", "overload|int2"),
            ("int @(float3 a) { return ov(a); }", "overload|float3"),
            ("int @() { return ov(1u) * 10 + ov(1.0f); }", "overload|literals"),
            ("int @() { return ov(1.0L) * 100 + ov(true) * 10 + ov(1.0h); }", "overload|literals2"),
            ("int @(int a, float b) { return ov(a, b) * 1000 + ov(b, a) * 100 + ov(a, a) * 10 + ov(b, b); }", "overload|two-args"),
            ("int @(int a) { return ov(a + 1u) * 10 + ov(a * 0.5f); }", "overload|expression-args"),
            ("int @(int a) { return ov((float)a) * 10 + ov((uint)a); }", "overload|cast-args"),
            ("int @(int3 a) { return ov(a.xy) * 10 + ov(a.x); }", "overload|swizzle-args"),
        ],
    );
    // function templates instantiated at two types
    sp(
        "template<typename T> T twice(T x) { return x + x; }\ntemplate<typename T> T sel(bool c, T a, T b) { return c ? a : b; }\n",
        vec![
            ("float @(int a, float b) { return twice(a) + twice(b); }", "template|two-types"),
            ("float @(int a, float b) { return twice<float>(a) + twice<int>(b); }", "template|explicit-args"),
            ("float @(bool c, int a, float b) { return sel(c, a, a + 1) + sel(c, b, b * 2.0f); }", "template|three-params"),
            ("uint @(uint a) { return twice(twice(a)); }", "template|nested-call"),
            ("int3 @(int3 a) { return twice(a); }", "template|vector"),
        ],
    );
    // default arguments
    sp(
        "int da(int a, int b = 3, int c = 4) { return a * 100 + b * 10 + c; }\nfloat df(float x, float s = 0.5f) { return x * s; }\nint dn(int a, int b = -2) { return a - b; }\n",
        vec![
            ("int @(int a) { return da(a); }", "default-arg|two-omitted"),
            ("int @(int a) { return da(a, 7); }", "default-arg|one-omitted"),
            ("int @(int a) { return da(a, 7, 9); }", "default-arg|none-omitted"),
            ("float @(float a) { return df(a) + df(a, 2.0f); }", "default-arg|float"),
            ("int @(int a) { return dn(a) * 10 + dn(a, 1); }", "default-arg|negative"),
        ],
    );
    // struct methods reading / writing members
    sp(
        "struct P { int x; float y; int get() { return x; } void set(int v) { x = v; } float sum() { return x + y; } void bump() { x++; y *= 2.0f; } int twice() { return get() * 2; } void both(int v) { set(v); bump(); } };\nstruct Q { P p; int k; int inner() { return p.get() + k; } };\n",
        vec![
            ("int @(int a) { P p; p.x = a; p.y = 1.5f; return p.get(); }", "method|read"),
            ("int @(int a) { P p; p.x = 0; p.y = 0.0f; p.set(a); return p.x; }", "method|write"),
            ("float @(int a, float b) { P p; p.x = a; p.y = b; p.bump(); return p.sum(); }", "method|read-write"),
            ("int @(int a) { P p; p.x = a; p.y = 0.0f; return p.twice(); }", "method|internal-call"),
            ("float @(int a) { P p; p.x = 1; p.y = 1.0f; p.both(a); return p.sum(); }", "method|internal-calls-writing"),
            ("int @(int a) { Q q; q.p.x = a; q.p.y = 0.0f; q.k = 5; return q.inner(); }", "method|nested-struct"),
            ("int @(int a) { Q q; q.p.x = 1; q.p.y = 0.0f; q.k = 0; q.p.set(a); return q.p.get(); }", "method|on-member"),
            ("int @(int a) { P p; p.x = a; p.y = 0.0f; P c = p; c.set(9); return p.x * 10 + c.x; }", "struct|copy"),
            ("int @(int a) { P ps[2]; ps[0].x = a; ps[0].y = 0.0f; ps[1].x = 2; ps[1].y = 0.0f; ps[1].set(ps[0].get() + 1); return ps[0].x * 10 + ps[1].x; }", "struct|array-of-structs"),
            ("float @(int a) { P p = { a, 2.5f }; return p.sum(); }", "struct|aggregate-init"),
            ("int @(int a) { Q q = { { a, 1.0f }, 3 }; return q.inner(); }", "struct|nested-aggregate-init"),
        ],
    );
    // namespaces
    sp(
        "namespace N { int g(int x) { return x + 1; } static int s = 3; namespace M { int g(int x) { return x + 100; } int h(int x) { return g(x) * 2; } } int k(int x) { return M::g(x) + g(x); } struct T { int v; int get() { return v + s; } }; enum E { A = 2, B = 7 }; }\nint g(int x) { return x - 1; }\n",
        vec![
            ("int @(int a) { return N::g(a) * 10000 + N::M::g(a) * 100 + g(a); }", "namespace|qualified-calls"),
            ("int @(int a) { return N::M::h(a) + N::k(a); }", "namespace|inner-lookup"),
            ("int @(int a) { N::s += a; return N::s; }", "namespace|static-global"),
            ("int @(int a) { N::T t; t.v = a; return t.get(); }", "namespace|struct"),
            ("int @(int a) { N::E e = N::B; return (int)e + a; }", "namespace|enum"),
        ],
    );
    // enums with explicit values
    sp(
        "enum Color { Red = 1, Green = 5, Blue = 5 + 2, Next, Neg = -3 };\nenum Big { Lo = 0, Hi = 4000000000 };\n",
        vec![
            ("int @() { return (int)Red * 1000 + (int)Green * 100 + (int)Blue * 10 + (int)Next; }", "enum|explicit-values"),
            ("int @() { return (int)Neg; }", "enum|negative"),
            ("int @(int a) { Color c = a > 1 ? Green : Red; return (int)c; }", "enum|ternary"),
            ("int @(int a) { Color c = (Color)a; return c == Green ? 1 : 0; }", "enum|cast-from-int"),
            ("int @(int a) { Color c = Blue; switch (c) { case Red: return 1; case Blue: return 2; default: return 3; } }", "enum|switch"),
            ("uint @() { return (uint)Hi; }", "enum|uint-underlying"),
            ("int @() { return (int)Color::Green + (int)Red; }", "enum|scoped-name"),
        ],
    );
    // static const folded into literals / array sizes / static globals mutated across calls
    sp(
        "static const int K = 7;\nstatic const float FK = 0.1;\nstatic const uint UK = 4000000000u;\nstatic const int NEG = -5;\nstatic const int K2 = K * 2 + 1;\nstatic const bool BK = true;\nstatic int counter = 0;\nstatic float facc = 1.5f;\nstatic int3 gv = int3(1, 2, 3);\nstatic int garr[3] = { 4, 5, 6 };\nint bump() { return ++counter; }\nvoid addf(float x) { facc += x; }\n",
        vec![
            ("int @(int a) { return a + K; }", "static-const|int"),
            ("float @(float a) { return a * FK; }", "static-const|float"),
            ("uint @(uint a) { return a + UK; }", "static-const|uint"),
            ("int @(int a) { return a * NEG + K2; }", "static-const|expression"),
            ("int @(int a) { int arr[K]; for (int i = 0; i < K; i++) arr[i] = i * a; return arr[K - 1]; }", "static-const|array-size"),
            ("int @(int a) { return BK ? a : -a; }", "static-const|bool"),
            ("int @(int a) { bump(); bump(); return bump() + a; }", "static-global|mutated-across-calls"),
            ("float @(float a) { addf(a); addf(a); return facc; }", "static-global|float"),
            ("int @(int a) { counter += a; int r = counter; counter = r * 2; return bump(); }", "static-global|direct"),
            ("int @(int a) { gv.y += a; gv.xz = gv.zx; return gv.x * 100 + gv.y * 10 + gv.z; }", "static-global|vector"),
            ("int @(int a) { garr[1] += a; garr[2] = garr[0] * garr[1]; return garr[2]; }", "static-global|array"),
        ],
    );
    // arrays
    sp(
        "struct E2 { int a; int b[2]; };\n",
        vec![
            ("int @(int a) { int x[3] = { 1, 2, 3 }; x[1] = a; return x[0] * 100 + x[1] * 10 + x[2]; }", "array|init-store"),
            ("int @(int a) { int x[4]; for (int i = 0; i < 4; i++) x[i] = a + i; int s = 0; for (int j = 3; j >= 0; j--) s = s * 3 + x[j]; return s; }", "array|loop"),
            ("float @(float a) { float x[2] = { a, a * 2.0f }; x[0] += x[1]; return x[0]; }", "array|float"),
            ("int @(int a) { int x[3] = { a, a + 1, a + 2 }; int i = 0; x[i++] = 9; x[i] += 1; return x[0] * 100 + x[1] * 10 + x[2] + i; }", "array|index-side-effect"),
            ("int @(int a) { int2 x[2] = { int2(1, 2), int2(3, 4) }; x[1].y = a; return x[0].x + x[0].y * 10 + x[1].x * 100 + x[1].y * 1000; }", "array|of-vectors"),
            ("int @(int a) { E2 e; e.a = a; e.b[0] = 1; e.b[1] = 2; e.b[a & 1] += 5; return e.a * 100 + e.b[0] * 10 + e.b[1]; }", "array|in-struct"),
            ("int @(int a) { int x[2][3]; for (int i = 0; i < 2; i++) for (int j = 0; j < 3; j++) x[i][j] = i * 10 + j + a; return x[1][2] * 100 + x[0][1]; }", "array|two-dimensional"),
            ("int @(uint a) { int x[4] = { 1, 2, 3, 4 }; return x[a & 3u]; }", "array|uint-index"),
        ],
    );
    // out / inout parameters including aliasing in the unambiguous form
    sp(
        "void o1(int a, out int b) { b = 5; b = b + a; }\nvoid o2(inout int a, int b) { a += b; a *= 2; }\nvoid o3(out float x, out int y, int z) { y = z + 1; x = y * 0.5f; }\nvoid sw(inout int a, inout int b) { int t = a; a = b; b = t; }\nint o4(int a, out int b) { b = a * 2; return a + 1; }\nvoid of(out float f, int a) { f = a; }\nvoid ov3(inout int3 v) { v.x += 1; v.yz = v.zy; }\nvoid oi(out int i, float f) { i = (int)f; }\n",
        vec![
            ("int @(int x) { int y; o1(x, y); return y; }", "out-param|basic"),
            ("int @(int x) { o1(x, x); return x; }", "out-param|alias-in-out"),
            ("int @(int x, int y) { o2(x, y); o2(y, x); return x * 1000 + y; }", "out-param|inout"),
            ("int @(int x) { o2(x, x); return x; }", "out-param|alias-inout-in"),
            ("float @(int z) { float x; int y; o3(x, y, z); return x + y; }", "out-param|two-outs"),
            ("int @(int a, int b) { sw(a, b); return a * 1000 + b; }", "out-param|swap"),
            ("int @(int a) { int b; int r = o4(a, b); return r * 100 + b; }", "out-param|with-return"),
            ("int @(int a) { int y; o1(a, y); o1(y, y); return y; }", "out-param|chained-alias"),
            ("int @(int3 v) { o1(v.x, v.y); return v.x * 100 + v.y * 10 + v.z; }", "out-param|swizzle-argument"),
            ("int @(int a) { int arr[2] = { a, 0 }; o1(arr[0], arr[1]); return arr[0] * 100 + arr[1]; }", "out-param|array-element"),
            ("int3 @(int3 v) { ov3(v); return v; }", "out-param|vector-inout"),
            ("int @(inout int a, out int b) { b = a; a = a + 1; return a + b; }", "out-param|entry-out"),
        ],
    );
    // forward declarations, struct parameters / returns, array parameters, typedef, template value parameters
    sp(
        "int later(int x);\nint early(int a) { return later(a) * 2; }\nint later(int x) { return x + 1; }\n",
        vec![("int @(int a) { return early(a) + later(a); }", "forward-declaration")],
    );
    sp(
        "struct P { int x; float y; int get() { return x; } };\nP make(int a, float b) { P p; p.x = a; p.y = b; return p; }\nint use(P p) { return p.x * 2; }\nvoid fill(out P p, int a) { p.x = a; p.y = a * 0.5f; }\nvoid grow(inout P p) { p.x += 1; p.y += 1.0f; }\nint ovs(P p) { return 1; }\nint ovs(int p) { return 2; }\n",
        vec![
            ("float @(int a, float b) { P p = make(a, b); return p.x + p.y; }", "struct|returned"),
            ("int @(int a) { return make(a, 0.0f).get() + make(a, 1.0f).x; }", "struct|member-of-call-result"),
            ("int @(int a) { P p; p.x = a; p.y = 0.0f; return use(p) + p.x; }", "struct|by-value-parameter"),
            ("float @(int a) { P p; fill(p, a); grow(p); return p.x + p.y; }", "struct|out-inout-parameter"),
            ("int @(int a) { P p; p.x = a; p.y = 0.0f; return ovs(p) * 10 + ovs(a); }", "struct|overload"),
            ("P @(int a) { P p; p.x = a; p.y = 2.5f; return p; }", "struct|entry-returns-struct"),
        ],
    );
    sp(
        "int sum3(int v[3]) { return v[0] + v[1] * 10 + v[2] * 100; }\nvoid fill3(out int v[3], int a) { v[0] = a; v[1] = a + 1; v[2] = a + 2; }\nvoid bump3(inout int v[3]) { for (int i = 0; i < 3; i++) v[i] *= 2; }\n",
        vec![
            ("int @(int a) { int v[3] = { a, 2, 3 }; return sum3(v); }", "array|by-value-parameter"),
            ("int @(int a) { int v[3]; fill3(v, a); bump3(v); return sum3(v); }", "array|out-inout-parameter"),
        ],
    );
    sp("typedef int MyInt;\ntypedef float3 V3;\nMyInt tdf(MyInt a) { MyInt b = a + 1; return b; }\n", vec![("int @(int a) { V3 v = V3(a, 1, 2); MyInt r = tdf(a); return r + (int)v.x; }", "typedef")]);
    sp(
        "template<int N> int addn(int x) { return x + N; }\ntemplate<typename T, int N> T muln(T x) { return x * N; }\n",
        vec![("int @(int a) { return addn<3>(a) * 100 + addn<7>(a); }", "template|value-parameter"), ("float @(int a, float b) { return muln<int, 2>(a) + muln<float, 3>(b); }", "template|type-and-value-parameter")],
    );
    sp(
        "static int MG = 4;\nint freeg(int x) { MG += x; return MG; }\nstruct M { int v; int f(int a) { return v + a; } int f(float a) { return v - (int)a; } void g(out int o) { o = v * 2; } int h(int a = 5) { return v * a; } int inner(int a) { MG += a; return v + MG; } int outer(int a) { return inner(a) * 2 + freeg(1); } void poke() { v += freeg(v); } };\nnamespace N { struct W { int k; int twice() { return k * 2; } }; int dn(int a, int b = 2) { return a * b; } int dn(float a) { return 7; } }\n",
        vec![
            ("int @(int a) { M m; m.v = a; return m.f(1) * 100 + m.f(1.0f); }", "method|overload"),
            ("int @(int a) { M m; m.v = a; return m.outer(3) * 1000 + MG; }", "method|internal-call-touching-global"),
            ("int @(int a) { M m; m.v = a; m.poke(); m.poke(); return m.v * 1000 + MG; }", "method|writing-global"),
            ("int @(int a) { M m; m.v = a; int o; m.g(o); return o; }", "method|out-parameter"),
            ("int @(int a) { M m; m.v = a; return m.h() * 10 + m.h(2); }", "method|default-argument"),
            ("int @(int a) { N::W w; w.k = a; return w.twice(); }", "method|struct-in-namespace"),
            ("int @(int a) { return N::dn(a) * 100 + N::dn(a, 3) * 10 + N::dn(1.5f); }", "overload|with-default-argument"),
        ],
    );
    sp(
        "enum Idx { First = 0, Second = 1, Third = 2 };\n",
        vec![("int @(int a) { int arr[3] = { 10, 20, 30 }; arr[Second] += a; return arr[First] + arr[Second] + arr[Third]; }", "enum|array-index"), ("int @(int a) { Idx i = Third; return (int)i * a + (i == Third ? 1 : 0) + (i != First ? 10 : 0) + (i > First ? 100 : 0); }", "enum|compare")],
    );
    sp(
        "int3 id3(int3 v) { return v; }\nfloat4 mk4(float a) { return float4(a, a + 1.0f, a + 2.0f, a + 3.0f); }\n",
        vec![("int2 @(int3 v) { return id3(v).zx; }", "swizzle|of-call-result"), ("float @(float a) { return mk4(a).w + mk4(a)[1]; }", "swizzle|subscript-of-call-result"), ("float2 @(float a) { return (mk4(a) * 2.0f).yx; }", "swizzle|of-parenthesised-expression"), ("float @(float4 v) { return (v + 1.0f).x; }", "swizzle|of-sum")],
    );
    // intrinsics (S11)
    sp(
        "",
        vec![
            ("float @(float a, float b) { return min(a, b) + max(a, b) * 2.0f; }", "intrinsic|min-max"),
            ("int @(int a, int b) { return min(a, b) * 3 + max(a, b) + abs(a); }", "intrinsic|int-min-max-abs"),
            ("float @(float a) { return clamp(a, 0.25f, 2.0f) + saturate(a); }", "intrinsic|clamp-saturate"),
            ("float @(float a) { return floor(a) + ceil(a) * 2.0f + trunc(a) * 4.0f + frac(a); }", "intrinsic|floor-ceil-trunc-frac"),
            ("float @(float a) { return round(a); }", "intrinsic|round"),
            ("float3 @(float3 a) { return round(a * 0.5f); }", "intrinsic|round"),
            ("float @(float a, float b) { return lerp(a, b, 0.25f) + step(a, b); }", "intrinsic|lerp-step"),
            ("float @(float3 a, float3 b) { return dot(a, b) + length(a) + distance(a, b); }", "intrinsic|dot-length"),
            ("float3 @(float3 a, float3 b) { return cross(a, b) + normalize(b); }", "intrinsic|cross-normalize"),
            ("bool @(int3 a) { return any(a) && !all(a); }", "intrinsic|any-all"),
            ("uint @(uint a) { return countbits(a) + reversebits(a) + firstbithigh(a) * 3u + firstbitlow(a) * 5u; }", "intrinsic|bits"),
            ("int @(float a) { return asint(a) ^ (int)asuint(a); }", "intrinsic|asint-asuint"),
            ("float @(uint a) { return asfloat(a & 0x3fffffffu); }", "intrinsic|asfloat"),
            ("float @(uint a) { return f16tof32(a); }", "intrinsic|f16tof32"),
            ("uint @(float a) { return f32tof16(a); }", "intrinsic|f32tof16"),
            ("int @(float a, int b) { return sign(a) * 10 + sign(b); }", "intrinsic|sign"),
            ("float @(float a) { return sqrt(a) + rsqrt(a) + rcp(a); }", "intrinsic|sqrt-rcp"),
            ("float @(float a) { return sin(a) + cos(a) + exp(a) + log(a) + pow(a, 2.0f); }", "intrinsic|transcendental"),
            ("float @(float a, float b) { return fmod(a, b) + atan2(a, b); }", "intrinsic|fmod-atan2"),
            ("bool @(float a) { return isnan(a) || isinf(a) || !isfinite(a); }", "intrinsic|classify"),
            ("float @(int a, float b) { return min(a, b) + max(b, a); }", "intrinsic|mixed-min-max"),
            ("int3 @(bool3 c, int3 a, int3 b) { return select(c, a, b); }", "intrinsic|select"),
            ("bool3 @(bool3 a, bool3 b) { return and(a, b) == or(a, b); }", "intrinsic|and-or"),
            ("float @(half a) { return abs(a) + min(a, 1.0h); }", "intrinsic|half-arguments"),
            ("float @(float a) { return smoothstep(0.0f, 2.0f, a) + reflect(a, 1.0f); }", "intrinsic|smoothstep-reflect"),
        ],
    );
    // swizzles and vector subscripts, l-value and r-value
    let mut swz: Vec<(String, String)> = Vec::new();
    for t in ["int", "float", "uint", "bool", "half", "double"] {
        for (sw, n) in [("x", 1), ("y", 1), ("w", 1), ("xy", 2), ("yx", 2), ("xyz", 3), ("zyx", 3), ("wzyx", 4), ("xxyy", 4), ("xw", 2), ("rgba", 4), ("bgr", 3)] {
            let rt = if n == 1 { t.to_string() } else { format!("{}{}", t, n) };
            swz.push((format!("{rt} @({t}4 v) {{ return v.{sw}; }}"), format!("swizzle|read|{sw}")));
            let distinct = sw.chars().all(|c| sw.matches(c).count() == 1);
            if distinct {
                swz.push((format!("{t}4 @({t}4 v, {rt} s) {{ v.{sw} = s; return v; }}"), format!("swizzle|write|{sw}")));
                if t != "bool" {
                    swz.push((format!("{t}4 @({t}4 v, {rt} s) {{ v.{sw} += s; return v; }}"), format!("swizzle|compound|{sw}")));
                    swz.push((format!("{t}4 @({t}4 v) {{ v.{sw}++; return v; }}"), format!("swizzle|increment|{sw}")));
                }
            }
        }
        swz.push((format!("{t} @({t} s) {{ return s.x; }}"), "swizzle|scalar|x".into()));
        swz.push((format!("{t}3 @({t} s) {{ return s.xxx; }}"), "swizzle|scalar|xxx".into()));
        swz.push((format!("{t}2 @({t}4 v) {{ return v.wzyx.xy; }}"), "swizzle|chained".into()));
        swz.push((format!("{t}4 @({t}4 v, {t}2 s) {{ v.wzyx.xy = s; return v; }}"), "swizzle|chained-write".into()));
        swz.push((format!("{t} @({t}4 v, int i) {{ return v[i & 3]; }}"), "swizzle|subscript-read".into()));
        swz.push((format!("{t}4 @({t}4 v, int i, {t} s) {{ v[i & 3] = s; return v; }}"), "swizzle|subscript-write".into()));
        swz.push((format!("{t} @({t}4 v) {{ return v.zw[1]; }}"), "swizzle|subscript-of-swizzle".into()));
        swz.push((format!("{t}4 @({t} a, {t} b) {{ return {t}4(a, b, a, b); }}"), "constructor|4-scalars".into()));
        swz.push((format!("{t}4 @({t}2 a, {t} b) {{ return {t}4(a, b, b); }}"), "constructor|vec2-scalars".into()));
        swz.push((format!("{t}4 @({t}3 a, {t} b) {{ return {t}4(b, a); }}"), "constructor|scalar-vec3".into()));
        swz.push((format!("{t}3 @({t}2 a, {t}2 b) {{ return {t}3(a.y, b); }}"), "constructor|swizzle-vec2".into()));
        swz.push((format!("{t}4 @(int a, float b) {{ return {t}4(a, b, 1, 2.5); }}"), "constructor|converting".into()));
        swz.push((format!("{t}2 @({t}4 v) {{ return ({t}2)v; }}"), "constructor|truncating-cast".into()));
        swz.push((format!("{t}3 @({t} s) {{ return ({t}3)s; }}"), "constructor|splat-cast".into()));
        swz.push((format!("{t}3 @({t} s) {{ {t}3 v = s; return v; }}"), "constructor|implicit-splat".into()));
    }
    v.push(DeclSpace { prelude: String::new(), cases: swz.into_iter().map(|(s, t)| case(s, format!("decl|{}", t))).collect() });
    v
}

// ---------------------------------------------------------------------------------------------
// literals (boundary list): a literal whose value changes on export is seen as a changed result

fn gen_literals() -> Vec<Case> {
    let mut out = Vec::new();
    let ints = ["0", "1", "7", "255", "256", "65535", "65536", "16777216", "16777217", "2147483647", "2147483648", "4294967295", "0x7fffffff", "0x80000000", "0xffffffff", "0x10", "010", "1000000007"];
    let uints = ["0u", "1u", "2147483647u", "2147483648u", "4294967295u", "0xffffffffu", "3000000000U"];
    let floats = [
        "0.0", "1.0", "0.5", "0.1", "0.2", "0.3", "1e-3", "1.5e3", "3.4e38", "3.4028235e38", "1.17549435e-38", "1e-45", "1.4e-45", "1e-40", "16777216.0", "16777217.0", "0.0031308", "0.055", "12.92", "2.4", "1e10", "123456789.0", "0.333333333333", "3.14159265358979", "2.718281828", "1e-7", "65504.0", "65520.0",
        "0.00006103515625", "5.96e-8", "1e38", "9.999999e-39", "4294967296.0", "2147483648.0", "0.1e1", "1.e2", "100.", "1e+2", "1E2",
    ];
    for l in ints {
        out.push(case(format!("int @() {{ return {l}; }}"), "literal|IntUntyped".into()));
        out.push(case(format!("uint @() {{ return {l}; }}"), "literal|IntUntyped->uint".into()));
        out.push(case(format!("float @() {{ return {l}; }}"), "literal|IntUntyped->float".into()));
        out.push(case(format!("int @(int a) {{ return a + {l}; }}"), "literal|IntUntyped|operand".into()));
        out.push(case(format!("uint @(uint a) {{ return a ^ {l}; }}"), "literal|IntUntyped|uint-operand".into()));
        out.push(case(format!("float @(float a) {{ return a * {l}; }}"), "literal|IntUntyped|float-operand".into()));
        out.push(case(format!("int @() {{ return -{l}; }}"), "literal|IntUntyped|negated".into()));
        out.push(case(format!("bool @(int a) {{ return a < {l}; }}"), "literal|IntUntyped|compare".into()));
    }
    for l in uints {
        out.push(case(format!("uint @() {{ return {l}; }}"), "literal|UInt32".into()));
        out.push(case(format!("int @() {{ return {l}; }}"), "literal|UInt32->int".into()));
        out.push(case(format!("float @() {{ return {l}; }}"), "literal|UInt32->float".into()));
        out.push(case(format!("uint @(uint a) {{ return a + {l}; }}"), "literal|UInt32|operand".into()));
        out.push(case(format!("bool @(int a) {{ return a < {l}; }}"), "literal|UInt32|int-compare".into()));
        out.push(case(format!("uint @(int a) {{ return a >> 1 | {l}; }}"), "literal|UInt32|mixed".into()));
    }
    for l in floats {
        for (suffix, ty, kind) in [("", "float", "FloatUntyped"), ("f", "float", "Float32"), ("h", "half", "Float16"), ("L", "double", "Float64")] {
            out.push(case(format!("{ty} @() {{ return {l}{suffix}; }}"), format!("literal|{kind}")));
            out.push(case(format!("{ty} @({ty} a) {{ return a * {l}{suffix}; }}"), format!("literal|{kind}|operand")));
            out.push(case(format!("{ty} @() {{ return -{l}{suffix}; }}"), format!("literal|{kind}|negated")));
            out.push(case(format!("double @() {{ return {l}{suffix}; }}"), format!("literal|{kind}->double")));
            out.push(case(format!("bool @(float a) {{ return a < {l}{suffix}; }}"), format!("literal|{kind}|compare")));
        }
        out.push(case(format!("int @() {{ return {l}; }}"), "literal|FloatUntyped->int".into()));
        out.push(case(format!("int @(int a) {{ return a * {l}; }}"), "literal|FloatUntyped|int-operand".into()));
        out.push(case(format!("float @(int a) {{ return a * {l}; }}"), "literal|FloatUntyped|int-operand-float-result".into()));
        out.push(case(format!("float @(uint a) {{ return a + {l}f; }}"), "literal|Float32|uint-operand".into()));
        out.push(case(format!("int @(int a) {{ return a / (int){l}f; }}"), "literal|Float32|cast-to-int-operand".into()));
        out.push(case(format!("float @(bool c) {{ return c ? {l} : 1; }}"), "literal|FloatUntyped|ternary-with-int".into()));
        out.push(case(format!("float @(bool c, int a) {{ return c ? a : {l}; }}"), "literal|FloatUntyped|ternary-with-int-var".into()));
    }
    for l in ["true", "false"] {
        out.push(case(format!("bool @() {{ return {l}; }}"), "literal|Bool".into()));
        out.push(case(format!("int @(int a) {{ return a + {l}; }}"), "literal|Bool|int-operand".into()));
        out.push(case(format!("float @(float a) {{ return a * {l}; }}"), "literal|Bool|float-operand".into()));
        out.push(case(format!("int @(bool b) {{ return b + 1; }}"), "literal|IntUntyped|bool-operand".into()));
        out.push(case(format!("int @() {{ return {l} + 1; }}"), "literal|Bool|literal-operand".into()));
    }
    // negative zero and pure-literal arithmetic
    for (e, tag) in [
        ("-0.0", "negative-zero"),
        ("-0.0f", "negative-zero-f32"),
        ("0.0 * -1.0", "negative-zero-product"),
        ("1.0 / 3.0", "literal-division"),
        ("0.1 + 0.2", "literal-sum"),
        ("1 + 2 * 3", "int-literal-arithmetic"),
        ("7 / 2", "int-literal-division"),
        ("-7 / 2", "negative-int-literal-division"),
        ("-7 % 3", "negative-int-literal-modulus"),
        ("1 << 4", "int-literal-shift"),
        ("7 / 2 * 2.0", "int-then-float-literal"),
        ("1 / 2 + 0.5", "int-division-then-float"),
        ("3 > 2", "literal-compare"),
        ("(3 > 2) + 1", "literal-compare-plus"),
        ("2.5 > 2", "mixed-literal-compare"),
        ("~0", "literal-bitnot"),
        ("!0", "literal-not"),
        ("-(-1)", "literal-double-negation"),
        ("1.5f * 2", "float-times-int-literal"),
        ("1.5h * 2", "half-times-int-literal"),
        ("1.5 * 2u", "float-literal-times-uint"),
        ("1u - 2", "uint-minus-int-literal"),
        ("1u - 2 > 0", "uint-wrap-compare"),
        ("-1 > 0u", "int-literal-vs-uint-compare"),
    ] {
        for ty in ["int", "uint", "float", "double", "half", "bool"] {
            out.push(case(format!("{ty} @() {{ return {e}; }}"), format!("literal|{tag}")));
        }
        out.push(case(format!("float @(float a) {{ return a + ({e}); }}"), format!("literal|{tag}|float-operand")));
        out.push(case(format!("int @(int a) {{ return a + ({e}); }}"), format!("literal|{tag}|int-operand")));
    }
    out
}

// ---------------------------------------------------------------------------------------------
// depth-1 extras: const / r-value / literal operands

fn gen_depth1_operand_forms(types: &[String]) -> Vec<Case> {
    let mut out = Vec::new();
    let lits = [("true", "Bool"), ("3", "IntUntyped"), ("3u", "UInt32"), ("1.5h", "Float16"), ("1.5f", "Float32"), ("1.5", "FloatUntyped"), ("1.5L", "Float64"), ("0", "IntUntyped"), ("0.0", "FloatUntyped")];
    for (name, sp) in BIN_OPS {
        for a in types {
            for (l, kind) in lits {
                let lt = match kind {
                    "Bool" => "bool",
                    "IntUntyped" => "int",
                    "UInt32" => "uint",
                    "Float16" => "half",
                    "Float64" => "double",
                    _ => "float",
                };
                let r = join_type(a, lt, if is_compare(name) { Some("bool") } else { None });
                out.push(case(format!("{r} @({a} a) {{ return a {sp} {l}; }}"), format!("expr|{name}|literal-{kind}")));
                out.push(case(format!("{r} @({a} a) {{ return {l} {sp} a; }}"), format!("expr|{name}|literal-{kind}")));
            }
            for b in types {
                if split_type(a).1 != split_type(b).1 {
                    continue;
                }
                let r = join_type(a, b, if is_compare(name) { Some("bool") } else { None });
                out.push(case(format!("{r} @({a} a, {b} b) {{ const {a} c = a; const {b} d = b; return c {sp} d; }}"), format!("expr|{name}|const-operands")));
                out.push(case(format!("{r} @({a} a, {b} b) {{ return ({a})a {sp} (b, b); }}"), format!("expr|{name}|rvalue-operands")));
            }
        }
    }
    for (name, sp) in ASSIGN_OPS {
        for a in types {
            for (l, kind) in lits {
                out.push(case(format!("{a} @(inout {a} a) {{ return a {sp} {l}; }}"), format!("expr|{name}|literal-{kind}")));
            }
        }
    }
    for (l, kind) in lits {
        for (name, sp, lv) in UN_OPS {
            if lv {
                continue;
            }
            for r in ["int", "float", "bool", "uint"] {
                out.push(case(format!("{r} @() {{ return {}; }}", sp.replace('#', l)), format!("expr|{name}|literal-{kind}")));
            }
        }
        for b in types {
            out.push(case(format!("{b} @() {{ return ({b}){l}; }}"), format!("cast|literal-{kind}->{b}")));
            out.push(case(format!("{b} @() {{ {b} r = {l}; return r; }}"), format!("cast|literal-{kind}->{b}")));
        }
    }
    out
}


// ---------------------------------------------------------------------------------------------
// small whole programs (one prelude per program): global / reference aliasing, syntactic positions of global uses and
// of calls, scalar-to-struct casts. Shared with C02, where they exercise trampolines, implicit global parameters and
// the braced-list form of struct casts.

/// a static global passed as the out / inout argument of a function that touches the same global itself
fn global_alias_programs() -> Vec<Space> {
    let mut out = Vec::new();
    let globals = "static int g = 1;\nstatic int h = 5;\nstatic int3 gv = int3(1, 2, 3);\nstatic int ga[2] = { 1, 2 };\nstruct GS { int m; int n; };\nstatic GS gs = { 1, 2 };\nvoid poke() { g += 100; }\nint peek() { return g * 2; }\n";
    // (name, argument expression naming the global object, statement by which the callee touches the same object, read-back)
    let touches: [(&str, &str, &str, &str); 7] = [
        ("scalar-write", "g", "g += 10;", "g"),
        ("scalar-through-callee", "g", "poke();", "g"),
        ("scalar-read-through-callee", "g", "r += peek();", "g"),
        ("scalar-read", "g", "r += g * 3;", "g"),
        ("vector-component", "gv.x", "gv.x += 10; gv.y += 1;", "gv.x"),
        ("array-element", "ga[1]", "ga[1] += 10;", "ga[1]"),
        ("struct-member", "gs.m", "gs.m += 10;", "gs.m"),
    ];
    let modes = ["out", "inout"];
    for k in 1..=3usize {
        for code in 0..2usize.pow(k as u32) {
            let ms: Vec<usize> = (0..k).map(|i| code >> i & 1).collect();
            let mname: String = ms.iter().map(|m| modes[*m]).collect::<Vec<_>>().join(",");
            for (tname, garg, touch, readback) in touches {
                let params: Vec<String> = ms.iter().enumerate().map(|(i, m)| format!("{} int p{}", modes[*m], i)).collect();
                let mut body = String::from("int r = 0; ");
                for (i, m) in ms.iter().enumerate() {
                    if *m == 0 {
                        body.push_str(&format!("p{} = {}; ", i, i + 2));
                    } else {
                        body.push_str(&format!("p{} += {}; ", i, i + 2));
                    }
                }
                body.push_str(touch);
                body.push_str(&format!(" r += {}; ", readback));
                for i in 0..k {
                    body.push_str(&format!("p{} = p{} * 2 + 1; ", i, i));
                }
                body.push_str(&format!("r = r * 10 + {}; return r;", readback));
                let prelude = format!("{}int callee({}) {{ {} }}\n", globals, params.join(", "), body);
                let mut cases = Vec::new();
                for pos in 0..k {
                    let args: Vec<String> = (0..k).map(|q| if q == pos { garg.to_string() } else { format!("v{}", q) }).collect();
                    let decls: String = (0..k).filter(|q| *q != pos).map(|q| format!("int v{} = a + {}; ", q, q)).collect();
                    let obs: String = (0..k).filter(|q| *q != pos).map(|q| format!(" + v{} * {}", q, q * 4 + 3)).collect();
                    cases.push(Case { src: format!("int @(int a) {{ {}int r = callee({}); return r * 1000 + {}{}; }}", decls, args.join(", "), readback, obs), tag: format!("decl|global-alias|{}-refs", k) });
                }
                // the other global in the remaining reference positions as well (two different globals, still unambiguous)
                if k >= 2 {
                    let args: Vec<String> = (0..k).map(|q| if q == 0 { garg.to_string() } else if q == 1 { "h".to_string() } else { format!("v{}", q) }).collect();
                    let decls: String = (2..k).map(|q| format!("int v{} = a + {}; ", q, q)).collect();
                    cases.push(Case { src: format!("int @(int a) {{ {}int r = callee({}); return r * 1000 + {} + h * 7 + a; }}", decls, args.join(", "), readback), tag: format!("decl|global-alias|{}-refs", k) });
                }
                out.push(Space { name: format!("global_alias_{}_{}", mname, tname), prelude, cases });
            }
        }
    }
    out
}

/// syntactic positions in which a function can mention a global (or call a function that needs one): (name, statements, return expression)
fn use_positions(lvalue: bool) -> Vec<(&'static str, &'static str, &'static str)> {
    let mut v = vec![
        ("statement", "r += $E;", "r"),
        ("array-index", "r += t[$E & 3];", "r"),
        ("array-index-store", "t[$E & 3] = x; r += t[0] + t[1] * 2 + t[2] * 3 + t[3] * 4;", "r"),
        ("nested-array-index", "r += t[t[$E & 3] & 3];", "r"),
        ("call-argument", "r += idf($E);", "r"),
        ("if-condition", "if ($E > 2) r += 1;", "r"),
        ("while-condition", "int n = 0; while (n < 3 && $E > n) { n++; } r += n;", "r"),
        ("for-init", "int i; for (i = $E & 3; i < 4; i++) r += i + 1;", "r"),
        ("for-init-declaration", "for (int i = $E & 3; i < 4; i++) r += i + 1;", "r"),
        ("for-condition", "for (int i = 0; i < ($E & 3); i++) r += i + 1;", "r"),
        ("for-increment", "for (int i = 0; i < 3; i += 1 + ($E & 1)) r += 1;", "r"),
        ("do-condition", "int n = 0; do { n++; } while (n < ($E & 3)); r += n;", "r"),
        ("switch-selector", "switch ($E & 1) { case 0: r += 5; break; default: r += 7; break; }", "r"),
        ("ternary-condition", "r += $E > 2 ? 1 : 2;", "r"),
        ("ternary-arm", "r += x > 0 ? $E : 1;", "r"),
        ("initializer", "int q = $E; r += q;", "r"),
        ("aggregate-initializer", "int q[2] = { $E, 1 }; r += q[0] * 2 + q[1];", "r"),
        ("return", "r += 1;", "r + $E"),
        ("cast-operand", "r += (int)(float)($E & 255);", "r"),
        ("unary-operand", "r -= -$E;", "r"),
        ("compound-assignment-right", "r ^= $E;", "r"),
        ("short-circuit-right", "if (x > 100 || $E > 1) r += 3;", "r"),
        ("comma-right", "r += (x, $E);", "r"),
        ("constructor-argument", "r += int3($E, 2, 3).x;", "r"),
        ("binary-operand-in-index-of-vector", "int4 w = int4(1, 2, 3, 4); r += w[$E & 3];", "r"),
        ("default-argument-caller", "r += dflt(x, $E);", "r"),
    ];
    if lvalue {
        v.extend([
            ("out-argument", "setv($E); r += 1;", "r"),
            ("inout-argument", "addv($E); r += 1;", "r"),
            ("increment-in-index", "r += t[($E++) & 3];", "r"),
            ("assignment-left", "$E = x + 4; r += 1;", "r"),
            ("compound-assignment-left", "$E += x; r += 1;", "r"),
        ]);
    }
    v
}

const POSITION_HELPERS: &str = "int idf(int v) { return v + 1; }\nvoid setv(out int o) { o = 9; }\nvoid addv(inout int o) { o += 3; }\nint dflt(int a, int b = 4) { return a * 2 + b; }\n";

fn position_function(name: &str, pos: &(&str, &str, &str), e: &str, extra: &str) -> String {
    format!("int {}(int x) {{ int t[4] = {{ 1, 2, 3, 4 }}; int r = x; {} {} return {}; }}\n", name, pos.1.replace("$E", e), extra, pos.2.replace("$E", e))
}

/// call graphs over three functions in which one function touches a global (or calls its callee) only at one syntactic position
fn position_programs(thorough: bool) -> Vec<Space> {
    let mut out = Vec::new();
    let wrappers = |tag: &str| -> Vec<Case> { (0..3).map(|k| Case { src: format!("int @(int x) {{ return c{}(x); }}", k), tag: tag.to_string() }).collect() };
    let gpos = use_positions(true);
    let cpos = use_positions(false);
    // A: c0 mentions GA only at position p; c1 / c2 reach it through every DAG over the three functions
    for p in &gpos {
        let second: Vec<Option<&(&str, &str, &str)>> = if thorough { std::iter::once(None).chain(gpos.iter().map(Some)).collect() } else { vec![None, Some(&gpos[0])] };
        for q in &second {
            for edges in 0..8u32 {
                let mut prelude = String::from("static int GA = 1;\nstatic int GB = 2;\n");
                prelude.push_str(POSITION_HELPERS);
                prelude.push_str(&position_function("c0", p, "GA", ""));
                let c1_calls = if edges & 1 == 1 { "r = r * 3 + c0(x + 1);" } else { "" };
                match q {
                    Some(q) => prelude.push_str(&position_function("c1", q, "GB", c1_calls)),
                    None => prelude.push_str(&format!("int c1(int x) {{ int r = x; {} return r; }}\n", c1_calls)),
                }
                let mut c2 = String::new();
                if edges & 2 == 2 {
                    c2.push_str(" r = r * 3 + c0(x + 2);");
                }
                if edges & 4 == 4 {
                    c2.push_str(" r = r * 5 + c1(x + 3);");
                }
                prelude.push_str(&format!("int c2(int x) {{ int r = x;{} return r; }}\n", c2));
                out.push(Space { name: format!("gpos_{}_{}_{}", p.0, q.map(|q| q.0).unwrap_or("none"), edges), prelude, cases: wrappers(&format!("decl|global-position|{}", p.0)) });
            }
        }
    }
    // other kinds of global objects: the position is the base of a swizzle / member / subscript / method call
    for (name, decl, stmt) in [
        ("swizzle-base", "static int3 GV = int3(1, 2, 3);\n", "r += GV.y; GV.x += x;"),
        ("swizzle-base-in-index", "static int3 GV = int3(1, 2, 3);\n", "r += t[GV.y & 3];"),
        ("member-base", "struct PS { int m; int n; int get() { return m * 2 + n; } };\nstatic PS GS = { 1, 2 };\n", "r += GS.m; GS.n += x;"),
        ("member-base-in-index", "struct PS { int m; int n; int get() { return m * 2 + n; } };\nstatic PS GS = { 1, 2 };\n", "r += t[GS.n & 3];"),
        ("method-object", "struct PS { int m; int n; int get() { return m * 2 + n; } };\nstatic PS GS = { 1, 2 };\n", "r += GS.get();"),
        ("method-object-in-index", "struct PS { int m; int n; int get() { return m * 2 + n; } };\nstatic PS GS = { 1, 2 };\n", "r += t[GS.get() & 3];"),
        ("subscript-base", "static int GR[4] = { 5, 6, 7, 8 };\n", "r += GR[x & 3]; GR[1] += 1;"),
        ("subscript-base-and-index", "static int GR[4] = { 1, 2, 3, 0 };\n", "r += GR[GR[x & 3]];"),
        ("index-of-local-array-of-arrays", "static int GI = 1;\n", "int m[2][2] = { { 1, 2 }, { 3, 4 } }; r += m[GI & 1][x & 1] + m[x & 1][GI & 1];"),
        ("default-argument-of-callee", "static int GD = 6;\nint dg(int a, int b = GD) { return a * 2 + b; }\n", "r += dg(x);"),
        ("global-initializer-of-global", "static int GX = 3;\nstatic int GY = GX + 1;\n", "r += GY;"),
    ] {
        for edges in 0..8u32 {
            let mut prelude = String::from(decl);
            prelude.push_str(&format!("int c0(int x) {{ int t[4] = {{ 1, 2, 3, 4 }}; int r = x; {} return r; }}\n", stmt));
            prelude.push_str(&format!("int c1(int x) {{ int r = x; {} return r; }}\n", if edges & 1 == 1 { "r = r * 3 + c0(x + 1);" } else { "" }));
            prelude.push_str(&format!("int c2(int x) {{ int r = x;{}{} return r; }}\n", if edges & 2 == 2 { " r = r * 3 + c0(x + 2);" } else { "" }, if edges & 4 == 4 { " r = r * 5 + c1(x + 3);" } else { "" }));
            out.push(Space { name: format!("gpos_{}_{}", name, edges), prelude, cases: wrappers(&format!("decl|global-position|{}", name)) });
        }
    }
    // B: c0 needs GA; c1 calls c0 only at position p; c2 calls c1 directly / at the same position / not at all
    for p in &cpos {
        for c2_form in 0..3 {
            for c1_touches in [false, true] {
                let mut prelude = String::from("static int GA = 1;\nstatic int GB = 2;\n");
                prelude.push_str(POSITION_HELPERS);
                prelude.push_str("int c0(int x) { GA += x + 1; return GA * 2 + x; }\n");
                prelude.push_str(&position_function("c1", p, "c0(x + 1)", if c1_touches { "GB += 3;" } else { "" }));
                match c2_form {
                    0 => prelude.push_str("int c2(int x) { int r = x; return r; }\n"),
                    1 => prelude.push_str("int c2(int x) { int r = x; r = r * 5 + c1(x + 3); return r; }\n"),
                    _ => prelude.push_str(&position_function("c2", p, "c1(x + 2)", "")),
                }
                out.push(Space { name: format!("cpos_{}_{}_{}", p.0, c2_form, c1_touches), prelude, cases: wrappers(&format!("decl|call-position|{}", p.0)) });
            }
        }
    }
    out
}

/// `(S)v`: a scalar cast to a struct gives every scalar slot the converted value; every member is checked
fn struct_cast_programs() -> Vec<Space> {
    let prelude = "struct A1 { int a; float b; uint c; bool d; };\nstruct A2 { int2 v; float3 w; };\nstruct A3 { A1 inner; int t; };\nstruct A4 { int arr[3]; int tail; };\nstruct A5 { int grid[2][3]; int tail; };\nstruct A6 { float cube[2][2][2]; uint z; };\nstruct A7 { A1 items[2]; int k; };\nstruct A8 { A5 cells[2]; float2 q; };\nstruct A9 { int2 vg[2][2]; int last; };\nstruct A10 { A3 deep[2][2]; half hh; int end; };\n";
    let mut cases = Vec::new();
    for (s, shape) in [
        ("A1", "scalar-members"),
        ("A2", "vector-members"),
        ("A3", "nested-struct"),
        ("A4", "array-1d"),
        ("A5", "array-2d"),
        ("A6", "array-3d"),
        ("A7", "array-of-structs"),
        ("A8", "array-of-structs-with-array-2d"),
        ("A9", "array-2d-of-vectors"),
        ("A10", "array-2d-of-nested-structs"),
    ] {
        for (pt, expr) in [("int", "v"), ("uint", "v"), ("float", "v"), ("bool", "v"), ("int", "v + 1"), ("int", "7"), ("int", "2.5f"), ("float", "-v")] {
            cases.push(Case { src: format!("{s} @({pt} v) {{ return ({s}){expr}; }}"), tag: format!("decl|struct-cast|{}", shape) });
            cases.push(Case { src: format!("{s} @({pt} v) {{ {s} r = ({s}){expr}; return r; }}"), tag: format!("decl|struct-cast|{}", shape) });
        }
    }
    // member-by-member observation for the array shapes
    cases.push(Case { src: "int @(int v) { A5 c = (A5)v; return c.grid[0][0] + c.grid[1][2] * 10 + c.tail * 100; }".into(), tag: "decl|struct-cast|member-read-back".into() });
    cases.push(Case { src: "float @(int v) { A6 c = (A6)v; return c.cube[1][1][1] + c.cube[0][1][0] * 10.0f + (float)c.z * 100.0f; }".into(), tag: "decl|struct-cast|member-read-back".into() });
    cases.push(Case { src: "int @(int v) { A8 c = (A8)v; return c.cells[1].grid[1][2] + c.cells[0].tail * 10 + (int)c.q.y * 100; }".into(), tag: "decl|struct-cast|member-read-back".into() });
    cases.push(Case { src: "int @(int v) { A10 c = (A10)v; return c.deep[1][1].inner.a + c.deep[0][1].t * 10 + c.end * 100 + (int)c.hh * 1000; }".into(), tag: "decl|struct-cast|member-read-back".into() });
    cases.push(Case { src: "int @(int v) { A7 c = (A7)v; c.items[1].a += 1; return c.items[1].a + c.items[0].c * 10u + c.k * 100; }".into(), tag: "decl|struct-cast|member-read-back".into() });
    vec![Space { name: "struct_casts".into(), prelude: prelude.into(), cases }]
}


/// locals / parameters named after words that are reserved in a target (so the exporter must rename them) next to
/// globals, functions and structs that are literally called `<word>_0` / `<word>_1` and are used in the same scope
fn reserved_name_programs() -> Vec<Space> {
    // reserved in HLSL (intrinsic names), in Metal (function / address-space qualifiers, C++ keywords), or in both
    let words = ["step", "lerp", "min", "sign", "length", "dst", "lit", "dot", "saturate", "kernel", "vertex", "fragment", "device", "constant", "thread", "threadgroup", "main", "ptrdiff_t", "short2", "uchar", "size_t", "not_eq"];
    let mut out = Vec::new();
    for w in words {
        for taken in 1..=2usize {
            // `taken` generated-looking names exist already: <w>_0 (and <w>_1)
            let others: String = (1..taken).map(|k| format!("static int {w}_{k} = {};\n", 50 + k)).collect();
            let other_use: String = (1..taken).map(|k| format!(" + {w}_{k}")).collect();
            let mut add = |kind: &str, prelude: String, cases: Vec<String>| {
                out.push(Space { name: format!("names_{}_{}_{}", w, kind, taken), prelude, cases: cases.into_iter().map(|c| Case { src: c, tag: format!("decl|reserved-name|{}", kind) }).collect() });
            };
            add(
                "static-global",
                format!("static int {w}_0 = 100;\n{others}"),
                vec![
                    format!("int @(int a) {{ int {w} = a; {w}_0 += {w}; return {w} + {w}_0{other_use}; }}"),
                    format!("int @(int {w}) {{ {w}_0 += {w}; return {w} + {w}_0 * 3{other_use}; }}"),
                    format!("int @(int a) {{ int r = 0; for (int {w} = 0; {w} < 3; {w}++) {{ {w}_0 += {w} + a; r += {w}_0; }} return r{other_use}; }}"),
                    format!("int @(int a) {{ {w}_0 += a; {{ int {w} = a * 2; {w}_0 += {w}; }} return {w}_0{other_use}; }}"),
                    format!("int @(int a, out int {w}) {{ {w} = a + 1; {w}_0 -= {w}; return {w}_0{other_use}; }}"),
                ],
            );
            add(
                "static-const-global",
                format!("static const int {w}_0 = 7;\n{others}"),
                vec![format!("int @(int a) {{ int {w} = a; return {w}_0 * 10 + {w}{other_use}; }}"), format!("int @(int {w}) {{ return {w}_0 * 10 + {w}{other_use}; }}")],
            );
            add(
                "function",
                format!("int {w}_0(int x) {{ return x + 100; }}\n{others}"),
                vec![format!("int @(int a) {{ int {w} = a; return {w}_0({w}) + {w}{other_use}; }}"), format!("int @(int {w}) {{ return {w}_0({w}) * 2 + {w}{other_use}; }}")],
            );
            add(
                "struct",
                format!("struct {w}_0 {{ int m; int get() {{ return m * 2; }} }};\n{others}"),
                vec![format!("int @(int a) {{ int {w} = a; {w}_0 s; s.m = {w}; return s.get() + {w}{other_use}; }}"), format!("int @(int {w}) {{ {w}_0 s; s.m = {w} + 1; return s.get() + {w}{other_use}; }}")],
            );
            if taken == 1 {
                add(
                    "two-renamed-locals",
                    format!("static int {w}_0 = 100;\nstatic int {w}_2 = 9;\n"),
                    vec![format!("int @(int a) {{ int {w} = a; {w}_0 += {w}; {{ int {w} = a + 1; {w}_2 += {w}; }} return {w} + {w}_0 + {w}_2; }}")],
                );
                add(
                    "global-and-callee-parameter",
                    format!("static int {w}_0 = 100;\nint callee(int {w}) {{ {w}_0 += {w}; return {w}_0; }}\n"),
                    vec![format!("int @(int a) {{ int {w} = a + 1; return callee({w}) + {w}_0 + {w}; }}")],
                );
            }
        }
    }
    out
}

/// several enums with overlapping indices and different values: folded enum constants of every enum
fn enum_programs() -> Vec<Space> {
    let prelude = "enum Axis { X, Y, Z };\nenum Colour { Red = 10, Green = 20, Blue = 30 };\nnamespace NE { enum Mode { Off = 5, On = 6, Auto = 10, Last = 21 }; }\nenum Late { L0 = 3, L1 = 2, L2 = 1 };\nint byc(Colour c = Green) { return (int)c + 1; }\nint bym(NE::Mode m = NE::Auto) { return (int)m + 2; }\nstatic const Colour CK = Blue;\nstatic const int CN = (int)Z + 1;\n";
    let mut cases: Vec<(String, &str)> = Vec::new();
    for (e, first, cast, labels) in [
        ("Axis", "axis", "(Axis)(a & 3)", [("X", 1), ("Y", 2), ("Z", 3)]),
        ("Colour", "colour", "(Colour)(a * 10)", [("Red", 1), ("Green", 2), ("Blue", 3)]),
        ("NE::Mode", "mode", "(NE::Mode)(a + 3)", [("NE::Off", 1), ("NE::On", 2), ("NE::Auto", 3)]),
        ("Late", "late", "(Late)(a & 3)", [("L0", 1), ("L1", 2), ("L2", 3)]),
    ] {
        let sw: String = labels.iter().map(|(l, r)| format!("case {}: return {}; ", l, r)).collect();
        let tag: &'static str = match first {
            "axis" => "decl|enum|case-label|first-enum",
            _ => "decl|enum|case-label|later-enum",
        };
        cases.push((format!("int @(int a) {{ {e} c = {cast}; switch (c) {{ {sw}}} return 0; }}"), tag));
        cases.push((format!("int @(int a) {{ switch ({cast}) {{ {sw}default: return 9; }} }}"), tag));
        let ft: String = labels.iter().map(|(l, r)| format!("case {}: r += {}; ", l, r)).collect();
        cases.push((format!("int @(int a) {{ int r = 0; switch ({cast}) {{ {ft}break; default: r = 50; }} return r; }}"), tag));
        let (l0, l1, l2) = (labels[0].0, labels[1].0, labels[2].0);
        cases.push((format!("int @(int a) {{ {e} c = a > 1 ? {l1} : (a > 0 ? {l2} : {l0}); return (int)c * 2 + (c == {l1} ? 100 : 0) + (c != {l0} ? 1000 : 0); }}"), "decl|enum|value-uses"));
        cases.push((format!("int @(int a) {{ return (int){l0} + (int){l1} * 3 + (int){l2} * 7 + a; }}"), "decl|enum|value-uses"));
        cases.push((format!("int @(int a) {{ {e} c = {cast}; return c < {l1} ? 1 : (c > {l1} ? 2 : 3); }}"), "decl|enum|value-uses"));
    }
    cases.push(("int @(int a) { return byc() * 1000 + byc(Red) * 10 + bym() + a; }".into(), "decl|enum|default-argument"));
    cases.push(("int @(int a) { int arr[CN]; for (int i = 0; i < CN; i++) arr[i] = i + a; return arr[(int)Y] * 10 + arr[CN - 1]; }".into(), "decl|enum|array-size"));
    cases.push(("int @(int a) { int arr[(int)L0 + (int)NE::Off] = { 1, 2, 3, 4, 5, 6, 7, 8 }; return arr[(int)L1] * 10 + arr[7] + a; }".into(), "decl|enum|array-size"));
    cases.push(("int @(int a) { Colour c = CK; switch (c) { case Blue: return 1; default: return (int)CK + a; } }".into(), "decl|enum|case-label|later-enum"));
    cases.push(("int @(int a) { switch (a) { case (int)Green: return 1; case (int)NE::Last: return 2; case (int)L0: return 3; case (int)Z: return 4; } return 0; }".into(), "decl|enum|case-label|cast-to-int"));
    cases.push(("int @(int a) { int r = 0; for (int i = 0; i < 4; i++) { switch ((Late)i) { case L2: r += 1; break; case L1: r += 10; break; case L0: r += 100; break; default: r += 1000; } } return r + a; }".into(), "decl|enum|case-label|later-enum"));
    vec![Space { name: "enums_multi".into(), prelude: prelude.into(), cases: cases.into_iter().map(|(s, t)| Case { src: s, tag: t.into() }).collect() }]
}

/// chains through which a function needs a global only transitively, with the intermediate function registered *after*
/// its caller: template instantiations, struct methods in every definition order, forward declarations
fn ordering_programs() -> Vec<Space> {
    let mut out = Vec::new();
    let wrap = |names: &[&str], tag: &str| -> Vec<Case> { names.iter().map(|n| Case { src: format!("int @(int x) {{ return {}(x); }}", n), tag: tag.to_string() }).collect() };
    // templates
    let leaf = "static int GA = 1;\nstatic float GF = 0.5f;\nint leaf(int x) { GA += x + 1; return GA * 2; }\n";
    for (name, body) in [
        ("one-level", "template<typename T> T mid(T x) { return (T)leaf((int)x) + x; }\nint top(int n) { return mid(n) + 1; }\nint top2(int n) { return top(n) * 3; }\n"),
        ("one-level-two-types", "template<typename T> T mid(T x) { return (T)leaf((int)x) + x; }\nint top(int n) { return mid(n) + (int)mid(0.5f + n); }\nint top2(int n) { return top(n) * 3; }\n"),
        ("two-levels", "template<typename T> T low(T x) { return (T)leaf((int)x) + x; }\ntemplate<typename T> T mid(T x) { return low(x) * 2; }\nint top(int n) { return mid(n) + 1; }\nint top2(int n) { return top(n) * 3 + (int)mid(1.5f); }\n"),
        ("template-touches-directly", "template<typename T> T mid(T x) { GF += 1.0f; return x + (T)GF; }\nint top(int n) { return mid(n) + 1; }\nint top2(int n) { return top(n) * 3; }\n"),
        ("template-below-function", "template<typename T> T low(T x) { GA += 2; return x + (T)GA; }\nint mid(int x) { return low(x) * 2; }\nint top(int n) { return mid(n) + 1; }\nint top2(int n) { return top(n) + (int)low(2.5f); }\n"),
        ("explicit-template-arguments", "template<typename T> T mid(T x) { return (T)leaf((int)x) + x; }\nint top(int n) { return (int)mid<float>(n) + mid<int>(n); }\nint top2(int n) { return top(n) * 3; }\n"),
        ("value-parameter", "template<int N> int mid(int x) { return leaf(x) + N; }\nint top(int n) { return mid<3>(n) + mid<4>(n); }\nint top2(int n) { return top(n) * 3; }\n"),
    ] {
        out.push(Space { name: format!("order_template_{}", name), prelude: format!("{}{}", leaf, body), cases: wrap(&["top", "top2"], "decl|global-threading|template-chain") });
    }
    // struct methods: a -> b -> c, c touches the global; every definition order; caller chains of length 1 and 2
    let methods = [("a", "int a(int x) { return b(x) * 2 + v; }"), ("b", "int b(int x) { return c(x) + 1; }"), ("c", "int c(int x) { GA += x + v; return GA; }")];
    let perms: [[usize; 3]; 6] = [[0, 1, 2], [0, 2, 1], [1, 0, 2], [1, 2, 0], [2, 0, 1], [2, 1, 0]];
    for perm in perms {
        let body: String = perm.iter().map(|k| methods[*k].1).collect::<Vec<_>>().join(" ");
        let order: String = perm.iter().map(|k| methods[*k].0).collect();
        let prelude = format!("static int GA = 1;\nstruct K {{ int v; {} }};\nint top(int n) {{ K k; k.v = 2; return k.a(n) + k.v; }}\nint top2(int n) {{ return top(n) * 3; }}\nint topb(int n) {{ K k; k.v = 1; return k.b(n); }}\n", body);
        out.push(Space { name: format!("order_methods_{}", order), prelude, cases: wrap(&["top", "top2", "topb"], "decl|global-threading|method-order") });
    }
    // two methods, the first calls the second; the second calls a free function / a template that touches the global
    for (name, free, second) in [
        ("method-to-free-function", "int leaf(int x) { GA += x + 1; return GA * 2; }\n", "int second(int x) { return leaf(x) + v; }"),
        ("method-to-template", "template<typename T> T leaf(T x) { GA += 1; return x + (T)GA; }\n", "int second(int x) { return leaf(x) + v; }"),
        ("method-writes-member-and-global", "", "int second(int x) { v += x; GA += v; return GA; }"),
    ] {
        for first_before in [true, false] {
            let first = "int first(int x) { return second(x) * 2; }";
            let body = if first_before { format!("{} {}", first, second) } else { format!("{} {}", second, first) };
            let prelude = format!("static int GA = 1;\n{}struct K {{ int v; {} }};\nint top(int n) {{ K k; k.v = 2; return k.first(n) + k.v; }}\nint top2(int n) {{ return top(n) * 3; }}\n", free, body);
            out.push(Space { name: format!("order_{}_{}", name, first_before), prelude, cases: wrap(&["top", "top2"], "decl|global-threading|method-order") });
        }
    }
    // forward declarations
    for (name, body) in [
        ("forward-declared-leaf", "int leaf(int x);\nint mid(int x) { return leaf(x) * 2; }\nint leaf(int x) { GA += x + 1; return GA; }\nint top(int n) { return mid(n) + 1; }\n"),
        ("forward-declared-mid", "int leaf(int x) { GA += x + 1; return GA; }\nint mid(int x);\nint top(int n) { return mid(n) + 1; }\nint mid(int x) { return leaf(x) * 2; }\n"),
        ("forward-declared-both", "int mid(int x);\nint leaf(int x);\nint top(int n) { return mid(n) + 1; }\nint mid(int x) { return leaf(x) * 2; }\nint leaf(int x) { GA += x + 1; return GA; }\n"),
    ] {
        out.push(Space { name: format!("order_{}", name), prelude: format!("static int GA = 1;\n{}", body), cases: wrap(&["top", "mid", "leaf"], "decl|global-threading|forward-declaration") });
    }
    out
}

/// exact built-in functions with an integer (or reinterpreted) result as the direct operand of every operation that is
/// sensitive to the signedness / type of that result
fn gen_intrinsic_compositions() -> Vec<Case> {
    // (name, parameter list, expression)
    let children: [(&str, &str, &str); 30] = [
        ("asint(float)", "float f", "asint(f)"),
        ("asint(uint)", "uint u", "asint(u)"),
        ("asuint(float)", "float f", "asuint(f)"),
        ("asuint(int)", "int i", "asuint(i)"),
        ("asfloat(uint)", "uint u", "asfloat(u & 0x807fffffu)"),
        ("asint(asfloat)", "uint u", "asint(asfloat(u & 0x807fffffu))"),
        ("asuint(asfloat)", "uint u", "asuint(asfloat(u & 0x807fffffu))"),
        ("asfloat(asuint)", "float f", "asfloat(asuint(f))"),
        ("asfloat(asint)", "float f", "asfloat(asint(f))"),
        ("asint(asuint)", "float f", "asint(asuint(f))"),
        ("asuint(asint)", "float f", "asuint(asint(f))"),
        ("firstbithigh(uint)", "uint u", "firstbithigh(u)"),
        ("firstbithigh(int)", "int i", "firstbithigh(i)"),
        ("firstbitlow(uint)", "uint u", "firstbitlow(u)"),
        ("firstbitlow(int)", "int i", "firstbitlow(i)"),
        ("countbits", "uint u", "countbits(u)"),
        ("reversebits", "uint u", "reversebits(u)"),
        ("sign(float)", "float f", "sign(f)"),
        ("sign(int)", "int i", "sign(i)"),
        ("f32tof16", "float f", "f32tof16(f)"),
        ("abs(int)", "int i", "abs(i)"),
        ("min(int)", "int i", "min(i, -2)"),
        ("max(int)", "int i", "max(i, -2)"),
        ("clamp(int)", "int i", "clamp(i, -5, 5)"),
        ("dot(int)", "int i", "dot(int2(i, 1), int2(-1, 2))"),
        ("cast-uint-to-int", "uint u", "(int)u"),
        ("cast-int-to-uint", "int i", "(uint)i"),
        ("cast-bool-to-int", "float f", "(int)(f < 0.0f)"),
        ("any", "int i", "any(int2(i, 0))"),
        ("isnan", "float f", "isnan(f)"),
    ];
    let parents: [(&str, &str, &str); 34] = [
        ("Shr31", "int", "# >> 31"),
        ("Shr1", "int", "# >> 1"),
        ("ShrVar", "int", "# >> (s & 7)"),
        ("Shl1", "int", "# << 1"),
        ("Lt0", "bool", "# < 0"),
        ("Le0", "bool", "# <= 0"),
        ("Gt0", "bool", "# > 0"),
        ("Ge1", "bool", "# >= 1"),
        ("LtVar", "bool", "# < s"),
        ("EqMinus1", "bool", "# == -1"),
        ("Div2", "int", "# / 2"),
        ("DivMinus3", "int", "# / -3"),
        ("Mod3", "int", "# % 3"),
        ("Mul", "int", "# * -3"),
        ("CastFloat", "float", "(float)#"),
        ("ImplicitFloat", "float", "#"),
        ("MulFloat", "float", "# * 0.5f"),
        ("AddFloat", "float", "# + 0.25f"),
        ("Minus", "int", "-#"),
        ("BitNotShr", "int", "~# >> 30"),
        ("Abs", "int", "abs(#)"),
        ("Min0", "int", "min(#, 0)"),
        ("Max0", "int", "max(#, 0)"),
        ("Sign", "int", "sign(#)"),
        ("Clamp", "int", "clamp(#, -1, 1)"),
        ("FirstBitHigh", "int", "firstbithigh(#)"),
        ("CastUIntDiv", "uint", "(uint)# / 3u"),
        ("CastIntDiv", "int", "(int)# / 3"),
        ("CastBool", "bool", "(bool)#"),
        ("Ternary", "int", "# ? 1 : 2"),
        ("TernaryArm", "float", "s > 0 ? # : 0.5f"),
        ("Not", "bool", "!#"),
        ("CompoundShr", "int", "t >>= #"),
        ("Index", "int", "arr[# & 3]"),
    ];
    let mut out = Vec::new();
    for (cn, cp, ce) in children {
        for (pn, rt, pe) in parents {
            let expr = pe.replace('#', &format!("({})", ce));
            let pre = if pe.contains("arr[") {
                "int arr[4] = { 5, 6, 7, 8 }; "
            } else if pe.contains("t >>=") {
                "int t = -64; "
            } else {
                ""
            };
            out.push(case(format!("{rt} @({cp}, int s) {{ {pre}return {expr}; }}"), format!("expr|{}>{}", pn, cn)));
        }
    }
    // component-wise forms
    for (cn, cp, ce) in [("asint(float3)", "float3 f", "asint(f)"), ("asuint(float3)", "float3 f", "asuint(f)"), ("asint(uint3)", "uint3 u", "asint(u)"), ("sign(float3)", "float3 f", "sign(f)"), ("firstbithigh(int3)", "int3 i", "firstbithigh(i)"), ("countbits(uint3)", "uint3 u", "countbits(u)")] {
        for (pn, rt, pe) in [("Shr31", "int3", "# >> 31"), ("Lt0", "bool3", "# < 0"), ("Div2", "int3", "# / 2"), ("CastFloat", "float3", "(float3)#"), ("MulFloat", "float3", "# * 0.5f"), ("Minus", "int3", "-#"), ("Abs", "int3", "abs(#)"), ("Max0", "int3", "max(#, 0)")] {
            out.push(case(format!("{rt} @({cp}) {{ return {}; }}", pe.replace('#', &format!("({})", ce))), format!("expr|{}>{}", pn, cn)));
        }
    }
    out
}

// ---------------------------------------------------------------------------------------------
// declaration layouts: every arrangement of k root-level definitions over namespace blocks (reopened, nested, adjacent,
// separated by definitions of the enclosing scope or by another namespace) in which the order of the definitions decides
// what the program computes, because static globals are initialised in declaration order by initialisers that have side
// effects (a call that bumps a counter) or read what an earlier initialiser's call modified.

/// scopes a definition can be placed in
const LAYOUT_SCOPES: [&[&str]; 5] = [&[], &["N"], &["M"], &["N", "I"], &["M", "I"]];

#[derive(Clone, Copy, PartialEq, Eq, Debug)]
enum ItemKind {
    /// `static int gK = next();` — the initialiser has a side effect
    GlobalCall,
    /// `static int gK = counter * 10 + K;` — the initialiser reads what earlier initialisers modified
    GlobalRead,
    /// `static int gK = <nearest earlier global, by qualified name> * 2 + next();` — reads an earlier definition of any scope
    GlobalDep,
    /// definitions of other kinds standing between (or next to) the globals; the observers use each of them by name
    Function,
    Struct,
    Enum,
    Const,
}

const LAYOUT_KINDS: [ItemKind; 7] = [ItemKind::GlobalCall, ItemKind::GlobalRead, ItemKind::GlobalDep, ItemKind::Function, ItemKind::Struct, ItemKind::Enum, ItemKind::Const];

enum LayoutNode {
    Item(usize),
    Ns(&'static str, Vec<LayoutNode>),
}

/// block tree of a layout: `items[i] = (scope, kind)`; `keep[i]` = how many of the namespace blocks shared by item i and
/// item i+1 stay open between the two (0 = everything is closed and opened again)
fn layout_tree(items: &[(usize, ItemKind)], keep: &[usize]) -> Vec<LayoutNode> {
    fn insert(level: &mut Vec<LayoutNode>, path: &[&'static str], fresh_from: usize, depth: usize, item: usize) {
        if path.is_empty() {
            level.push(LayoutNode::Item(item));
            return;
        }
        // continue the block that is still open (always the last node of the level), or open a new one
        let reuse = depth < fresh_from && matches!(level.last(), Some(LayoutNode::Ns(n, _)) if *n == path[0]);
        if !reuse {
            level.push(LayoutNode::Ns(path[0], Vec::new()));
        }
        if let Some(LayoutNode::Ns(_, inner)) = level.last_mut() {
            insert(inner, &path[1..], fresh_from, depth + 1, item);
        }
    }
    let mut root: Vec<LayoutNode> = Vec::new();
    let mut prev: &[&str] = &[];
    for (i, (scope, _)) in items.iter().enumerate() {
        let path: &[&'static str] = LAYOUT_SCOPES[*scope];
        let common = prev.iter().zip(path.iter()).take_while(|(a, b)| a == b).count();
        let common = if i > 0 { common.min(keep[i - 1]) } else { 0 };
        insert(&mut root, path, common, 0, i);
        prev = path;
    }
    root
}

fn is_layout_global(kind: ItemKind) -> bool {
    matches!(kind, ItemKind::GlobalCall | ItemKind::GlobalRead | ItemKind::GlobalDep)
}

fn layout_qualified(items: &[(usize, ItemKind)], i: usize, name: String) -> String {
    let mut s = String::new();
    for p in LAYOUT_SCOPES[items[i].0] {
        s.push_str(p);
        s.push_str("::");
    }
    s + &name
}

fn layout_item_text(i: usize, items: &[(usize, ItemKind)]) -> String {
    let k = i + 1;
    let kind = items[i].1;
    match kind {
        ItemKind::GlobalCall => format!("static int g{i} = next();"),
        ItemKind::GlobalDep => match (0..i).rev().find(|j| is_layout_global(items[*j].1)) {
            Some(j) => format!("static int g{i} = {} * 2 + next();", layout_qualified(items, j, format!("g{j}"))),
            None => format!("static int g{i} = counter * 2 + next();"),
        },
        ItemKind::GlobalRead => format!("static int g{i} = counter * 10 + {k};"),
        ItemKind::Function => format!("int h{i}(int x) {{ return x * 2 + {k}; }}"),
        ItemKind::Struct => format!("struct S{i} {{ int m; int get() {{ return m + {k}; }} }};"),
        ItemKind::Enum => format!("enum E{i} {{ E{i}a = {k}, E{i}b }};"),
        ItemKind::Const => format!("static const int c{i} = {k} + 3;"),
    }
}

fn layout_render(nodes: &[LayoutNode], items: &[(usize, ItemKind)], out: &mut String) {
    for n in nodes {
        match n {
            LayoutNode::Item(i) => {
                out.push_str(&layout_item_text(*i, items));
                out.push(' ');
            }
            LayoutNode::Ns(name, inner) => {
                out.push_str(&format!("namespace {} {{ ", name));
                layout_render(inner, items, out);
                out.push_str("} ");
            }
        }
    }
}

/// the most involved arrangement of namespace blocks in a layout (one signature class per arrangement)
fn layout_class(nodes: &[LayoutNode]) -> u8 {
    // 0 no namespace, 1 single blocks, 2 nested blocks, 3 adjacent blocks of one namespace,
    // 4 namespace reopened after another namespace, 5 namespace reopened after definitions of the enclosing scope
    let mut class = 0u8;
    for (i, n) in nodes.iter().enumerate() {
        if let LayoutNode::Ns(name, inner) = n {
            class = class.max(1);
            if inner.iter().any(|x| matches!(x, LayoutNode::Ns(..))) {
                class = class.max(2);
            }
            class = class.max(layout_class(inner));
            // the previous block of the same namespace at this level and what lies in between
            if let Some(p) = nodes[..i].iter().rposition(|x| matches!(x, LayoutNode::Ns(m, _) if m == name)) {
                let between = &nodes[p + 1..i];
                let c = if between.is_empty() {
                    3
                } else if between.iter().any(|x| matches!(x, LayoutNode::Ns(..))) {
                    4
                } else {
                    5
                };
                class = class.max(c);
            }
        }
    }
    class
}

const LAYOUT_CLASS_NAMES: [&str; 6] = ["no-namespace", "single-blocks", "nested-blocks", "adjacent-blocks", "reopened-after-namespace", "reopened-after-definitions"];

fn layout_program(items: &[(usize, ItemKind)], keep: &[usize]) -> Space {
    let tree = layout_tree(items, keep);
    let mut prelude = String::from("static int counter = 0;\nint next() { return ++counter; }\n");
    layout_render(&tree, items, &mut prelude);
    prelude.push('\n');
    let qual = |i: usize, name: String| -> String { layout_qualified(items, i, name) };
    // observer 1: every definition by its qualified name, position-weighted (Horner)
    let mut body = String::from("int r = a; ");
    for (i, (_, kind)) in items.iter().enumerate() {
        match kind {
            ItemKind::GlobalCall | ItemKind::GlobalRead | ItemKind::GlobalDep => body.push_str(&format!("r = r * 7 + {}; ", qual(i, format!("g{i}")))),
            ItemKind::Function => body.push_str(&format!("r = r * 7 + {}(a); ", qual(i, format!("h{i}")))),
            ItemKind::Struct => body.push_str(&format!("{} s{i}; s{i}.m = a; r = r * 7 + s{i}.get(); ", qual(i, format!("S{i}")))),
            ItemKind::Enum => body.push_str(&format!("r = r * 7 + (int){}; ", qual(i, format!("E{i}b")))),
            ItemKind::Const => body.push_str(&format!("r = r * 7 + {}; ", qual(i, format!("c{i}")))),
        }
    }
    body.push_str("return r;");
    // the class names the arrangement the exporter sees: the typed module is flat, every definition carries its namespace,
    // so blocks that the source closes and reopens without anything in between are one block to the exporter
    let shared: Vec<usize> = (1..items.len()).map(|i| LAYOUT_SCOPES[items[i - 1].0].len().min(LAYOUT_SCOPES[items[i].0].len())).collect();
    let tag = format!("decl|init-order|{}", LAYOUT_CLASS_NAMES[layout_class(&layout_tree(items, &shared)) as usize]);
    let mut cases = vec![Case { src: format!("int @(int a) {{ {} }}", body), tag: tag.clone() }];
    // observer 2: the counter after initialisation, and one more step of it
    cases.push(Case { src: "int @(int a) { int r = counter * 100; r += next() * 10; return r + counter + a; }".into(), tag: tag.clone() });
    // observer 3: writes through the qualified names (the globals stay distinct objects)
    let gs: Vec<usize> = (0..items.len()).filter(|i| is_layout_global(items[*i].1)).collect();
    if !gs.is_empty() {
        let mut b = String::new();
        for (n, i) in gs.iter().enumerate() {
            b.push_str(&format!("{} += a * {}; ", qual(*i, format!("g{i}")), n + 2));
        }
        b.push_str(&format!("return {};", qual(gs[0], format!("g{}", gs[0]))));
        cases.push(Case { src: format!("int @(int a) {{ {} }}", b), tag });
    }
    let name: String = items.iter().map(|(s, k)| format!("{}{}", s, LAYOUT_KINDS.iter().position(|x| x == k).unwrap_or(0))).collect::<Vec<_>>().join("-");
    Space { name: format!("layout_{}_{}", name, keep.iter().map(|b| b.to_string()).collect::<String>()), prelude, cases }
}

/// all layouts of exactly `k` definitions whose kinds come from `kinds`; every placement over the scopes; every choice of
/// keeping / closing the shared namespace blocks between neighbours (only where there is a shared block)
fn layouts_of(k: usize, kinds: &[ItemKind], with_splits: bool, out: &mut Vec<Space>) {
    let ns = LAYOUT_SCOPES.len() as u64;
    let nk = kinds.len() as u64;
    let radices: Vec<u64> = (0..k).flat_map(|_| [nk, ns]).collect();
    let total: u64 = radices.iter().product();
    let mut d = Vec::new();
    for idx in 0..total {
        util::decode(idx, &radices, &mut d);
        let items: Vec<(usize, ItemKind)> = (0..k).map(|i| (d[2 * i + 1] as usize, kinds[d[2 * i] as usize])).collect();
        // order matters only when at least one initialiser observes it
        if !items.iter().any(|(_, kind)| is_layout_global(*kind)) {
            continue;
        }
        // between neighbours every number of their shared namespace blocks can stay open
        let shared: Vec<u64> = (0..k.saturating_sub(1))
            .map(|i| {
                let (a, b) = (LAYOUT_SCOPES[items[i].0], LAYOUT_SCOPES[items[i + 1].0]);
                a.iter().zip(b.iter()).take_while(|(x, y)| x == y).count() as u64
            })
            .collect();
        if with_splits {
            let rad: Vec<u64> = shared.iter().map(|c| c + 1).collect();
            let n: u64 = rad.iter().product();
            let mut e = Vec::new();
            for code in 0..n {
                util::decode(code, &rad, &mut e);
                // simplest first: digit 0 = all shared blocks stay open
                let keep: Vec<usize> = e.iter().zip(shared.iter()).map(|(x, c)| (*c - *x) as usize).collect();
                out.push(layout_program(&items, &keep));
            }
        } else {
            let keep: Vec<usize> = shared.iter().map(|c| *c as usize).collect();
            out.push(layout_program(&items, &keep));
        }
    }
}

/// declaration layouts with order-dependent static initialisers (C01 only)
pub fn layout_programs(ctx: &Ctx) -> Vec<Space> {
    use ItemKind::*;
    let mut v = Vec::new();
    if ctx.quick() {
        // every kind up to 2 definitions; 3 definitions over two order-carrying kinds and two in-between kinds
        // (every scope and every block choice)
        for k in 1..=2 {
            layouts_of(k, &LAYOUT_KINDS, true, &mut v);
        }
        layouts_of(3, &[GlobalCall, GlobalDep, Function, Struct], true, &mut v);
        // longer sequences: one order-carrying kind and one in-between kind
        layouts_of(4, &[GlobalCall, Function], false, &mut v);
        layouts_of(5, &[GlobalCall], false, &mut v);
    } else {
        for k in 1..=3 {
            layouts_of(k, &LAYOUT_KINDS, true, &mut v);
        }
        layouts_of(4, &[GlobalCall, GlobalRead, GlobalDep, Function], false, &mut v);
        layouts_of(4, &[GlobalCall, Function], true, &mut v);
        layouts_of(5, &[GlobalCall, Function], false, &mut v);
        layouts_of(6, &[GlobalCall], false, &mut v);
    }
    v
}

/// the small whole programs shared by C01 and C02
pub fn program_spaces(ctx: &Ctx) -> Vec<Space> {
    let mut v = global_alias_programs();
    v.extend(position_programs(!ctx.quick()));
    v.extend(struct_cast_programs());
    v.extend(reserved_name_programs());
    v.extend(enum_programs());
    v.extend(ordering_programs());
    v
}

/// run a list of small programs, one program per index
pub fn run_programs(ctx: &Ctx, name: &str, programs: &[Space], backends: &[Backend], opts: &Opts, rep: &mut Report) {
    let r = run_par(ctx, programs.len() as u64, 4, |i, acc| {
        let sp = &programs[i as usize];
        for chunk in sp.cases.chunks(UNIT) {
            let cs: Vec<&Case> = chunk.iter().collect();
            acc.add("functions_generated", cs.len() as u64);
            check_cases(&sp.prelude, &cs, backends, acc, opts);
        }
        acc.count("whole_programs");
    });
    rep.cov(&format!("programs_{}", name), Json::Int(programs.len() as i64));
    rep.absorb(name, r);
}


// ---------------------------------------------------------------------------------------------
// storage class and qualifiers of function-local definitions (C01 only). A `static` local is one object per definition:
// its initialiser runs when the definition is first reached and the value survives the call; a plain (or `const`) local
// is created again every time. Which of the two a definition is decides what the second and later calls compute, so the
// holder function is called several times within one evaluation (twice with different arguments, three times in a
// loop), and the definition sits at every kind of position (also inside a loop body: reached three times per call).

/// (name, declared type, array suffix, initialiser built from an int expression `#`, digest of `s`, mutation of `s`, type of the digest)
const STORAGE_TYPES: [(&str, &str, &str, &str, &str, &str, &str); 13] = [
    ("int", "int", "", "#", "s", "s += 1;", "int"),
    ("uint", "uint", "", "(uint)(#)", "s", "s += 1u;", "uint"),
    ("float", "float", "", "(#) * 0.5f", "s", "s += 1.0f;", "float"),
    ("bool", "bool", "", "((#) & 1) == 1", "(s ? 5 : 3)", "s = !s;", "int"),
    ("int3", "int3", "", "int3(#, 1, (#) + 1)", "s.x * 100 + s.y * 10 + s.z", "s.y += 1;", "int"),
    ("struct", "SP", "", "{ #, 0.25f }", "s.x + s.y", "s.x += 1;", "float"),
    ("array", "int", "[3]", "{ #, 1, 2 }", "s[0] * 100 + s[1] * 10 + s[2]", "s[1] += 1;", "int"),
    // thorough only
    ("half", "half", "", "(half)((#) & 63) * 0.5h", "s", "s += 1.0h;", "half"),
    ("double", "double", "", "(#) * 0.5L", "s", "s += 1.0L;", "double"),
    ("float2", "float2", "", "float2(#, 0.5f)", "s.x * 8.0f + s.y", "s.y += 1.0f;", "float"),
    ("uint4", "uint4", "", "uint4((uint)(#), 1u, 2u, 3u)", "s.x * 1000u + s.y * 100u + s.z * 10u + s.w", "s.w += 1u;", "uint"),
    ("nested-struct", "SQ", "", "{ { #, 0.25f }, 3 }", "s.p.x + s.p.y + s.k", "s.k += 1;", "float"),
    ("array-2d", "int", "[2][2]", "{ { #, 1 }, { 2, 3 } }", "s[0][0] * 1000 + s[0][1] * 100 + s[1][0] * 10 + s[1][1]", "s[1][0] += 1;", "int"),
];

/// (class name, modifiers as written)
const STORAGE_MODS: [(&str, &str); 5] = [("plain", ""), ("const", "const "), ("static", "static "), ("static-const", "static const "), ("static-const", "const static ")];

/// (name, statements before the definition, int expression the initialiser is built from; None = no initialiser)
const STORAGE_INITS: [(&str, &str, Option<&str>); 7] = [
    ("literal", "", Some("7")),
    ("parameter", "", Some("x * 3")),
    ("mutable-global", "", Some("G + 1")),
    ("call-with-side-effect", "", Some("tick()")),
    ("local", "int y = x + 4; ", Some("y")),
    ("const-local", "const int ky = x - 1; ", Some("ky")),
    ("none", "", None),
];

/// (name, body template: `$D` = definition, use and mutation; `$I` = what the position adds to the initialiser)
const STORAGE_POSITIONS: [(&str, &str, &str); 6] = [
    ("top", "$D", ""),
    ("block", "{ $D }", ""),
    ("if-branch", "if (x != 1) { $D } else { r += 1; }", ""),
    ("loop-body", "for (int i = 0; i < 3; i++) { $D }", " + i"),
    ("switch-case", "switch (x & 1) { case 0: r += 1; break; default: { $D } break; }", ""),
    ("nested-loops", "for (int j = 0; j < 2; j++) { int i = j * 2; while (i < 3) { $D i += 2; } }", " + i"),
];

const STORAGE_HELPERS: &str = "static int G = 2;\nint tick() { return ++G; }\nstruct SP { int x; float y; };\nstruct SQ { SP p; int k; };\n";

/// the statements of a holder: `r` accumulates a digest of the variable every time the definition is passed
fn storage_body(ty: &(&str, &str, &str, &str, &str, &str, &str), mods: &str, init: &(&str, &str, Option<&str>), pos: &(&str, &str, &str)) -> Option<String> {
    let is_const = mods.contains("const");
    let def = match init.2 {
        Some(e) => format!("{}{} s{} = {};", mods, ty.1, ty.2, ty.3.replace('#', &format!("{}{}", e, pos.2))),
        None => {
            if is_const {
                return None;
            }
            // written on the first call only (G still has its initial value), read on every call
            let first = match ty.0 {
                "struct" => "s.x = x; s.y = 0.25f;".to_string(),
                "nested-struct" => "s.p.x = x; s.p.y = 0.25f; s.k = 3;".to_string(),
                "array" => "s[0] = x; s[1] = 1; s[2] = 2;".to_string(),
                "array-2d" => "s[0][0] = x; s[0][1] = 1; s[1][0] = 2; s[1][1] = 3;".to_string(),
                _ => format!("s = {};", ty.3.replace('#', "x")),
            };
            format!("{}{} s{}; if (G == 2) {{ {} }}", mods, ty.1, ty.2, first)
        }
    };
    let d = format!("{} r = r * 3 + ({}); {}", def, ty.4, if is_const { "" } else { ty.5 });
    Some(format!("{}{} r = 0; {} G += 10; return r;", init.1, ty.6, pos.1.replace("$D", &d)))
}

fn storage_callers(rt: &str, call: &dyn Fn(&str) -> String, tag: &str) -> Vec<Case> {
    vec![
        Case { src: format!("{rt} @(int x) {{ return {}; }}", call("x")), tag: tag.to_string() },
        Case { src: format!("{rt} @(int x) {{ {rt} a = {}; {rt} b = {}; return a * 1000 + b; }}", call("x"), call("x + 10")), tag: tag.to_string() },
        Case { src: format!("{rt} @(int x) {{ {rt} r = 0; for (int k = 0; k < 3; k++) {{ r = r * 7 + {}; }} return r; }}", call("x + k")), tag: tag.to_string() },
    ]
}

pub fn storage_programs(thorough: bool) -> Vec<Space> {
    let mut out = Vec::new();
    let n_types = if thorough { STORAGE_TYPES.len() } else { 7 };
    // every modifier set x type x initialiser kind x position, in a free function
    for ty in &STORAGE_TYPES[..n_types] {
        for (mclass, mods) in STORAGE_MODS {
            for init in &STORAGE_INITS {
                for pos in &STORAGE_POSITIONS {
                    let body = match storage_body(ty, mods, init, pos) {
                        Some(b) => b,
                        None => continue,
                    };
                    let prelude = format!("{}{} h(int x) {{ {} }}\n", STORAGE_HELPERS, ty.6, body);
                    let tag = format!("decl|local-storage|{}", mclass);
                    out.push(Space { name: format!("storage_{}_{}_{}_{}", ty.0, mods.trim().replace(' ', "-"), init.0, pos.0), prelude, cases: storage_callers(ty.6, &|a| format!("h({})", a), &tag) });
                }
            }
        }
    }
    // other kinds of holders (int; every modifier set, initialiser kind and position)
    let int_ty = &STORAGE_TYPES[0];
    for (mclass, mods) in STORAGE_MODS {
        for init in &STORAGE_INITS {
            for pos in &STORAGE_POSITIONS {
                let body = match storage_body(int_ty, mods, init, pos) {
                    Some(b) => b,
                    None => continue,
                };
                let name = |k: &str| format!("storage_{}_{}_{}_{}", k, mods.trim().replace(' ', "-"), init.0, pos.0);
                let tag = format!("decl|local-storage|{}", mclass);
                // method: one object per definition, shared by every object of the struct
                let prelude = format!("{}struct H {{ int v; int h(int x) {{ {} }} }};\n", STORAGE_HELPERS, body.replace("return r;", "return r + v;"));
                let mut cases = vec![
                    Case { src: "int @(int x) { H o; o.v = 1; int a = o.h(x); int b = o.h(x + 10); return a * 1000 + b; }".into(), tag: tag.clone() },
                    Case { src: "int @(int x) { H o; o.v = 1; H p; p.v = 2; int a = o.h(x); int b = p.h(x + 10); return a * 1000 + b; }".into(), tag: tag.clone() },
                ];
                out.push(Space { name: name("method"), prelude, cases: std::mem::take(&mut cases) });
                // function template: one object per definition and instantiation
                let prelude = format!("{}template<typename T> int h(T tx) {{ int x = (int)tx; {} }}\n", STORAGE_HELPERS, body);
                let cases = vec![
                    Case { src: "int @(int x) { int a = h(x); int b = h(x + 10); return a * 1000 + b; }".into(), tag: tag.clone() },
                    Case { src: "int @(int x) { int a = h(x); int b = h((uint)x + 10u); int c = h(x + 20); return a * 1000 + b * 50 + c; }".into(), tag: tag.clone() },
                ];
                out.push(Space { name: name("template"), prelude, cases });
                // function in a namespace
                let prelude = format!("{}namespace NS {{ int h(int x) {{ {} }} }}\n", STORAGE_HELPERS, body);
                out.push(Space { name: name("namespace"), prelude, cases: storage_callers("int", &|a| format!("NS::h({})", a), &tag) });
                // the entry function itself holds the definition (reached more than once per call only in the loop positions)
                out.push(Space { name: name("entry"), prelude: STORAGE_HELPERS.to_string(), cases: vec![Case { src: format!("int @(int x) {{ {} }}", body), tag: tag.clone() }] });
            }
        }
    }
    // two declarators of one definition, definition in the init clause of a for, two definitions of one name in sibling
    // scopes, a static holding the result of another holder
    for (mclass, mods) in STORAGE_MODS {
        let tag = format!("decl|local-storage|{}", mclass);
        let is_const = mods.contains("const");
        let mut add = |name: &str, holder: String| {
            out.push(Space { name: format!("storage_{}_{}", name, mods.trim().replace(' ', "-")), prelude: format!("{}{}\n", STORAGE_HELPERS, holder), cases: storage_callers("int", &|a| format!("h({})", a), &tag) });
        };
        add("two-declarators", format!("int h(int x) {{ {mods}int s = x * 3, t = s + tick(); int r = s * 100 + t; {} G += 10; return r; }}", if is_const { "" } else { "s += 1; t += 2;" }));
        add("three-declarators-mixed-init", format!("int h(int x) {{ {mods}int s = 7, t = x, u = tick(); int r = s * 10000 + t * 100 + u; {} return r; }}", if is_const { "" } else { "s += 1; t += 2; u += 3;" }));
        add("sibling-scopes-same-name", format!("int h(int x) {{ int r = 0; {{ {mods}int s = x; r += s; {} }} {{ {mods}int s = x * 2 + 1; r = r * 100 + s; {} }} return r; }}", if is_const { "" } else { "s += 1;" }, if is_const { "" } else { "s += 5;" }));
        add("shadowing-a-parameter", format!("int h(int x) {{ int r = x; {{ {mods}int x = r * 2 + 1; r = r * 100 + x; {} }} return r + x; }}", if is_const { "" } else { "x += 1;" }));
        add("initialised-from-a-static", format!("int h(int x) {{ {mods}int s = x + 1; {mods}int t = s * 2 + x; int r = s * 100 + t; {} return r; }}", if is_const { "" } else { "s += 1; t += 1;" }));
        if !is_const {
            add("for-init", format!("int h(int x) {{ int r = 0; for ({mods}int s = x & 3; s < (x & 3) + 2; s++) {{ r = r * 10 + s + 1; }} return r; }}"));
            add("counter", format!("int h(int x) {{ {mods}int calls = 0; calls += 1; return calls * 100 + x; }}"));
        }
        add("holder-calls-holder", format!("int inner(int x) {{ {mods}int s = x * 5; int r = s; {} return r; }}\nint h(int x) {{ {mods}int s = inner(x) + 1; int r = s * 10 + inner(x + 2); {} return r; }}", if is_const { "" } else { "s += 1;" }, if is_const { "" } else { "s += 3;" }));
    }
    out
}

// ---------------------------------------------------------------------------------------------
// computations that are done for their side effect only (C01 only): an expression whose value selects nothing (the
// condition of an `if` / loop with an empty body, the selector of a `switch` without statements, the clauses of a `for`
// around an empty body), whose value is thrown away (expression statements under a pure outer operator) or is never read
// (initialiser of an unused variable). "Nothing the source computes is dropped": the writes such an expression makes
// (through an inout argument, to a static global, to a local by ++ -- = op=) are observed after the statement.

const EFFECT_PRELUDE: &str = "static int g_calls = 0;\nbool dec(inout int b) { g_calls += 1; b -= 2; return b > 0; }\nint tick() { return ++g_calls; }\nint idf(int v) { return v + 1; }\nvoid put(out int o, int v) { o = v; g_calls += 100; }\n";

/// (name, bool expression over the local `b` (0..=7 on entry), the inout parameter `q` and the global `g_calls`; as a loop
/// condition every one of them becomes false after a few rounds)
const EFFECT_EXPRS: [(&str, &str); 14] = [
    ("pure", "b > 100"),
    ("call-writing-inout-and-global", "dec(b)"),
    ("post-decrement", "b-- > 0"),
    ("pre-decrement", "--b > 0"),
    ("compound-assignment", "(b -= 3) > 0"),
    ("assignment", "(b = b - 1) > 0"),
    ("comma", "(q++, b-- > 0)"),
    ("short-circuit-and", "b > 0 && dec(b)"),
    ("short-circuit-or", "!(b <= 0 || !dec(b))"),
    ("ternary", "(b > 3 ? dec(b) : b-- > 0)"),
    ("call-writing-global", "tick() < 3"),
    ("call-writing-out-argument", "(put(q, b), b-- > 0)"),
    ("constant-false", "false"),
    ("constant-true", "true"),
];

const EFFECT_BODIES: [(&str, &str); 6] = [("empty", "{}"), ("empty", ";"), ("empty", "{ ; }"), ("empty", "{ {} }"), ("empty", "{ { ; } ; }"), ("non-empty", "{ r++; }")];

fn gen_effect_only() -> Vec<Case> {
    let mut out = Vec::new();
    let mut add = |stmt: String, tag: String| {
        out.push(case(format!("int @(int n, inout int q) {{ int b = n & 7; int r = 0; {} return b * 100 + r * 10 + (q & 15); }}", stmt), format!("stmt|effect-only|{}", tag)));
    };
    // (statement kind, slot, template with $E and $B, is a loop on $E)
    let with_body: [(&str, &str, bool); 19] = [
        ("if", "if ($E) $B", false),
        ("if", "[branch] if ($E) $B", false),
        ("if", "[flatten] if ($E) $B", false),
        ("if", "{ if ($E) $B }", false),
        ("if", "if (n > 2) { if ($E) $B }", false),
        ("if", "if (n > 2) { r += 3; } else if ($E) $B", false),
        ("if", "for (int i = 0; i < 2; i++) if ($E) $B", false),
        ("if", "switch (n & 1) { case 0: if ($E) $B break; default: r += 5; }", false),
        ("if-else|then", "if ($E) $B else { r += 2; }", false),
        ("if-else|else", "if ($E) { r += 2; } else $B", false),
        ("if-else|both", "if ($E) $B else $B", false),
        ("while", "while ($E) $B", true),
        ("while", "[loop] while ($E) $B", true),
        ("do-while", "do $B while ($E);", true),
        ("for|condition", "for (; $E; ) $B", true),
        ("for|init", "for ($E; b > 50; ) $B", false),
        ("for|increment", "for (int i = 0; i++ < 2; $E) $B", false),
        ("for|init-declaration", "for (bool u = $E; b > 50; ) $B", false),
        ("for|all-clauses", "for ($E; $E; $E) $B", true),
    ];
    for (kind, tpl, is_loop) in with_body {
        for (ename, e) in EFFECT_EXPRS {
            if is_loop && ename == "constant-true" {
                continue;
            }
            for (bclass, body) in EFFECT_BODIES {
                add(tpl.replace("$E", e).replace("$B", body), format!("{}|{}-body", kind, bclass));
            }
        }
    }
    // no body at all
    let without_body: [(&str, &str); 22] = [
        ("switch|no-statements", "switch (($E) ? 1 : 0) {}"),
        ("switch|no-statements", "switch (($E) ? 1 : 0) { }  r += 1;"),
        ("switch|only-default", "switch (($E) ? 1 : 0) { default: break; }"),
        ("switch|only-breaks", "switch (($E) ? 1 : 0) { case 0: break; case 1: break; }"),
        ("switch|only-labels", "switch (($E) ? 1 : 0) { case 0: case 1: default: ; }"),
        ("expression-statement|bare", "$E;"),
        ("expression-statement|ternary", "($E) ? 1 : 2;"),
        ("expression-statement|not", "!($E);"),
        ("expression-statement|arithmetic", "(int)($E) + 1;"),
        ("expression-statement|compare", "($E) == true;"),
        ("expression-statement|pure-call", "idf((int)($E));"),
        ("expression-statement|comma-left", "(($E), 1);"),
        ("expression-statement|comma-right", "(1, ($E));"),
        ("expression-statement|cast", "(float)($E);"),
        ("expression-statement|parenthesised", "(($E));"),
        ("unused-variable|plain", "bool u = $E;"),
        ("unused-variable|const", "const bool u = $E;"),
        ("unused-variable|static", "static bool u = $E;"),
        ("unused-variable|aggregate", "int u[2] = { ($E) ? 1 : 0, 2 };"),
        ("unused-variable|second-declarator", "int u = 1, w = ($E) ? 1 : 0;"),
        ("unused-variable|in-empty-block", "{ bool u = $E; }"),
        ("return-value-ignored", "idf(($E) ? 1 : 0);"),
    ];
    for (kind, tpl) in without_body {
        for (_, e) in EFFECT_EXPRS {
            add(tpl.replace("$E", e), kind.to_string());
        }
    }
    // statements that only hold other effect-free-looking statements
    for (_, e) in EFFECT_EXPRS {
        add(format!("{{ }} {{ {{ }} }} ; ; if ({e}) {{ }} ; {{ }}"), "if|empty-body".into());
        add(format!("if (n > 100) {{ }} else {{ }} if ({e}) {{ }} else {{ }}"), "if-else|both|empty-body".into());
    }
    out
}

// ---------------------------------------------------------------------------------------------
// spaces

pub struct Space {
    pub name: String,
    pub prelude: String,
    pub cases: Vec<Case>,
}

pub fn spaces(ctx: &Ctx) -> Vec<Space> {
    let mut v = Vec::new();
    let quick = ctx.quick();
    let widths: Vec<usize> = if quick { vec![1, 3] } else { vec![1, 2, 3, 4] };
    let types = all_types(&widths);
    v.push(Space { name: "depth1".into(), prelude: String::new(), cases: gen_depth1(&types) });
    v.push(Space { name: "depth1_operand_forms".into(), prelude: String::new(), cases: gen_depth1_operand_forms(&if quick { all_types(&[1]) } else { all_types(&[1, 3]) }) });
    v.push(Space { name: "sequenced".into(), prelude: String::new(), cases: gen_sequenced() });
    v.push(Space { name: "contexts".into(), prelude: CONTEXT_PRELUDE.into(), cases: gen_contexts() });
    for (i, (prelude, body, tag)) in [
        ("int dflt(int x, int y = (3, 4)) { return x * 10 + y; }\n", "int @(int a) { return dflt(a) + dflt(a, 1); }", "context|default-argument|Comma"),
        ("int dflt2(int x, int y = true ? 5 : 6) { return x * 10 + y; }\n", "int @(int a) { return dflt2(a) + dflt2(a, 1); }", "context|default-argument|Ternary"),
        ("int dflt3(int x, int y = 2 + 3, int z = -1) { return x * 100 + y * 10 + z; }\n", "int @(int a) { return dflt3(a) + dflt3(a, 1) + dflt3(a, 1, 2); }", "context|default-argument|Add"),
        ("static int GC = (1, 2);\n", "int @(int a) { return GC * 10 + a; }", "context|global-initializer|Comma"),
        ("static int GT = true ? 8 : 9;\n", "int @(int a) { return GT * 10 + a; }", "context|global-initializer|Ternary"),
        ("static int2 GV = int2((1, 2), 3);\n", "int @(int a) { return GV.x * 100 + GV.y * 10 + a; }", "context|global-constructor-argument|Comma"),
        ("static int GA[2] = { (1, 2), 3 };\n", "int @(int a) { return GA[0] * 100 + GA[1] * 10 + a; }", "context|global-aggregate|Comma"),
    ]
    .into_iter()
    .enumerate()
    {
        v.push(Space { name: format!("context_decl{}", i), prelude: prelude.into(), cases: vec![case(body.into(), tag.into())] });
    }
    v.push(Space { name: "statements".into(), prelude: String::new(), cases: gen_statements() });
    v.push(Space { name: "effect_only".into(), prelude: EFFECT_PRELUDE.into(), cases: gen_effect_only() });
    for (i, d) in gen_decls().into_iter().enumerate() {
        v.push(Space { name: format!("decl{}", i), prelude: d.prelude, cases: d.cases });
    }
    v.push(Space { name: "literals".into(), prelude: String::new(), cases: gen_literals() });
    v.push(Space { name: "intrinsic_compositions".into(), prelude: String::new(), cases: gen_intrinsic_compositions() });
    let full = full_alphabet();
    if quick {
        // depth 2: full alphabet with variable leaves; class alphabet with the literal leaf forms
        v.push(Space { name: "depth2_full_var".into(), prelude: EXPR_PRELUDE.into(), cases: gen_depth2(&full, &[Typing::Int, Typing::UInt, Typing::Float, Typing::Mixed, Typing::Bool], &[LeafForm::Var]) });
        v.push(Space { name: "depth2_class_int".into(), prelude: EXPR_PRELUDE.into(), cases: gen_depth2(&class_alphabet(false), &[Typing::Int, Typing::Mixed, Typing::UInt], &[LeafForm::Var, LeafForm::Literal, LeafForm::CrossLiteral]) });
        v.push(Space { name: "depth2_class_float".into(), prelude: EXPR_PRELUDE.into(), cases: gen_depth2(&class_alphabet(true), &[Typing::Float, Typing::Bool], &[LeafForm::Var, LeafForm::Literal]) });
    } else {
        let forms = [LeafForm::Var, LeafForm::Literal, LeafForm::CrossLiteral, LeafForm::Swizzle, LeafForm::ArrayElement, LeafForm::StructMember, LeafForm::Call, LeafForm::ConstVar, LeafForm::Global];
        v.push(Space { name: "depth2_full".into(), prelude: EXPR_PRELUDE.into(), cases: gen_depth2(&full, &[Typing::Int, Typing::UInt, Typing::Float, Typing::Mixed, Typing::Bool], &forms) });
        v.push(Space { name: "depth3_class_int".into(), prelude: EXPR_PRELUDE.into(), cases: gen_depth3(&class_alphabet(false), Typing::Int) });
        v.push(Space { name: "depth3_class_float".into(), prelude: EXPR_PRELUDE.into(), cases: gen_depth3(&class_alphabet(true), Typing::Float) });
        v.push(Space { name: "depth3_class_uint".into(), prelude: EXPR_PRELUDE.into(), cases: gen_depth3(&class_alphabet(false), Typing::UInt) });
        v.push(Space { name: "depth3_class_mixed".into(), prelude: EXPR_PRELUDE.into(), cases: gen_depth3(&class_alphabet(false), Typing::Mixed) });
        v.push(Space { name: "depth2_full_half".into(), prelude: typed_prelude("half"), cases: gen_depth2(&full, &[Typing::Half], &[LeafForm::Var, LeafForm::Literal]) });
        v.push(Space { name: "depth2_full_double".into(), prelude: typed_prelude("double"), cases: gen_depth2(&full, &[Typing::Double], &[LeafForm::Var, LeafForm::Literal]) });
    }
    v
}

pub fn run(ctx: &Ctx) -> i32 {
    let mut rep = Report::new("exploration");
    rep.rule = "a function counts when the type checker accepted it, the exporter produced text, the text was re-read without the type checker and at least one argument tuple was evaluated by both interpreters; distinct = different (prelude, function source, target)".into();
    let opts = Opts { cap: 100, verbose: false, only_args: None };
    // triage aid: C01_ONLY=<name> restricts a run to the spaces whose name contains <name> (never set in a recorded run)
    let only = std::env::var("C01_ONLY").ok();
    let wanted = |name: &str| only.as_deref().map(|o| name.contains(o)).unwrap_or(true);
    if wanted("declaration_layouts") {
        let layouts = layout_programs(ctx);
        run_programs(ctx, "declaration_layouts", &layouts, &HLSL_BACKENDS, &opts, &mut rep);
    }
    for sp in spaces(ctx) {
        if !wanted(&sp.name) {
            continue;
        }
        let n_units = sp.cases.len().div_ceil(UNIT) as u64;
        let r = run_par(ctx, n_units, 1, |u, acc| {
            let lo = u as usize * UNIT;
            let hi = (lo + UNIT).min(sp.cases.len());
            let cs: Vec<&Case> = sp.cases[lo..hi].iter().collect();
            acc.add("functions_generated", cs.len() as u64);
            check_cases(&sp.prelude, &cs, &HLSL_BACKENDS, acc, &opts);
        });
        rep.cov(&format!("functions_{}", sp.name), Json::Int(sp.cases.len() as i64));
        rep.absorb(&sp.name, r);
    }
    if wanted("whole_programs") {
        let programs = program_spaces(ctx);
        run_programs(ctx, "whole_programs", &programs, &HLSL_BACKENDS, &opts, &mut rep);
    }
    if wanted("local_storage") {
        let storage = storage_programs(!ctx.quick());
        run_programs(ctx, "local_storage", &storage, &HLSL_BACKENDS, &opts, &mut rep);
    }
    rep.cov("targets", Json::Arr(HLSL_BACKENDS.iter().map(|c| c.cfg().name().into()).collect()));
    rep.cov("fuel_per_evaluation", Json::Int(FUEL as i64));
    rep.cov("functions_per_compilation_unit", Json::Int(UNIT as i64));
    rep.cov(
        "subset_inside",
        Json::Arr(
            [
                "types: bool int uint half float double scalars and 2-4 vectors; structs (nested, with methods, in namespaces); arrays (1-D, 2-D, of vectors, of structs, inside structs); enums with int or uint underlying type; typedef names",
                "expressions: 8 unary, 18 binary value, 11 assignment operators, comma, ?:, C-style and constructor casts, numeric constructors of mixed arity, swizzles (xyzw/rgba, l-value and r-value, chained, on scalars), subscripts of vectors and arrays, member access, calls (free, overloaded, template instantiations with type and value parameters, methods with overloads and default arguments, default arguments), every literal kind (bool, untyped int incl. hex/octal, u-suffixed, untyped float, h f L suffixed)",
                "expression shapes: depth 1 (every operator x operand type pair over the 24 numeric types; const / r-value / literal operands), depth 2 (every parent x child x side over the full alphabet, typings int uint float mixed bool half double, leaf forms variable literal cross-literal swizzle array-element struct-member call const-variable static-global), depth-3 spines over the class alphabet (int uint float mixed), sequenced side effects using one variable across , && || ?: boundaries",
                "expression contexts: initialiser, later declarator, aggregate elements, call / constructor arguments, subscript, return, if/while/do/for conditions, for init / increment, switch selector, expression statement, default argument, global initialiser",
                "statements: expression, declarations with 1-3 declarators, nested blocks with shadowing, if / if-else / dangling else, for with every init form, while, do-while, switch with fall-through / default first / blocks / inside loops, break, continue, early return, return in loops, statement attributes",
                "declarations: overload sets, function templates instantiated at two types, default arguments, struct methods reading and writing members, namespaces (nested), enums with explicit values, static const, static globals (scalar, vector, array) mutated across calls, forward declarations, struct and array parameters (in, out, inout), out/inout parameters incl. aliasing of one variable to an in and an out parameter",
                "declaration layouts: every sequence of up to 3 root-level definitions (quick: all kinds up to 2, four kinds at 3; static global initialised by a counter-bumping call / by reading the counter / from the nearest earlier global plus a call; function; struct with method; thorough also enum and static const) x every placement over the scopes {global, N, M, N::I, M::I} x every choice of how many shared namespace blocks stay open between neighbours (so: reopened namespaces after definitions of the enclosing scope, after another namespace, adjacent blocks, nested blocks, equal inner names under different parents); sequences of 4 (quick: call-initialised global and function; thorough: the three global kinds and function) and of 5 / 6 definitions over fewer kinds; observed through every definition by qualified name, the counter, and writes to every global",
                "local storage: every modifier set {none, const, static, static const, const static} x type {int uint float bool int3 struct array; thorough also half double float2 uint4 nested struct 2-D array} x initialiser {literal, parameter, mutable static global, call with a side effect, local, const local, none} x position of the definition {function top, nested block, conditionally reached branch, loop body, switch case, nested loops} in a free function called once / twice with different arguments / three times in a loop; for int also in a struct method (two objects), a function template (two instantiations), a namespace function and the entry function itself; two and three declarators, for-init definitions, sibling scopes with one name, shadowed parameter, static initialised from a static, holder calling holder",
                "effect-only computations: every expression kind with a side effect {call writing an inout argument and a static global, call writing a static global, call writing an out argument, x-- --x, op=, =, comma, && / || / ?: guarding a call, none, constant false / true} x every slot whose value selects or feeds nothing {condition of if (plain, [branch], [flatten], nested, in else-if, in a loop, in a switch case), of if-else (either arm or both empty), of while / [loop] while / do-while, each clause of for, for-init definition} x body {`{}`, `;`, `{ ; }`, `{ {} }`, `{ { ; } ; }`, non-empty}; switch without statements / with only labels and breaks; expression statements under a pure outer operator (?: ! + == call comma cast parentheses); initialisers of unused variables (plain, const, static, aggregate, later declarator, in a block of its own); ignored return value",
                "intrinsics compared for bits: abs min max clamp saturate floor ceil trunc round frac fmod sqrt rsqrt rcp sign step lerp smoothstep dot cross length normalize distance reflect any all select and or countbits reversebits firstbithigh firstbitlow asint asuint asfloat f16tof32 f32tof16 isnan isinf isfinite; transcendental (sin cos tan asin acos atan atan2 sinh cosh tanh exp exp2 log log2 log10 pow) compared for which function is called",
            ]
            .iter()
            .map(|s| Json::from(*s))
            .collect(),
        ),
    );
    rep.cov(
        "subset_outside",
        Json::Arr(
            [
                "matrices, resource / object types and their methods, cbuffers and other extern globals, groupshared, pipelines and entry-point semantics, interpolation modifiers, struct templates, pointers",
                "wave / quad operations, derivatives, atomics, barriers, discard, sizeof, strings, 64-bit integer literals, asdouble, out-parameter intrinsics (sincos, modf), refract, mul / transpose / determinant",
                "accepted by the rssl type checker but without HLSL meaning (skipped and counted): shift / bitwise compound assignment on floating point operands, explicit casts the typer does not validate (e.g. 2-vector to 3-vector), unary + / - on bool (typed bool by rssl, int by HLSL)",
                "unspecified in HLSL (skipped on both sides and counted): integer division / modulus by zero, INT_MIN / -1, out-of-range or NaN float to int, reads of uninitialised values, out-of-bounds subscripts, literal integer arithmetic leaving 32 bits, bit patterns of NaN",
                "programs for which rssl::compile panics (counted as export_panicked, a C08 matter): `static const int A = -2147483648` style INT_MIN literals, vector operands combined with an untyped literal that needs a vector-of-literal cast (e.g. `int3 a; a * 0.0`)",
                "unsequenced conflicting accesses (x++ + x): never generated (S7)",
            ]
            .iter()
            .map(|s| Json::from(*s))
            .collect(),
        ),
    );
    rep.assumptions.push("HLSL semantics are those of exec::c_interp (dynamic typing under the C-like rules of HLSL 2021: literal typing by suffix, usual arithmetic conversions, implicit conversions at initialisers / assignments / arguments / returns, copy-in/copy-out), not of a real HLSL compiler; the rssl lexer/parser is trusted as the reader of emitted text (checked by C09/C10)".into());
    rep.assumptions.push("value dimension: boundary grid per scalar type (ints {0,1,2,3,-1,7,31,32,INT_MIN,INT_MAX}, uints {0,1,2,3,7,31,32,0x80000000,UINT_MAX}, floats {0,-0,0.5,1,-1,2.5,1e-3,16777216,3.4e38,inf}, vectors with distinct components); all tuples when there are at most 100 per function, otherwise a deterministic greedy pairwise-covering subset over a 6-value grid per parameter: the program dimension is exhaustive within each space, the input dimension is covering".into());
    rep.assumptions.push("S1-S11 of DESIGN 4.5: 32-bit wrap-around, shift counts mod 32, IEEE single operations without contraction, half = binary32 operation rounded to binary16, operands and arguments evaluated left to right, copy-in/copy-out in parameter order, static globals initialised once per evaluation; NaN results compare equal, +0/-0 are distinguished; cases where the source itself does something HLSL leaves unspecified are skipped on both sides and counted".into());
    rep.assumptions.push("a function-local static is one object per definition (per instantiation of a function template), its initialiser runs when the definition is first reached and its value survives the call (C++ [stmt.dcl]/4 without the thread-safety part, which is what HLSL 2021 / DXC implement); it is observed through the results of several calls within one evaluation; a static local without initialiser that is read before it is written counts as an uninitialised read (skipped on both sides)".into());
    rep.assumptions.push("f' is the function at the same position in declaration order of the emitted text (the exporter may rename); static globals are matched by declaration order".into());
    finish(ctx, rep)
}

// ---------------------------------------------------------------------------------------------
// replay

pub fn replay(ctx: &Ctx, body: &str) -> i32 {
    let mut kind = "";
    let mut target = Cfg::Dx;
    let mut tag = String::from("replayed");
    let mut args: Option<Vec<Value>> = None;
    let mut source = String::new();
    let mut in_source = false;
    for line in body.lines() {
        if in_source {
            source.push_str(line);
            source.push('\n');
            continue;
        }
        if let Some(v) = line.strip_prefix("kind: ") {
            kind = v.trim();
        } else if let Some(v) = line.strip_prefix("target: ") {
            target = Cfg::from_name(v.trim()).unwrap_or(Cfg::Dx);
        } else if let Some(v) = line.strip_prefix("tag: ") {
            tag = v.trim().to_string();
        } else if let Some(v) = line.strip_prefix("args: ") {
            let mut a = Vec::new();
            for part in v.split(" ; ") {
                if part.trim().is_empty() {
                    continue;
                }
                match if part.trim() == "void" { Some(Value::Void) } else { values::parse_value(part) } {
                    Some(x) => a.push(x),
                    None => {
                        eprintln!("machinery error: cannot parse argument `{}`", part);
                        return 2;
                    }
                }
            }
            args = Some(a);
        } else if line.starts_with("source:") {
            in_source = true;
        }
    }
    let mut acc = Acc::default();
    match kind {
        "c01-case" => {
            // the last function of the source is the case
            let c = Case { src: String::new(), tag };
            let opts = Opts { cap: 100, verbose: true, only_args: args.filter(|a| !a.is_empty()) };
            // re-use check_cases with the whole source as prelude and an empty case is not possible; split off the last function
            let (prelude, last) = split_last_function(&source);
            let c = Case { src: last, ..c };
            check_cases(&prelude, &[&c], &[Backend::from_cfg(target)], &mut acc, &opts);
        }
        "c01-source" => {
            let opts = Opts { cap: 100, verbose: true, only_args: args.filter(|a| !a.is_empty()) };
            let (prelude, last) = split_last_function(&source);
            let c = Case { src: last, tag };
            check_cases(&prelude, &[&c], &if target == Cfg::Msl { vec![Backend::Msl] } else { HLSL_BACKENDS.to_vec() }, &mut acc, &opts);
        }
        _ => {
            eprintln!("machinery error: unknown replay kind `{}`", kind);
            return 2;
        }
    }
    for (k, n) in &acc.counters {
        println!("counter {} = {}", k, n);
    }
    finish_replay(ctx, &acc)
}

/// split a source into (everything before the last top-level function, that function with its name replaced by `@`)
fn split_last_function(src: &str) -> (String, String) {
    // the case function is always the last line group starting at a line that contains " f0(" at top level
    let marker = src.rfind(" f0(");
    match marker {
        Some(m) => {
            let start = src[..m].rfind('\n').map(|i| i + 1).unwrap_or(0);
            let f = src[start..].replacen(" f0(", " @(", 1);
            (src[..start].to_string(), f.trim_end().to_string())
        }
        None => (String::new(), src.to_string()),
    }
}

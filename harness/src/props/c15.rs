//! C15 — renaming is harmless and emitted names are hygienic.
//!
//! Spaces (all exhaustive, see DESIGN.md §5 C15):
//!  a  α-renaming of a generated core (features × naming schemes × several injective renamings): out(σP) == σ(out(P))
//!  b  every role × every reserved/built-in word of HLSL and MSL that the front end accepts in that role
//!  c  names x, x_0, x_1 (… ) in all assignments to 3 symbols × contexts (overloads, namespaces, local/global, …)
//!  d  verbatim: ordinary names unique in their scope are emitted unchanged
//!  e  shadowed references: entity kind × kind of a nearer declaration of the same name (member of an enclosing namespace,
//!     parameter, local, struct member, method, template parameter) × every written form of both references (`::x`, `x`,
//!     `N::x`, `::N::x`) × all assignments of {x, x_0, …} to the two names; the renamed source is certified to be a renaming
//!     by a reference scoping model on the source trees, then the pair oracle applies without consulting the front end
//!     also: the entity is a member of a namespace, is referred to through a qualified name from outside it, and another
//!     entity of the same leaf name is declared at / around the use (root, sibling namespace, enclosing namespace, parameter
//!     and local of the using function); and further ways of using the entity: folded constants (case labels, array sizes)
//!  f  every template × every identifier of its own emitted text that is not derived from a user name: the names the
//!     exporter itself introduced into that program (implicit parameters, argument buffers, stage structs, helpers)
//!  b, d and f additionally run over (i) every position next to a name the exporters introduce themselves: feature that makes
//!  them do so (wave lane count / index → implicit parameters, mesh / task / vertex / pixel stages → mesh object, payload,
//!  grid properties, stage structs) × role and place of the user name (local, parameter, of the function / of a caller / of
//!  the entry point / of a method, global, member, enumerator, function, struct, …) and (ii) every constant-folded position
//!  (case label, array size, template value argument, enumerator initialiser, attribute argument; default argument and
//!  constant initialiser next to them) × every way of writing a constant through a user name (cast of a value that matches
//!  an enumerator / matches none, enumerator through the enum / through the namespace, constant variable) × placement
//!  b and d additionally run over every kind of user type (struct, enum, typedef) × every position in which a type is
//!  written (local, parameter, return, template argument explicit / deduced / repeated / from a function / mentioned in the
//!  instantiation, buffer element, member, global, cast, sizeof, array, method signature, typedef source, for-init) ×
//!  placement (root, namespace, used from a sibling in the namespace)
//!  e also: the other declaration of the shared name sits in a scope that has ENDED at the use (statement kind × part of the
//!     statement holding the use: do-while / while / for condition, for increment, after for-init / block / if / switch, else
//!     after then) × 13 entity kinds (11 global kinds, parameter, earlier local) × written form × type of the other
//!     declaration (float / int) × names x, x_0 and `kernel` (reserved in Metal only); roles past-scope-end/<structure>
//!  b, d, f also: every stage (compute, vertex, pixel, task, mesh) × entry function declared in a namespace / a nested namespace
//!     × renamed name (function, namespace, outer namespace): variants entry-placement/…
//!  g  every kind of bound resource (13) × placement (root, namespace, used in a function) × ALL four configurations (both
//!     tiers) × plain names and representatives of every class of candidate words accepted as a global's name
//!  the reflection data (reported binding names and their slots / types) is compared like the text in every space:
//!     signatures use-rebound|binding-metadata|<target>, rename|alpha|binding-metadata|<target>; a reported entry point may be
//!     a path from the root; use-rebound|entry-point-metadata|<target>|declared-in-namespace = reported by leaf name only
//!
//! One oracle ("pair oracle") serves all spaces: a baseline program B (distinctive unique names) and a renamed program R
//! are compiled for one target; the emitted texts must be equal token by token outside tokens derived from the renamed
//! names; the syntax trees handed to the formatter (hook H1) are resolved with ordinary lexical scoping and every
//! identifier use must resolve to the same declaration as in the baseline and a use written with a user name must resolve
//! to some declaration at all; declarations of one scope must have
//! pairwise distinct names; emitted names of the renamed entity must not be in OUR reserved list of the target; the
//! HLSL text must still be accepted by the rssl front end.
//!
//! Signatures: rename|alpha|<role>|<target>, reserved|<hlsl|msl>|<role>|<category>, clash|<kind+kind>|<target>,
//! not-verbatim|<role>|<target>, use-rebound|<role>|<target>, reject|<role>|<target>, rename|rejected|<role>|<target>, panic|…,
//! use-unbound|<kind of the entity>|<target> (an emitted use of a user entity that no emitted declaration answers),
//! use-rebound|qualified-reference-…|<target>|by-<kind of the capturing declaration>
//! (space e roles: shadowed-by-namespace-member, shadowed-by-local-or-parameter, shadowed-by-struct-member,
//! shadowed-by-template-parameter)

use crate::engine::*;
use crate::json::{Json, obj};
use crate::util::*;
use rssl::ast;
use std::collections::{BTreeMap, BTreeSet};

// ---------------------------------------------------------------------------------------------------------------
// reference model `names`: words that are certainly reserved / built in, per target, with a category

fn add(m: &mut BTreeMap<String, &'static str>, cat: &'static str, words: &[&str]) {
    for w in words {
        m.entry(w.to_string()).or_insert(cat);
    }
}

/// C++ keywords shared by the HLSL "Reserved Words" page and by C++14 (MSL is C++14 based)
const HLSL_RESERVED_WORDS: &[&str] = &[
    "auto", "case", "catch", "char", "class", "const_cast", "default", "delete", "dynamic_cast", "enum", "explicit", "friend", "goto", "long", "mutable", "new",
    "operator", "private", "protected", "public", "reinterpret_cast", "short", "signed", "sizeof", "static_cast", "template", "this", "throw", "try", "typename",
    "union", "unsigned", "using", "virtual",
];

/// HLSL reference, "Keywords" (legacy effect-framework words that DXC may treat contextually are deliberately left out)
const HLSL_KEYWORDS: &[&str] = &[
    "asm", "bool", "break", "case", "cbuffer", "class", "column_major", "const", "continue", "default", "discard", "do", "double", "else", "export", "extern",
    "false", "float", "for", "groupshared", "half", "if", "in", "inline", "inout", "int", "interface", "namespace", "out", "packoffset", "register", "return",
    "row_major", "snorm", "static", "struct", "switch", "tbuffer", "true", "typedef", "uint", "uniform", "unorm", "unsigned", "void", "volatile", "while",
];

/// HLSL reference, "Keywords": interpolation / storage / geometry modifiers
const HLSL_MODIFIERS: &[&str] = &["centroid", "linear", "nointerpolation", "noperspective", "line", "lineadj", "point", "triangle", "triangleadj", "shared"];

/// HLSL reference, "Data Types": object types
const HLSL_OBJECT_TYPES: &[&str] = &[
    "AppendStructuredBuffer", "Buffer", "ByteAddressBuffer", "ConsumeStructuredBuffer", "ConstantBuffer", "InputPatch", "LineStream", "OutputPatch", "PointStream",
    "RWBuffer", "RWByteAddressBuffer", "RWStructuredBuffer", "RWTexture1D", "RWTexture1DArray", "RWTexture2D", "RWTexture2DArray", "RWTexture3D",
    "RasterizerOrderedBuffer", "RasterizerOrderedByteAddressBuffer", "RasterizerOrderedStructuredBuffer", "RasterizerOrderedTexture1D", "RasterizerOrderedTexture1DArray",
    "RasterizerOrderedTexture2D", "RasterizerOrderedTexture2DArray", "RasterizerOrderedTexture3D", "RayDesc", "RayQuery", "RaytracingAccelerationStructure",
    "SamplerComparisonState", "SamplerState", "StructuredBuffer", "Texture1D", "Texture1DArray", "Texture2D", "Texture2DArray", "Texture2DMS", "Texture2DMSArray",
    "Texture3D", "TextureBuffer", "TextureCube", "TextureCubeArray", "TriangleStream", "matrix", "sampler", "vector",
];

/// HLSL reference, "Intrinsic Functions" (shader model 5) plus the shader model 6 wave/quad/barrier intrinsics
const HLSL_INTRINSICS: &[&str] = &[
    "abort", "abs", "acos", "all", "AllMemoryBarrier", "AllMemoryBarrierWithGroupSync", "any", "asdouble", "asfloat", "asin", "asint", "asuint", "atan", "atan2", "ceil",
    "CheckAccessFullyMapped", "clamp", "clip", "cos", "cosh", "countbits", "cross", "D3DCOLORtoUBYTE4", "ddx", "ddx_coarse", "ddx_fine", "ddy", "ddy_coarse", "ddy_fine",
    "degrees", "determinant", "DeviceMemoryBarrier", "DeviceMemoryBarrierWithGroupSync", "distance", "dot", "dst", "errorf", "EvaluateAttributeCentroid",
    "EvaluateAttributeAtSample", "EvaluateAttributeSnapped", "exp", "exp2", "f16tof32", "f32tof16", "faceforward", "firstbithigh", "firstbitlow", "floor", "fma", "fmod",
    "frac", "frexp", "fwidth", "GetRenderTargetSampleCount", "GetRenderTargetSamplePosition", "GroupMemoryBarrier", "GroupMemoryBarrierWithGroupSync", "InterlockedAdd",
    "InterlockedAnd", "InterlockedCompareExchange", "InterlockedCompareStore", "InterlockedExchange", "InterlockedMax", "InterlockedMin", "InterlockedOr", "InterlockedXor",
    "isfinite", "isinf", "isnan", "ldexp", "length", "lerp", "lit", "log", "log10", "log2", "mad", "max", "min", "modf", "msad4", "mul", "noise", "normalize", "pow", "printf",
    "Process2DQuadTessFactorsAvg", "Process2DQuadTessFactorsMax", "Process2DQuadTessFactorsMin", "ProcessIsolineTessFactors", "ProcessQuadTessFactorsAvg",
    "ProcessQuadTessFactorsMax", "ProcessQuadTessFactorsMin", "ProcessTriTessFactorsAvg", "ProcessTriTessFactorsMax", "ProcessTriTessFactorsMin", "radians", "rcp", "reflect",
    "refract", "reversebits", "round", "rsqrt", "saturate", "sign", "sin", "sincos", "sinh", "smoothstep", "sqrt", "step", "tan", "tanh", "tex1D", "tex1Dbias", "tex1Dgrad",
    "tex1Dlod", "tex1Dproj", "tex2D", "tex2Dbias", "tex2Dgrad", "tex2Dlod", "tex2Dproj", "tex3D", "tex3Dbias", "tex3Dgrad", "tex3Dlod", "tex3Dproj", "texCUBE", "texCUBEbias",
    "texCUBEgrad", "texCUBElod", "texCUBEproj", "transpose", "trunc",
    // shader model 6.x
    "NonUniformResourceIndex", "QuadReadAcrossDiagonal", "QuadReadAcrossX", "QuadReadAcrossY", "QuadReadLaneAt", "WaveActiveAllEqual", "WaveActiveAllTrue", "WaveActiveAnyTrue",
    "WaveActiveBallot", "WaveActiveBitAnd", "WaveActiveBitOr", "WaveActiveBitXor", "WaveActiveCountBits", "WaveActiveMax", "WaveActiveMin", "WaveActiveProduct", "WaveActiveSum",
    "WaveGetLaneCount", "WaveGetLaneIndex", "WaveIsFirstLane", "WavePrefixCountBits", "WavePrefixProduct", "WavePrefixSum", "WaveReadLaneAt", "WaveReadLaneFirst",
    "DispatchMesh", "SetMeshOutputCounts", "TraceRay", "ReportHit", "CallShader", "IgnoreHit", "AcceptHitAndEndSearch",
];

/// HLSL "Data Types": scalar names that form vectors and matrices
const HLSL_SCALARS_FULL: &[&str] = &["bool", "int", "uint", "half", "float", "double", "min16float", "min10float", "min16int", "min12int", "min16uint"];
/// HLSL 2018+ fixed-width scalar names (scalar and vector spellings only)
const HLSL_SCALARS_FIXED: &[&str] = &["int16_t", "uint16_t", "int32_t", "uint32_t", "int64_t", "uint64_t", "float16_t", "float32_t", "float64_t"];

pub fn hlsl_reserved() -> BTreeMap<String, &'static str> {
    let mut m = BTreeMap::new();
    add(&mut m, "keyword", HLSL_KEYWORDS);
    add(&mut m, "keyword", HLSL_RESERVED_WORDS);
    add(&mut m, "modifier", HLSL_MODIFIERS);
    for s in HLSL_SCALARS_FULL {
        add(&mut m, "type-name", &[s]);
        for a in 1..=4 {
            add(&mut m, "type-name", &[&format!("{}{}", s, a)]);
            for b in 1..=4 {
                add(&mut m, "type-name", &[&format!("{}{}x{}", s, a, b)]);
            }
        }
    }
    for s in HLSL_SCALARS_FIXED {
        add(&mut m, "type-name", &[s]);
        for a in 2..=4 {
            add(&mut m, "type-name", &[&format!("{}{}", s, a)]);
        }
    }
    add(&mut m, "type-name", &["dword"]);
    add(&mut m, "object-type", HLSL_OBJECT_TYPES);
    add(&mut m, "intrinsic", HLSL_INTRINSICS);
    m
}

/// ISO C++14 [lex.key] keywords and alternative tokens (MSL specification, "Metal and C++14")
const CPP14_KEYWORDS: &[&str] = &[
    "alignas", "alignof", "asm", "auto", "bool", "break", "case", "catch", "char", "char16_t", "char32_t", "class", "const", "constexpr", "const_cast", "continue",
    "decltype", "default", "delete", "do", "double", "dynamic_cast", "else", "enum", "explicit", "export", "extern", "false", "float", "for", "friend", "goto", "if",
    "inline", "int", "long", "mutable", "namespace", "new", "noexcept", "nullptr", "operator", "private", "protected", "public", "register", "reinterpret_cast", "return",
    "short", "signed", "sizeof", "static", "static_assert", "static_cast", "struct", "switch", "template", "this", "thread_local", "throw", "true", "try", "typedef",
    "typeid", "typename", "union", "unsigned", "using", "virtual", "void", "volatile", "wchar_t", "while",
    // alternative tokens
    "and", "and_eq", "bitand", "bitor", "compl", "not", "not_eq", "or", "or_eq", "xor", "xor_eq",
];

/// MSL specification, "Address Spaces"
const MSL_ADDRESS_SPACES: &[&str] = &["device", "constant", "thread", "threadgroup", "threadgroup_imageblock", "ray_data", "object_data"];
/// MSL specification, "Functions": function qualifiers
const MSL_FUNCTION_QUALIFIERS: &[&str] = &["kernel", "vertex", "fragment"];
/// MSL specification, "Scalar Data Types" (table 2.1)
const MSL_SCALARS: &[&str] = &[
    "bool", "char", "uchar", "short", "ushort", "int", "uint", "long", "ulong", "half", "float", "size_t", "ptrdiff_t", "void", "int8_t", "uint8_t", "int16_t", "uint16_t",
    "int32_t", "uint32_t", "int64_t", "uint64_t",
];
/// MSL specification, "Vector Data Types" / "Packed Vector Types": element names
const MSL_VECTOR_ELEMS: &[&str] = &["bool", "char", "uchar", "short", "ushort", "int", "uint", "long", "ulong", "half", "float"];
/// names the MSL generator itself emits at global scope (msl/src/names.rs constants): candidate words only, the clash oracle judges them
const MSL_GENERATOR: &[&str] = &[
    "helper", "ComputeShaderEntry", "PixelShaderEntry", "VertexShaderEntry", "MeshShaderEntry", "TaskShaderEntry", "ArgumentBuffer0", "ArgumentBuffer1", "ArgumentBuffer2",
    "ArgumentBuffer3", "VertexOutput", "PixelInput", "PixelOutput", "metal", "main", "as_type",
];

pub fn msl_reserved() -> BTreeMap<String, &'static str> {
    let mut m = BTreeMap::new();
    add(&mut m, "keyword", CPP14_KEYWORDS);
    add(&mut m, "address-space", MSL_ADDRESS_SPACES);
    add(&mut m, "function-qualifier", MSL_FUNCTION_QUALIFIERS);
    add(&mut m, "type-name", MSL_SCALARS);
    for s in MSL_VECTOR_ELEMS {
        for a in 2..=4 {
            add(&mut m, "type-name", &[&format!("{}{}", s, a)]);
            if *s != "bool" {
                add(&mut m, "type-name", &[&format!("packed_{}{}", s, a)]);
            }
        }
    }
    add(&mut m, "keyword", &["as_type"]);
    m
}

/// further candidate words (tried in every role, but only the clash / alpha / rebinding oracles apply to them)
const EXTRA_CANDIDATES: &[&str] = &[
    "set0", "set1", "set2", "set3", "o_mesh", "o_vertices", "o_primitives", "o_payload", "mesh_grid_properties", "thread_index_in_simdgroup", "threads_per_simdgroup",
    "texture2d", "texture3d", "texturecube", "texture2d_array", "texture_buffer", "sampler", "atomic_int", "atomic_uint", "access", "array", "vec", "address", "size", "value", "offset",
    "T", "id", "CBType", "ChType", "precise", "sample", "vertices", "primitives", "indices", "payload", "globallycoherent", "string", "texture", "pass", "technique", "NULL",
    "SV_Position", "SV_Target", "numthreads", "Pipeline", "ComputeShader", "StaticSampler", "assert_type", "assert_eval", "BufferAddress", "RWBufferAddress",
];

fn string_literals(text: &str) -> Vec<String> {
    let mut out = Vec::new();
    let mut it = text.split('"');
    it.next();
    while let Some(s) = it.next() {
        out.push(s.to_string());
        it.next();
    }
    out
}

/// candidate words: our lists ∪ the words in rssl's own tables (read as data, never used as an oracle) ∪ intrinsic names of the front end ∪ extras
fn candidate_words() -> Vec<String> {
    let mut set: BTreeSet<String> = BTreeSet::new();
    set.extend(hlsl_reserved().into_keys());
    set.extend(msl_reserved().into_keys());
    for f in ["hlsl/src/names.rs", "msl/src/names.rs"] {
        if let Ok(t) = std::fs::read_to_string(format!("{}/{}", repo_root(), f)) {
            for s in string_literals(&t) {
                if is_ident(&s) {
                    set.insert(s);
                }
            }
        }
    }
    if let Ok(Ok(m)) = guard(|| typecheck_src("")) {
        for id in m.function_registry.iter() {
            if m.function_registry.get_intrinsic_data(id).is_some() {
                let n = m.function_registry.get_function_name(id).to_string();
                if is_ident(&n) {
                    set.insert(n);
                }
            }
        }
        for g in &m.global_registry {
            if g.is_intrinsic && is_ident(&g.name.node) {
                set.insert(g.name.node.clone());
            }
        }
    }
    for w in EXTRA_CANDIDATES.iter().chain(MSL_GENERATOR.iter()) {
        set.insert(w.to_string());
    }
    set.into_iter().collect()
}

/// identifiers that rssl's own reserved-name tables list (string literals of hlsl/src/names.rs and msl/src/names.rs)
fn names_rs_words() -> BTreeSet<String> {
    let mut set = BTreeSet::new();
    for f in ["hlsl/src/names.rs", "msl/src/names.rs"] {
        if let Ok(t) = std::fs::read_to_string(format!("{}/{}", repo_root(), f)) {
            for s in string_literals(&t) {
                if is_ident(&s) {
                    set.insert(s);
                }
            }
        }
    }
    set
}

fn is_ident(s: &str) -> bool {
    let b = s.as_bytes();
    !b.is_empty() && (b[0].is_ascii_alphabetic() || b[0] == b'_') && b.iter().all(|c| c.is_ascii_alphanumeric() || *c == b'_')
}

/// exporter of a configuration: the three HLSL configurations share one name generator and one reserved table
fn target_name(cfg: Cfg) -> &'static str {
    if cfg.is_hlsl() { "hlsl" } else { "msl" }
}

// ---------------------------------------------------------------------------------------------------------------
// token view of emitted text (works for HLSL and Metal): identifiers, pp-numbers, whitespace runs, single characters

fn tokens(text: &str) -> Vec<&str> {
    let b = text.as_bytes();
    let mut out = Vec::new();
    let mut i = 0;
    while i < b.len() {
        let s = i;
        let c = b[i];
        if c.is_ascii_alphabetic() || c == b'_' {
            while i < b.len() && (b[i].is_ascii_alphanumeric() || b[i] == b'_') {
                i += 1;
            }
        } else if c.is_ascii_digit() {
            while i < b.len() && (b[i].is_ascii_alphanumeric() || b[i] == b'_' || b[i] == b'.' || ((b[i] == b'+' || b[i] == b'-') && matches!(b[i - 1], b'e' | b'E' | b'p' | b'P'))) {
                i += 1;
            }
        } else if c.is_ascii_whitespace() {
            while i < b.len() && b[i].is_ascii_whitespace() {
                i += 1;
            }
        } else {
            i += 1;
            while i < b.len() && (b[i] & 0xC0) == 0x80 {
                i += 1;
            }
        }
        out.push(&text[s..i]);
    }
    out
}

/// The token view that is compared: a `::` that starts a path (root anchor) is left out, so an exporter may anchor a path
/// exactly when the names in scope make that necessary without the outputs counting as different
fn tokens_unanchored(text: &str) -> Vec<&str> {
    let toks = tokens(text);
    let mut out: Vec<&str> = Vec::with_capacity(toks.len());
    let mut i = 0;
    while i < toks.len() {
        if toks[i] == ":" && i + 1 < toks.len() && toks[i + 1] == ":" {
            let prev = out.iter().rev().find(|t| !t.as_bytes()[0].is_ascii_whitespace()).copied();
            let qualifies = prev.map(|t| is_ident_token(t) || t == ">").unwrap_or(false) && out.last().map(|t| !t.as_bytes()[0].is_ascii_whitespace()).unwrap_or(false);
            if !qualifies {
                i += 2;
                continue;
            }
        }
        out.push(toks[i]);
        i += 1;
    }
    out
}

fn is_ident_token(t: &str) -> bool {
    let c = t.as_bytes()[0];
    c.is_ascii_alphabetic() || c == b'_'
}

// ---------------------------------------------------------------------------------------------------------------
// scope analysis of a syntax tree (source trees and the trees handed to the formatter by both exporters)

#[derive(Copy, Clone, PartialEq, Eq, Debug, PartialOrd, Ord, Hash)]
pub enum K {
    Namespace,
    Struct,
    Member,
    Method,
    Enum,
    EnumValue,
    Typedef,
    CBuffer,
    CBufferMember,
    Global,
    Function,
    Param,
    Local,
    TemplateParam,
    Pipeline,
}

impl K {
    fn name(self) -> &'static str {
        match self {
            K::Namespace => "namespace",
            K::Struct => "struct",
            K::Member => "member",
            K::Method => "method",
            K::Enum => "enum",
            K::EnumValue => "enum-value",
            K::Typedef => "typedef",
            K::CBuffer => "cbuffer",
            K::CBufferMember => "cbuffer-member",
            K::Global => "global",
            K::Function => "function",
            K::Param => "parameter",
            K::Local => "local",
            K::TemplateParam => "template-parameter",
            K::Pipeline => "pipeline",
        }
    }
}

pub struct Decl {
    pub kind: K,
    pub name: String,
    pub scope: usize,
    /// scope opened by this declaration (namespace, struct, enum)
    pub inner: Option<usize>,
}

pub struct Scope {
    pub parent: Option<usize>,
    pub decls: Vec<usize>,
    pub in_helper: bool,
    pub label: String,
}

pub struct UseRec {
    pub path: String,
    pub res: Vec<usize>,
    /// what the first segment of the path resolves to
    pub first: Vec<usize>,
}

pub struct An {
    pub decls: Vec<Decl>,
    pub scopes: Vec<Scope>,
    pub uses: Vec<UseRec>,
    /// names after `.` (never resolved through scopes)
    pub member_uses: Vec<String>,
}

impl An {
    pub fn of(m: &ast::Module) -> An {
        let mut a = An { decls: Vec::new(), scopes: vec![Scope { parent: None, decls: Vec::new(), in_helper: false, label: "::".into() }], uses: Vec::new(), member_uses: Vec::new() };
        for d in &m.root_definitions {
            a.root(0, d);
        }
        a
    }

    fn new_scope(&mut self, parent: usize, label: &str) -> usize {
        let in_helper = self.scopes[parent].in_helper || (parent == 0 && label == "namespace helper");
        self.scopes.push(Scope { parent: Some(parent), decls: Vec::new(), in_helper, label: label.to_string() });
        self.scopes.len() - 1
    }

    fn declare(&mut self, scope: usize, kind: K, name: &str) -> usize {
        self.decls.push(Decl { kind, name: name.to_string(), scope, inner: None });
        let id = self.decls.len() - 1;
        self.scopes[scope].decls.push(id);
        id
    }

    fn lookup_in(&self, scope: usize, name: &str) -> Vec<usize> {
        let mut v: Vec<usize> = self.scopes[scope].decls.iter().copied().filter(|d| self.decls[*d].name == name).collect();
        v.sort();
        v.dedup();
        v
    }

    fn lookup(&self, mut scope: usize, name: &str) -> Vec<usize> {
        loop {
            let v = self.lookup_in(scope, name);
            if !v.is_empty() {
                return v;
            }
            match self.scopes[scope].parent {
                Some(p) => scope = p,
                None => return Vec::new(),
            }
        }
    }

    fn resolve(&mut self, scope: usize, id: &ast::ScopedIdentifier) {
        let names: Vec<&str> = id.identifiers.iter().map(|i| i.node.as_str()).collect();
        let mut path = if id.base == ast::ScopedIdentifierBase::Absolute { String::from("::") } else { String::new() };
        path.push_str(&names.join("::"));
        let mut cur: Vec<usize> = if names.is_empty() {
            Vec::new()
        } else if id.base == ast::ScopedIdentifierBase::Absolute {
            self.lookup_in(0, names[0])
        } else {
            self.lookup(scope, names[0])
        };
        let first = cur.clone();
        for n in names.iter().skip(1) {
            let mut next = Vec::new();
            for d in &cur {
                if let Some(s) = self.decls[*d].inner {
                    next.extend(self.lookup_in(s, n));
                }
            }
            next.sort();
            next.dedup();
            cur = next;
        }
        self.uses.push(UseRec { path, res: cur, first });
    }

    fn decl_name(d: &ast::Declarator) -> Option<&ast::ScopedIdentifier> {
        match d {
            ast::Declarator::Empty => None,
            ast::Declarator::Identifier(id, _) => Some(id),
            ast::Declarator::Pointer(p) => Self::decl_name(&p.inner),
            ast::Declarator::Reference(r) => Self::decl_name(&r.inner),
            ast::Declarator::Array(a) => Self::decl_name(&a.inner),
        }
    }

    fn decl_exprs(&mut self, scope: usize, d: &ast::Declarator) {
        match d {
            ast::Declarator::Empty | ast::Declarator::Identifier(_, _) => {}
            ast::Declarator::Pointer(p) => self.decl_exprs(scope, &p.inner),
            ast::Declarator::Reference(r) => self.decl_exprs(scope, &r.inner),
            ast::Declarator::Array(a) => {
                if let Some(e) = &a.array_size {
                    self.expr(scope, &e.node);
                }
                self.decl_exprs(scope, &a.inner);
            }
        }
    }

    fn root(&mut self, scope: usize, d: &ast::RootDefinition) {
        match d {
            ast::RootDefinition::Struct(s) => {
                let id = self.declare(scope, K::Struct, &s.name.node);
                let inner = self.new_scope(scope, &format!("struct {}", s.name.node));
                self.decls[id].inner = Some(inner);
                self.template_params(inner, &s.template_params);
                for t in &s.base_types {
                    self.ty(scope, t);
                }
                // class scope is complete inside method bodies: declare all members first
                for m in &s.members {
                    match m {
                        ast::StructEntry::Variable(v) => {
                            self.ty(inner, &v.ty);
                            for def in &v.defs {
                                if let Some(n) = Self::decl_name(&def.declarator) {
                                    if let Some(last) = n.identifiers.last() {
                                        self.declare(inner, K::Member, &last.node);
                                    }
                                }
                                self.decl_exprs(inner, &def.declarator);
                            }
                        }
                        ast::StructEntry::Method(f) => {
                            self.declare(inner, K::Method, &f.name.node);
                        }
                    }
                }
                for m in &s.members {
                    if let ast::StructEntry::Method(f) = m {
                        self.function_inner(inner, f);
                    }
                }
            }
            ast::RootDefinition::Enum(e) => {
                let id = self.declare(scope, K::Enum, &e.name.node);
                let inner = self.new_scope(scope, &format!("enum {}", e.name.node));
                self.decls[id].inner = Some(inner);
                for v in &e.values {
                    if let Some(x) = &v.value {
                        self.expr(inner, &x.node);
                    }
                    // unscoped enumeration: the value is a member of the enumeration and of the enclosing scope
                    let vid = self.declare(inner, K::EnumValue, &v.name.node);
                    self.scopes[scope].decls.push(vid);
                }
            }
            ast::RootDefinition::Typedef(t) => {
                self.ty(scope, &t.source);
                if let Some(n) = Self::decl_name(&t.declarator) {
                    if let Some(last) = n.identifiers.last() {
                        self.declare(scope, K::Typedef, &last.node);
                    }
                }
            }
            ast::RootDefinition::ConstantBuffer(cb) => {
                self.declare(scope, K::CBuffer, &cb.name.node);
                for m in &cb.members {
                    self.ty(scope, &m.ty);
                    for def in &m.defs {
                        if let Some(n) = Self::decl_name(&def.declarator) {
                            if let Some(last) = n.identifiers.last() {
                                self.declare(scope, K::CBufferMember, &last.node);
                            }
                        }
                        self.decl_exprs(scope, &def.declarator);
                    }
                }
            }
            ast::RootDefinition::GlobalVariable(g) => {
                self.ty(scope, &g.global_type);
                for def in &g.defs {
                    if let Some(n) = Self::decl_name(&def.declarator) {
                        if let Some(last) = n.identifiers.last() {
                            self.declare(scope, K::Global, &last.node);
                        }
                    }
                    self.decl_exprs(scope, &def.declarator);
                    if let Some(i) = &def.init {
                        self.init(scope, i);
                    }
                }
            }
            ast::RootDefinition::Function(f) => {
                self.declare(scope, K::Function, &f.name.node);
                self.function_inner(scope, f);
            }
            ast::RootDefinition::Namespace(name, defs) => {
                let existing = self.lookup_in(scope, &name.node).into_iter().find(|d| self.decls[*d].kind == K::Namespace);
                let inner = match existing {
                    Some(d) => self.decls[d].inner.unwrap(),
                    None => {
                        let id = self.declare(scope, K::Namespace, &name.node);
                        let inner = self.new_scope(scope, &format!("namespace {}", name.node));
                        self.decls[id].inner = Some(inner);
                        inner
                    }
                };
                for d in defs {
                    self.root(inner, d);
                }
            }
            ast::RootDefinition::Pipeline(p) => {
                self.declare(scope, K::Pipeline, &p.name.node);
                self.pipeline_props(scope, &p.properties);
            }
        }
    }

    fn pipeline_props(&mut self, scope: usize, props: &[ast::PipelineProperty]) {
        for p in props {
            match &p.value.node {
                ast::PipelinePropertyValue::Single(e) => {
                    // only entry point bindings are references to user entities
                    if p.property.node.ends_with("Shader") {
                        self.expr(scope, e);
                    }
                }
                ast::PipelinePropertyValue::Aggregate(v) => self.pipeline_props(scope, v),
            }
        }
    }

    fn template_params(&mut self, scope: usize, t: &ast::TemplateParamList) {
        for p in &t.0 {
            match p {
                ast::TemplateParam::Type(tp) => {
                    if let Some(d) = &tp.default {
                        self.ty(scope, d);
                    }
                    if let Some(n) = &tp.name {
                        self.declare(scope, K::TemplateParam, &n.node);
                    }
                }
                ast::TemplateParam::Value(vp) => {
                    self.ty(scope, &vp.value_type);
                    if let Some(d) = &vp.default {
                        self.expr(scope, &d.node);
                    }
                    if let Some(n) = &vp.name {
                        self.declare(scope, K::TemplateParam, &n.node);
                    }
                }
            }
        }
    }

    /// parameters, template parameters and the outermost block of the body share one scope
    fn function_inner(&mut self, outer: usize, f: &ast::FunctionDefinition) {
        // attribute arguments ([numthreads(N, 1, 1)]) are written before the function and see the enclosing scope
        for a in &f.attributes {
            for x in &a.arguments {
                self.expr(outer, &x.node);
            }
        }
        let fs = self.new_scope(outer, &format!("function {}", f.name.node));
        self.template_params(fs, &f.template_params);
        self.ty(fs, &f.returntype.return_type);
        for p in &f.params {
            self.ty(fs, &p.param_type);
            self.decl_exprs(fs, &p.declarator);
            if let Some(n) = Self::decl_name(&p.declarator) {
                if let Some(last) = n.identifiers.last() {
                    self.declare(fs, K::Param, &last.node);
                }
            }
            if let Some(e) = &p.default_expr {
                self.expr(fs, e);
            }
        }
        if let Some(body) = &f.body {
            for s in body {
                self.stmt(fs, s);
            }
        }
    }

    fn vardef(&mut self, scope: usize, v: &ast::VarDef) {
        self.ty(scope, &v.local_type);
        for def in &v.defs {
            self.decl_exprs(scope, &def.declarator);
            if let Some(n) = Self::decl_name(&def.declarator) {
                if let Some(last) = n.identifiers.last() {
                    self.declare(scope, K::Local, &last.node);
                }
            }
            if let Some(i) = &def.init {
                self.init(scope, i);
            }
        }
    }

    fn init(&mut self, scope: usize, i: &ast::Initializer) {
        match i {
            ast::Initializer::Expression(e) => self.expr(scope, &e.node),
            ast::Initializer::Aggregate(v) => {
                for x in v {
                    self.init(scope, x);
                }
            }
            ast::Initializer::StaticSampler(_) => {}
        }
    }

    fn sub_stmt(&mut self, scope: usize, s: &ast::Statement) {
        // a sub-statement that is not a block still opens a scope of its own
        if matches!(s.kind, ast::StatementKind::Block(_)) {
            self.stmt(scope, s);
        } else {
            let inner = self.new_scope(scope, "substatement");
            self.stmt(inner, s);
        }
    }

    fn stmt(&mut self, scope: usize, s: &ast::Statement) {
        use ast::StatementKind as S;
        match &s.kind {
            S::Empty | S::Break | S::Continue | S::Discard => {}
            S::Expression(e) => self.expr(scope, e),
            S::Var(v) => self.vardef(scope, v),
            S::AmbiguousDeclarationOrExpression(v, _) => self.vardef(scope, v),
            S::Block(b) => {
                let inner = self.new_scope(scope, "block");
                for x in b {
                    self.stmt(inner, x);
                }
            }
            S::If(c, t) => {
                self.expr(scope, &c.node);
                self.sub_stmt(scope, t);
            }
            S::IfElse(c, t, e) => {
                self.expr(scope, &c.node);
                self.sub_stmt(scope, t);
                self.sub_stmt(scope, e);
            }
            S::For(i, c, n, b) => {
                let inner = self.new_scope(scope, "for");
                match i {
                    ast::InitStatement::Empty => {}
                    ast::InitStatement::Expression(e) => self.expr(inner, &e.node),
                    ast::InitStatement::Declaration(v) => self.vardef(inner, v),
                }
                if let Some(c) = c {
                    self.expr(inner, &c.node);
                }
                if let Some(n) = n {
                    self.expr(inner, &n.node);
                }
                self.sub_stmt(inner, b);
            }
            S::While(c, b) => {
                self.expr(scope, &c.node);
                self.sub_stmt(scope, b);
            }
            S::DoWhile(b, c) => {
                self.sub_stmt(scope, b);
                self.expr(scope, &c.node);
            }
            S::Switch(c, b) => {
                self.expr(scope, &c.node);
                self.sub_stmt(scope, b);
            }
            S::Return(e) => {
                if let Some(e) = e {
                    self.expr(scope, &e.node);
                }
            }
            S::CaseLabel(v, n) => {
                self.expr(scope, &v.node);
                self.stmt(scope, n);
            }
            S::DefaultLabel(n) => self.stmt(scope, n),
        }
    }

    fn ty(&mut self, scope: usize, t: &ast::Type) {
        self.resolve(scope, &t.layout.0);
        for a in t.layout.1.iter() {
            self.eot(scope, a);
        }
    }

    fn type_id(&mut self, scope: usize, t: &ast::TypeId) {
        self.ty(scope, &t.base);
        self.decl_exprs(scope, &t.abstract_declarator);
    }

    fn eot(&mut self, scope: usize, a: &ast::ExpressionOrType) {
        match a {
            ast::ExpressionOrType::Expression(e) => self.expr(scope, &e.node),
            ast::ExpressionOrType::Type(t) => self.type_id(scope, t),
            ast::ExpressionOrType::Either(e, _) => self.expr(scope, &e.node),
        }
    }

    fn expr(&mut self, scope: usize, e: &ast::Expression) {
        use ast::Expression as E;
        match e {
            E::Literal(_) => {}
            E::Identifier(id) => self.resolve(scope, id),
            E::UnaryOperation(_, a) => self.expr(scope, &a.node),
            E::BinaryOperation(_, a, b) => {
                self.expr(scope, &a.node);
                self.expr(scope, &b.node);
            }
            E::TernaryConditional(a, b, c) => {
                self.expr(scope, &a.node);
                self.expr(scope, &b.node);
                self.expr(scope, &c.node);
            }
            E::ArraySubscript(a, b) => {
                self.expr(scope, &a.node);
                self.expr(scope, &b.node);
            }
            E::Member(a, name) => {
                self.expr(scope, &a.node);
                self.member_uses.push(name.identifiers.iter().map(|i| i.node.as_str()).collect::<Vec<_>>().join("::"));
            }
            E::Call(f, targs, args) => {
                self.expr(scope, &f.node);
                for t in targs {
                    self.eot(scope, t);
                }
                for a in args {
                    self.expr(scope, &a.node);
                }
            }
            E::Cast(t, a) => {
                self.type_id(scope, t);
                self.expr(scope, &a.node);
            }
            E::BracedInit(t, inits) => {
                self.type_id(scope, t);
                for i in inits {
                    self.init(scope, i);
                }
            }
            E::SizeOf(x) => self.eot(scope, x),
            E::AmbiguousParseBranch(b) => {
                if let Some(first) = b.first() {
                    self.expr(scope, &first.expr.node);
                }
            }
        }
    }

    /// pairs of distinct declarations of one scope that share a name (outside the generator's `helper` namespace)
    pub fn clashes(&self) -> Vec<(usize, usize)> {
        let mut out = Vec::new();
        for s in &self.scopes {
            if s.in_helper {
                continue;
            }
            let mut ids = s.decls.clone();
            ids.sort();
            ids.dedup();
            for (i, a) in ids.iter().enumerate() {
                for b in ids.iter().skip(i + 1) {
                    if self.decls[*a].name == self.decls[*b].name {
                        out.push((*a, *b));
                    }
                }
            }
        }
        out
    }

    /// The exporters only emit instantiations: a type parameter in the header of one that carries the name of a struct
    /// visible from outside the function is a placeholder for exactly that struct, so a use bound to the placeholder and a
    /// use bound to the struct refer to one entity
    pub fn canonical(&self, res: &[usize]) -> Vec<usize> {
        let mut out: Vec<usize> = res
            .iter()
            .map(|d| {
                let decl = &self.decls[*d];
                if decl.kind == K::TemplateParam {
                    if let Some(outer) = self.scopes[decl.scope].parent {
                        let found = self.lookup(outer, &decl.name);
                        if found.len() == 1 && self.decls[found[0]].kind == K::Struct {
                            return found[0];
                        }
                    }
                }
                *d
            })
            .collect();
        out.sort();
        out.dedup();
        out
    }

    pub fn describe(&self, d: usize) -> String {
        format!("{} `{}` in {}", self.decls[d].kind.name(), self.decls[d].name, self.scopes[self.decls[d].scope].label)
    }
}

// ---------------------------------------------------------------------------------------------------------------
// running the real compiler

pub struct Out {
    pub text: String,
    pub tree: ast::Module,
    pub entry_points: Vec<String>,
    /// the reflection data returned next to the text: (reported name, everything else about the binding), in reported order
    pub bindings: Vec<(String, String)>,
}

pub enum Comp {
    Ok(Box<Out>),
    Rejected(String),
    Panic(PanicInfo),
}

fn take_tree(cfg: Cfg) -> Option<ast::Module> {
    if cfg.is_hlsl() { rssl::hlsl::verif::take_last_ast() } else { rssl::msl::verif::take_last_ast() }
}

pub fn compile_out(src: &str, cfg: Cfg, mode: &Mode) -> Comp {
    let r = guard(|| {
        let _ = take_tree(cfg);
        let r = compile1(src, cfg, mode.clone());
        (r, take_tree(cfg))
    });
    match r {
        Err(p) => Comp::Panic(p),
        Ok((Err(e), _)) => Comp::Rejected(e),
        Ok((Ok(ps), tree)) => {
            if ps.len() != 1 {
                return Comp::Rejected(format!("{} pipelines", ps.len()));
            }
            let tree = match tree {
                Some(t) => t,
                None => return Comp::Rejected("no syntax tree stashed by the exporter".into()),
            };
            let p = &ps[0];
            Comp::Ok(Box::new(Out {
                text: String::from_utf8_lossy(&p.data).to_string(),
                tree,
                entry_points: p.stages.iter().map(|s| s.entry_point.clone()).collect(),
                bindings: p
                    .metadata
                    .bind_groups
                    .iter()
                    .enumerate()
                    .flat_map(|(gi, g)| {
                        g.bindings.iter().map(move |b| {
                            (b.name.clone(), format!("group {} {:?} {:?} {:?} bindless={} static_sampler={}", gi, b.api_binding, b.descriptor_type, b.descriptor_count, b.is_bindless, b.static_sampler.is_some()))
                        })
                    })
                    .collect(),
            }))
        }
    }
}

fn hlsl_accepts(text: &str) -> Result<(), String> {
    match guard(|| typecheck_src(text)) {
        Ok(Ok(_)) => Ok(()),
        Ok(Err(e)) => Err(e),
        Err(p) => Err(format!("panic: {}", p.message)),
    }
}

// ---------------------------------------------------------------------------------------------------------------
// the pair oracle

#[derive(Copy, Clone, PartialEq, Eq, Debug)]
pub enum Strict {
    /// fresh names: every derived token must be the baseline token with the name replaced
    Exact,
    /// as Free, and a token equal to the baseline name must be emitted as the chosen name
    Verbatim,
    /// the emitted name may differ from the chosen one (reserved words get a suffix) but must be consistent
    Free,
}

impl Strict {
    fn name(self) -> &'static str {
        match self {
            Strict::Exact => "exact",
            Strict::Verbatim => "verbatim",
            Strict::Free => "free",
        }
    }
}

pub struct Pair<'a> {
    pub space: &'a str,
    pub role: &'a str,
    pub base: &'a str,
    pub ren: &'a str,
    /// baseline name -> chosen name
    pub map: &'a [(String, String)],
    pub strict: Strict,
    pub cfg: Cfg,
    pub mode: &'a Mode,
    /// where the chosen names come from: "plain", "reserved-word", "generator-name", "other-word" (part of clash signatures)
    pub origin: &'a str,
    /// the renamed source was certified to be a renaming of the baseline by the reference scoping model (`certify`) and uses
    /// no word that is built in to rssl: the front end's own binding is then not consulted to excuse a difference, and a
    /// rejection of the renamed program is a violation
    pub certified: bool,
    /// free text that identifies the case within its space (details and replays only)
    pub note: &'a str,
}

pub struct Lists {
    pub hlsl: BTreeMap<String, &'static str>,
    pub msl: BTreeMap<String, &'static str>,
}

impl Lists {
    pub fn new() -> Lists {
        Lists { hlsl: hlsl_reserved(), msl: msl_reserved() }
    }
    fn of(&self, cfg: Cfg) -> &BTreeMap<String, &'static str> {
        if cfg.is_hlsl() { &self.hlsl } else { &self.msl }
    }
}

fn mode_name(m: &Mode) -> String {
    match m {
        Mode::All => "all".into(),
        Mode::NoPipeline => "nopipe".into(),
        Mode::Named(n) => n.clone(),
    }
}

fn replay_body(p: &Pair) -> String {
    let mut s = format!("kind: pair\nspace: {}\nrole: {}\norigin: {}\ntarget: {}\nmode: {}\nstrict: {}\ncertified: {}\nnote: {}\n", p.space, p.role, p.origin, p.cfg.name(), mode_name(p.mode), p.strict.name(), p.certified, p.note);
    for (k, v) in p.map {
        s.push_str(&format!("map: {}={}\n", k, v));
    }
    s.push_str("--- base\n");
    s.push_str(p.base);
    s.push_str("\n--- renamed\n");
    s.push_str(p.ren);
    s
}

fn find_key(tok: &str, map: &[(String, String)]) -> Option<(usize, usize)> {
    let mut best: Option<(usize, usize)> = None;
    for (i, (k, _)) in map.iter().enumerate() {
        if let Some(o) = tok.find(k.as_str()) {
            if best.map(|b| o < b.0).unwrap_or(true) {
                best = Some((o, i));
            }
        }
    }
    best
}

fn excerpt(toks: &[&str], i: usize) -> String {
    let lo = i.saturating_sub(12);
    let hi = (i + 8).min(toks.len());
    toks[lo..hi].concat()
}

#[derive(PartialEq, Eq, Debug, Clone, Copy)]
pub enum Verdict {
    /// the renamed program (or the baseline) is not accepted for this target: outside the property's domain
    Outside,
    Held,
    Violated,
}

/// identifiers that rssl's parser takes for a type modifier when they stand where a type starts (parser/src/parser/types.rs)
const RSSL_TYPE_MODIFIER_WORDS: &[&str] = &[
    "precise", "nointerpolation", "linear", "centroid", "noperspective", "sample", "point", "line", "triangle", "lineadj", "triangleadj", "vertices", "primitives", "indices", "payload",
];

/// roles whose names never pass through the name generator (signature naming only; no influence on verdicts)
const UNMANAGED_ROLES: &[&str] = &["struct-member", "enum-value", "cbuffer", "cbuffer-member", "template-parameter", "namespace"];

fn reserved_signature(cfg: Cfg, role: &str, cat: &str) -> String {
    let t = if cfg.is_hlsl() { "hlsl" } else { "msl" };
    if UNMANAGED_ROLES.contains(&role) {
        format!("reserved|{}|{}|any", t, role)
    } else if role == "local" || role == "parameter" {
        format!("reserved|{}|local-or-parameter|{}", t, cat)
    } else {
        format!("reserved|{}|symbol|{}", t, cat)
    }
}

/// The type-checked form of the user's part of a source program (intrinsics and the type registry are left out; ids stay
/// comparable because registration order is deterministic), locations removed, baseline names replaced by the chosen ones
fn source_shape(src: &str, map: &[(String, String)]) -> Option<String> {
    use std::fmt::Write;
    match guard(|| typecheck_src(src)) {
        Ok(Ok(m)) => {
            let mut s = String::new();
            for id in m.function_registry.iter() {
                if m.function_registry.get_intrinsic_data(id).is_some() {
                    continue;
                }
                let _ = writeln!(
                    s,
                    "{:?} {:?} {:?} {:?}",
                    id,
                    m.function_registry.get_function_name(id),
                    m.function_registry.get_function_signature(id),
                    m.function_registry.get_function_implementation(id)
                );
            }
            let _ = writeln!(s, "{:?}\n{:?}\n{:?}\n{:?}\n{:?}", m.struct_registry, m.cbuffer_registry, m.variable_registry, m.root_definitions, m.pipelines);
            // type ids are registration-order indices: two programs that differ only in WHICH type the n-th registered type
            // is (typedef int bool; ... bool ... binds the built-in) are told apart by the registered types themselves
            let _ = writeln!(s, "{:?}", m.type_registry);
            for g in m.global_registry.iter().filter(|g| !g.is_intrinsic) {
                let _ = writeln!(s, "{:?}", g);
            }
            for i in 0..m.enum_registry.get_enum_count() {
                let _ = writeln!(s, "{:?}", m.enum_registry.get_enum_definition(rssl::ir::EnumId(i)));
            }
            // the values of the enumerators: `(w)2` in an initialiser is a cast to a built-in type when w is one
            let _ = writeln!(s, "{:?}", m.enum_registry);
            let mut s = sort_variable_lists(&crate::ast_norm::strip(&s));
            for (k, v) in map {
                s = s.replace(&format!("\"{}\"", k), &format!("\"{}\"", v));
            }
            Some(s)
        }
        _ => None,
    }
}

/// `ScopedDeclarations { variables: [..] }` lists the variables of a scope in name-dependent order: sort the ids
fn sort_variable_lists(s: &str) -> String {
    let pat = "ScopedDeclarations { variables: [";
    let mut out = String::with_capacity(s.len());
    let mut rest = s;
    while let Some(i) = rest.find(pat) {
        let start = i + pat.len();
        out.push_str(&rest[..start]);
        let end = start + rest[start..].find(']').unwrap_or(0);
        let mut items: Vec<&str> = rest[start..end].split(", ").collect();
        items.sort();
        out.push_str(&items.join(", "));
        rest = &rest[end..];
    }
    out.push_str(rest);
    out
}

/// Does the front end bind every name of the renamed source as it binds the baseline source? (A word that is built in
/// to rssl itself, e.g. a type name, can change the meaning of `w(1)` from a call to a cast: then R is not a renaming of B.)
fn same_source_binding(p: &Pair) -> bool {
    match (source_shape(p.base, p.map), source_shape(p.ren, &[])) {
        (Some(b), Some(r)) => {
            if b != r && std::env::var("C15_SHOW_FILTERED").is_ok() {
                let i = b.bytes().zip(r.bytes()).position(|(x, y)| x != y).unwrap_or(0);
                let lo = i.saturating_sub(150);
                eprintln!("SHAPEDIFF base: …{}\nSHAPEDIFF ren:  …{}", &b[lo..(i + 100).min(b.len())], &r[lo..(i + 100).min(r.len())]);
            }
            b == r
        }
        _ => false,
    }
}

/// Compare the output of the renamed program with the output of the baseline. `base_out` must come from `p.base`.
pub fn check_pair(p: &Pair, base_out: &Out, base_an: &An, base_accepted_by_front_end: bool, lists: &Lists, acc: &mut Acc) -> Verdict {
    let tname = target_name(p.cfg);
    let ren_out = match compile_out(p.ren, p.cfg, p.mode) {
        Comp::Ok(o) => o,
        Comp::Rejected(e) => {
            if p.certified {
                acc.violation(Violation {
                    signature: format!("rename|rejected|{}|{}", p.role, tname),
                    detail: format!("[{} space {} ({})] renaming {:?}: the baseline is accepted and the renamed program binds every name alike under lexical scoping, but it is rejected: {}", p.cfg.name(), p.space, p.note, p.map, one_line(&e, 240)),
                    replay: replay_body(p),
                });
                return Verdict::Violated;
            }
            return Verdict::Outside;
        }
        Comp::Panic(pi) => {
            // a program on which the compiler panics is not an accepted program (totality is property C08)
            acc.count(&format!("outside_{}", pi.signature()));
            return Verdict::Outside;
        }
    };
    // (signature, detail, depends on the source-level binding being that of the baseline)
    let mut pending: Vec<(String, String, bool)> = Vec::new();
    let chosen: Vec<String> = p.map.iter().map(|(_, v)| v.clone()).collect();

    // 1. text: equal token by token outside tokens derived from the renamed names
    let tb = tokens_unanchored(&base_out.text);
    let tr = tokens_unanchored(&ren_out.text);
    let mut image: BTreeMap<&str, &str> = BTreeMap::new();
    let mut text_ok = true;
    if tb.len() != tr.len() {
        let i = tb.iter().zip(tr.iter()).position(|(a, b)| a != b && find_key(a, p.map).is_none()).unwrap_or(tb.len().min(tr.len()));
        pending.push((
            format!("rename|alpha|{}|{}", p.role, tname),
            format!("renaming {:?}: output has {} tokens, baseline {}; first structural difference near baseline `{}` vs renamed `{}`", p.map, tr.len(), tb.len(), excerpt(&tb, i.min(tb.len().saturating_sub(1))), excerpt(&tr, i.min(tr.len().saturating_sub(1)))),
            true,
        ));
        text_ok = false;
    }
    if text_ok {
        for i in 0..tb.len() {
            let (a, b) = (tb[i], tr[i]);
            let key = if is_ident_token(a) { find_key(a, p.map) } else { None };
            match key {
                None => {
                    if a != b {
                        pending.push((
                            format!("rename|alpha|{}|{}", p.role, tname),
                            format!("renaming {:?}: token `{}` became `{}` although it does not derive from a renamed name; baseline `{}` vs renamed `{}`", p.map, a, b, excerpt(&tb, i), excerpt(&tr, i)),
                            true,
                        ));
                        text_ok = false;
                        break;
                    }
                }
                Some((o, k)) => {
                    let (kname, vname) = (&p.map[k].0, &p.map[k].1);
                    if let Some(prev) = image.get(a) {
                        if *prev != b {
                            pending.push((
                                format!("use-rebound|{}|{}", p.role, tname),
                                format!("renaming {:?}: baseline name `{}` is printed as `{}` and as `{}` in the renamed output: `{}`", p.map, a, prev, b, one_line(excerpt(&tr, i).trim(), 160)),
                                true,
                            ));
                            text_ok = false;
                            break;
                        }
                    } else {
                        image.insert(a, b);
                    }
                    match p.strict {
                        Strict::Exact => {
                            let expected = format!("{}{}{}", &a[..o], vname, &a[o + kname.len()..]);
                            if b != expected {
                                pending.push((
                                    format!("rename|alpha|{}|{}", p.role, tname),
                                    format!("renaming {}→{}: baseline token `{}` should become `{}` but is `{}`: `{}`", kname, vname, a, expected, b, excerpt(&tr, i)),
                                    true,
                                ));
                                text_ok = false;
                                break;
                            }
                        }
                        Strict::Verbatim => {}
                        Strict::Free => {}
                    }
                }
            }
        }
    }
    // verbatim: the entity is emitted (some token derives from its baseline name) and is unique in its scope by construction
    // of the templates, so its declaration must carry exactly the chosen name
    // (an entity that becomes several target entities - overloads, template instances - is not "unique in its scope")
    let entities = image
        .keys()
        .filter(|a| match a.strip_prefix(p.map[0].0.as_str()) {
            Some("") => true,
            Some(rest) => rest.len() > 1 && rest.starts_with('_') && rest[1..].bytes().all(|c| c.is_ascii_digit()),
            None => false,
        })
        .count();
    if text_ok && p.strict == Strict::Verbatim && entities == 1 {
        let vname = &p.map[0].1;
        if !image.values().any(|b| b == vname) {
            pending.push((
                format!("not-verbatim|{}|{}", p.role, tname),
                format!("name `{}` (unique in its scope, not reserved) is emitted as {:?}", vname, image.values().collect::<BTreeSet<_>>()),
                true,
            ));
        }
    }
    if p.map.len() == 1 {
        if let Some(b) = image.get(p.map[0].0.as_str()) {
            acc.count(if *b == p.map[0].1 { "single_name_emitted_verbatim" } else { "single_name_emitted_with_suffix" });
        }
    }

    // 2. reserved words (our list of the target); space c is about collisions only
    let mut reserved_hit = false;
    //    and so is space e (capture of references; its names are plain, plus one word that gets a suffix in Metal)
    if p.strict != Strict::Exact && p.space != "c" && p.space != "e" {
        let list = lists.of(p.cfg);
        let mut seen = BTreeSet::new();
        for (a, b) in &image {
            if let Some(cat) = list.get(*b) {
                if seen.insert(*b) {
                    reserved_hit = true;
                    acc.count(&format!("word|{}|{}|{}", reserved_signature(p.cfg, p.role, cat), p.role, b));
                    let i = (0..tb.len()).find(|i| tb[*i] == *a && tr[*i] == *b).unwrap_or(0);
                    pending.push((
                        reserved_signature(p.cfg, p.role, cat),
                        format!("{} named `{}` is emitted as `{}` (baseline `{}`), which is reserved / built in in the target (category {}): `{}`", p.role, chosen.join(","), b, a, cat, one_line(excerpt(&tr, i).trim(), 120)),
                        false,
                    ));
                }
            }
        }
    }

    // 3. trees: same declarations, every use resolves to the same declaration, no two declarations of a scope share a name.
    //    Rebinding caused by a reserved word that is already reported is not reported a second time.
    let ab = base_an;
    let ar = An::of(&ren_out.tree);
    if text_ok {
        let same_shape = ab.decls.len() == ar.decls.len() && ab.uses.len() == ar.uses.len() && ab.decls.iter().zip(ar.decls.iter()).all(|(x, y)| x.kind == y.kind && x.scope == y.scope);
        if !same_shape {
            pending.push((
                format!("rename|alpha|{}|{}", p.role, tname),
                format!("renaming {:?}: the syntax trees differ in shape ({} declarations / {} uses vs baseline {} / {})", p.map, ar.decls.len(), ar.uses.len(), ab.decls.len(), ab.uses.len()),
                true,
            ));
        } else {
            // 3a. clashes first: a use that now sees two declarations is the same finding
            let base_clashes: BTreeSet<(usize, usize)> = ab.clashes().into_iter().filter(|(x, y)| matches!(ab.decls[*x].kind, K::Function | K::Method) && matches!(ab.decls[*y].kind, K::Function | K::Method)).collect();
            let base_all_clashes: BTreeSet<(usize, usize)> = ab.clashes().into_iter().collect();
            let mut seen_clash = BTreeSet::new();
            for (x, y) in ar.clashes() {
                // overload sets that the generator itself emits for one source entity are present in the baseline as well
                if base_clashes.contains(&(x, y)) {
                    continue;
                }
                let mut kinds = [ar.decls[x].kind.name(), ar.decls[y].kind.name()];
                kinds.sort();
                // two declarations that share a name in the baseline output as well do so whatever the names are
                let origin = if base_all_clashes.contains(&(x, y)) { "any-name" } else { p.origin };
                let sig = format!("clash|{}+{}|{}|{}", kinds[0], kinds[1], tname, origin);
                if seen_clash.insert(sig.clone()) {
                    pending.push((sig, format!("{} {:?}: {} and {} share a name in one scope", p.role, p.map, ar.describe(x), ar.describe(y)), true));
                }
            }
            // 3b. a use that is written with a name derived from a renamed user name (the baseline's names are distinctive) must
            //     refer to SOME declaration of the emitted module: a path that lost its qualification refers to nothing
            //     already in the baseline output; whether the renamed output leaves it dangling too or lets a declaration of the
            //     same name capture it is the same finding
            //     (a use that is bound in the baseline output and not in the renamed output is a rebinding: reported below)
            let dangling = |ub: &UseRec| {
                let first = ub.path.trim_start_matches("::").split("::").next().unwrap_or("");
                ub.res.is_empty() && !first.is_empty() && find_key(first, p.map).is_some()
            };
            for (ub, ur) in ab.uses.iter().zip(ar.uses.iter()) {
                if dangling(ub) {
                    // class: the kind(s) of the emitted declarations that carry the leaf name of the dangling path
                    // (looked up in the baseline output, whose names are distinctive)
                    let leaf = ub.path.rsplit("::").next().unwrap_or("");
                    let kinds: BTreeSet<&str> = ab.decls.iter().filter(|d| d.name == leaf).map(|d| d.kind.name()).collect();
                    let kind = if kinds.is_empty() { "undeclared".to_string() } else { kinds.into_iter().collect::<Vec<_>>().join("+") };
                    pending.push((
                        format!("use-unbound|{}|{}", kind, tname),
                        format!("{} {:?}: the emitted use `{}` (baseline `{}`) names a user entity but resolves to no declaration of the emitted module", p.role, p.map, ur.path, ub.path),
                        true,
                    ));
                    break;
                }
            }
            if !reserved_hit && seen_clash.is_empty() {
                for (ub, ur) in ab.uses.iter().zip(ar.uses.iter()) {
                    if ub.res != ur.res && ab.canonical(&ub.res) != ar.canonical(&ur.res) && !dangling(ub) {
                        let d = |a: &An, r: &Vec<usize>| if r.is_empty() { "nothing declared in the module (built-in)".to_string() } else { r.iter().map(|x| a.describe(*x)).collect::<Vec<_>>().join(" / ") };
                        // qualified references (space e): the class also names the kind of declaration that captured the use, so
                        // that a path printed without its qualification and an implicit parameter named like a root entity differ
                        let sig = if p.role.starts_with("qualified-reference") {
                            let by: BTreeSet<&str> = ur.first.iter().map(|x| ar.decls[*x].kind.name()).collect();
                            format!("use-rebound|{}|{}|by-{}", p.role, tname, if by.is_empty() { "nothing".to_string() } else { by.into_iter().collect::<Vec<_>>().join("+") })
                        } else {
                            format!("use-rebound|{}|{}", p.role, tname)
                        };
                        pending.push((
                            sig,
                            format!("renaming {:?}: use `{}` resolves to {}; in the baseline `{}` resolves to {}", p.map, ur.path, d(&ar, &ur.res), ub.path, d(ab, &ub.res)),
                            true,
                        ));
                        break;
                    }
                }
            }
        }
    }

    // 4. the reported entry points name emitted functions
    for ep in &ren_out.entry_points {
        // a reported name may be a path from the root (`N::f`): it is resolved through the emitted namespaces
        let mut scope = Some(0usize);
        let segs: Vec<&str> = ep.split("::").collect();
        for seg in &segs[..segs.len() - 1] {
            scope = scope.and_then(|s| ar.scopes[s].decls.iter().find(|d| ar.decls[**d].kind == K::Namespace && ar.decls[**d].name == *seg).and_then(|d| ar.decls[*d].inner));
        }
        let leaf = segs[segs.len() - 1];
        let found = scope.map(|s| ar.scopes[s].decls.iter().any(|d| ar.decls[*d].kind == K::Function && ar.decls[*d].name == leaf)).unwrap_or(false);
        if !found {
            // class: the name is that of a function the module declares inside a namespace (reported without its path) / of none
            let elsewhere = ar.decls.iter().any(|d| d.kind == K::Function && d.name == *ep && d.scope != 0 && ar.scopes[d.scope].label.starts_with("namespace "));
            pending.push((
                format!("use-rebound|entry-point-metadata|{}{}", tname, if elsewhere { "|declared-in-namespace" } else { "" }),
                format!("{} {:?}: the reported entry point `{}` is not the name of an emitted function (emitted functions: {})", p.role, p.map, ep, ar.scopes[0].decls.iter().filter(|d| ar.decls[**d].kind == K::Function).map(|d| ar.decls[*d].name.clone()).collect::<Vec<_>>().join(",")),
                false,
            ));
        }
    }

    // 4b. the reflection data is part of the output: the reported bindings are those of the baseline, and a binding reported
    //     under a name derived from a renamed name carries the name that the text gives that entity (the image established
    //     token by token above), i.e. it names the emitted declaration
    //     (added after a seeded change that reported HLSL bindings under the source name was missed: only the text was compared)
    if text_ok {
        if base_out.bindings.len() != ren_out.bindings.len() || base_out.bindings.iter().zip(ren_out.bindings.iter()).any(|(x, y)| x.1 != y.1) {
            pending.push((
                format!("rename|alpha|binding-metadata|{}", tname),
                format!("{} {:?}: the reported bindings differ in more than their names: baseline {:?} vs renamed {:?}", p.role, p.map, base_out.bindings, ren_out.bindings),
                true,
            ));
        } else {
            for (x, y) in base_out.bindings.iter().zip(ren_out.bindings.iter()) {
                let expected: Option<&str> = if find_key(&x.0, p.map).is_none() { Some(x.0.as_str()) } else { image.get(x.0.as_str()).copied() };
                if let Some(e) = expected {
                    if e != y.0 {
                        pending.push((
                            format!("use-rebound|binding-metadata|{}", tname),
                            format!("{} {:?}: the binding that the baseline reports as `{}` is reported as `{}` although the emitted text names that entity `{}` ({})", p.role, p.map, x.0, y.0, e, x.1),
                            false,
                        ));
                        break;
                    }
                }
            }
        }
    }

    // 5. HLSL text is still accepted by the front end (only when nothing else explains a rejection already)
    //    Not for the words rssl's own grammar reads as a modifier in front of a type: a namespace may carry such a name, but
    //    `indices::T` written where a type starts is read back as modifier + `::T`; that is about rssl's parser, not about
    //    the emitted names (the words that are reserved in HLSL get a suffix anyway)
    let modifier_word = chosen.iter().any(|c| RSSL_TYPE_MODIFIER_WORDS.contains(&c.as_str()));
    if modifier_word {
        acc.count("reaccept_check_skipped_for_rssl_type_modifier_word");
    }
    if p.cfg.is_hlsl() && base_accepted_by_front_end && pending.is_empty() && !modifier_word {
        if let Err(e) = hlsl_accepts(&ren_out.text) {
            pending.push((
                format!("reject|{}|{}", p.role, tname),
                format!("{} {:?}: the emitted HLSL is no longer accepted by the rssl front end: {}", p.role, p.map, one_line(&e, 200)),
                true,
            ));
        }
    }

    // alarms that rest on "R binds like B" are dropped when the front end itself binds R differently
    if !p.certified && pending.iter().any(|x| x.2) && !same_source_binding(p) {
        acc.count("front_end_binds_renamed_source_differently");
        if std::env::var("C15_SHOW_FILTERED").is_ok() {
            eprintln!("FILTERED {} {} {:?} {}", p.role, p.cfg.name(), p.map, pending.iter().filter(|x| x.2).map(|x| format!("{} :: {}", x.0, one_line(&x.1, 200))).collect::<Vec<_>>().join(" ## "));
        }
        pending.retain(|x| !x.2);
        if pending.is_empty() {
            return Verdict::Outside;
        }
    }
    acc.outcome(&(p.cfg, &ren_out.text));
    if pending.is_empty() {
        return Verdict::Held;
    }
    for (sig, detail, _) in pending {
        let note = if p.note.is_empty() { String::new() } else { format!(" ({})", p.note) };
        acc.violation(Violation { signature: sig, detail: format!("[{} space {}{}] {}", p.cfg.name(), p.space, note, detail), replay: replay_body(p) });
    }
    Verdict::Violated
}

// ---------------------------------------------------------------------------------------------------------------
// programs

fn prog_ex(decls: &str, entry: &str, tid: &str, body: &str) -> String {
    format!(
        "{decls}\nRWByteAddressBuffer ob;\n[numthreads(4, 1, 1)]\nvoid {entry}(uint3 {tid} : SV_DispatchThreadID) {{\n    {body}\n    ob.Store(0, r + (int){tid}.x);\n}}\nPipeline Pp {{ ComputeShader = {entry}; }}\n"
    )
}

fn prog(decls: &str, body: &str) -> String {
    prog_ex(decls, "cs", "tid", body)
}

pub struct Tpl {
    pub role: &'static str,
    pub variant: String,
    /// `@` marks the renamed identifier
    pub src: String,
    /// a type-use position template (`type_position_templates`): the quick tier tries class representatives of the words only
    pub extra: bool,
    /// thorough tier only
    pub deep: bool,
    /// a template of the generator-name / constant-position dimensions: the quick tier tries the plain names (space d) and
    /// every identifier of its own emitted text (space f) only, the thorough tier every word outside the large families too
    pub vocab: bool,
}

/// baseline name of the single renamed identifier in spaces b and d
const BASE: &str = "zq";

fn role_templates() -> Vec<Tpl> {
    let mut v = Vec::new();
    let mut t = |role: &'static str, variant: &'static str, src: String| v.push(Tpl { role, variant: variant.to_string(), src, extra: false, deep: false, vocab: false });
    // global variable
    t("global", "byte-buffer", prog("ByteAddressBuffer @;", "int r = (int)@.Load(0);"));
    t("global", "texture", prog("Texture2D<float4> @;", "int r = (int)@.Load(int3(0, 0, 0)).x;"));
    t("global", "structured", prog("StructuredBuffer<int> @;", "int r = @[0];"));
    t("global", "in-namespace", prog("namespace Nh { ByteAddressBuffer @; }", "int r = (int)Nh::@.Load(0);"));
    t("global", "used-in-function", prog("ByteAddressBuffer @;\nint hf(int ha) { return ha + (int)@.Load(4); }", "int r = hf(1);"));
    // static global
    t("static-global", "static", prog("static int @ = 3;\nint hf(int ha) { return ha + @; }", "int r = hf(1) + @;"));
    t("static-global", "static-const", prog("static const int @ = 3;", "int r = @;"));
    t("static-global", "groupshared", prog("groupshared int @[4];", "@[0] = 1; int r = @[0];"));
    t("static-global", "in-namespace", prog("namespace Nh { static int @ = 3; int hf(int ha) { return ha + @; } }", "int r = Nh::hf(1) + Nh::@;"));
    t("static-global", "transitive", prog("static int @ = 3;\nint hg() { return @; }\nint hf(int ha) { int hl = ha; return hl + hg(); }", "int r = hf(1);"));
    // function
    t("function", "plain", prog("int @(int ha) { return ha + 1; }", "int r = @(1);"));
    t("function", "in-namespace", prog("namespace Nh { int @(int ha) { return ha + 1; } }", "int r = Nh::@(1);"));
    t("function", "called-from-function", prog("int @(int ha) { return ha + 1; }\nint hf(int hb) { return @(hb) * 2; }", "int r = hf(1);"));
    t("overloaded-function", "two", prog("int @(int ha) { return ha; }\nint @(float ha) { return 2; }", "int r = @((int)1) + @(1.0f);"));
    t("overloaded-function", "three-in-namespace", prog("namespace Nh { int @(int ha) { return ha; }\nint @(float ha) { return 2; }\nint @(uint ha) { return 3; } }", "int r = Nh::@((int)1) + Nh::@(1.0f) + Nh::@(1u);"));
    t("template-function", "one-instance", prog("template<typename Th> Th @(Th ha) { return ha; }", "int r = @<int>(1);"));
    t("template-function", "two-instances", prog("template<typename Th> Th @(Th ha) { return ha; }", "int r = @<int>(1) + (int)@<float>(2.0f);"));
    // parameter
    t("parameter", "plain", prog("int hf(int @, int hb) { return @ + hb; }", "int r = hf(1, 2);"));
    t("parameter", "out", prog("void hf(out int @) { @ = 1; }", "int r = 0; hf(r);"));
    t("parameter", "method", prog("struct Sh { int hm; int hf(int @) { return hm + @; } };", "Sh hs; hs.hm = 1; int r = hs.hf(2);"));
    t("parameter", "entry", prog_ex("", "cs", "@", "int r = 1;"));
    t("parameter", "with-implicit-globals", prog("static int hg = 1;\nByteAddressBuffer hb;\nint hf(int @) { return @ + hg + (int)hb.Load(0); }", "int r = hf(1);"));
    // local
    t("local", "plain", prog("int hf(int ha) { int @ = ha * 2; return @; }", "int r = hf(1);"));
    t("local", "entry", prog("", "int @ = 2; int r = @;"));
    t("local", "for", prog("int hf(int ha) { int hr = 0; for (int @ = 0; @ < ha; ++@) { hr += @; } return hr; }", "int r = hf(3);"));
    t("local", "nested-block", prog("int hf(int ha) { int hr = 0; { int @ = ha; hr += @; } return hr; }", "int r = hf(3);"));
    t("local", "with-implicit-globals", prog("static int hg = 1;\nint hf(int ha) { int @ = ha + hg; return @; }", "int r = hf(1);"));
    // struct and its parts
    t("struct", "plain", prog("struct @ { int hm; };", "@ hs; hs.hm = 1; int r = hs.hm;"));
    t("struct", "parameter-type", prog("struct @ { int hm; };\nint hf(@ ha) { return ha.hm; }", "@ hs; hs.hm = 1; int r = hf(hs);"));
    t("struct", "buffer-element", prog("struct @ { int hm; };\nStructuredBuffer<@> hb;", "int r = hb.Load(0).hm;"));
    t("struct", "in-namespace", prog("namespace Nh { struct @ { int hm; }; }", "Nh::@ hs; hs.hm = 1; int r = hs.hm;"));
    t("struct-member", "plain", prog("struct Sh { int @; int hm; };", "Sh hs; hs.@ = 1; hs.hm = 2; int r = hs.@ + hs.hm;"));
    t("struct-member", "used-in-method", prog("struct Sh { int @; int hf(int ha) { return @ + ha; } };", "Sh hs; hs.@ = 1; int r = hs.hf(2);"));
    t("struct-member", "buffer-element", prog("struct Sh { int @; };\nStructuredBuffer<Sh> hb;", "int r = hb.Load(0).@;"));
    t("method", "plain", prog("struct Sh { int hm; int @(int ha) { return hm + ha; } };", "Sh hs; hs.hm = 1; int r = hs.@(2);"));
    t("method", "called-from-method", prog("struct Sh { int hm; int @(int ha) { return hm + ha; } int hf() { return @(1); } };", "Sh hs; hs.hm = 1; int r = hs.hf();"));
    // enum
    t("enum", "plain", prog("enum @ { Ea, Eb };", "@ he = @::Eb; int r = (int)he;"));
    t("enum", "in-namespace", prog("namespace Nh { enum @ { Ea, Eb }; }", "Nh::@ he = Nh::@::Eb; int r = (int)he;"));
    t("enum-value", "qualified", prog("enum Eh { @, Eb };", "Eh he = Eh::@; int r = (int)he;"));
    t("enum-value", "unqualified", prog("enum Eh { Ea, @ };", "Eh he = @; int r = (int)he;"));
    // namespace
    t("namespace", "plain", prog("namespace @ { int hf(int ha) { return ha; } }", "int r = @::hf(1);"));
    t("namespace", "nested", prog("namespace Nh { namespace @ { int hf(int ha) { return ha; } } }", "int r = Nh::@::hf(1);"));
    // a namespace that holds a cbuffer, a global, a struct and an enum that are all used through the qualified name
    // (added after a seeded change that qualified cbuffer members with the source namespace name was missed)
    t("namespace", "holding-cbuffer", prog("namespace @ { cbuffer Ch { int hc; int hd; } }", "int r = @::hc + @::hd;"));
    t("namespace", "holding-mixed", prog("namespace @ { cbuffer Ch { int hc; } static int hg = 2; struct Hs { int hm; }; enum He { Ha, Hb }; }", "@::Hs hs; hs.hm = @::hc; int r = hs.hm + @::hg + (int)@::Hb;"));
    // cbuffer
    t("cbuffer", "plain", prog("cbuffer @ { int hc; }", "int r = hc;"));
    t("cbuffer-member", "plain", prog("cbuffer Ch { int @; int hc; }", "int r = @ + hc;"));
    t("cbuffer-member", "used-in-function", prog("cbuffer Ch { int @; }\nint hf(int ha) { return ha + @; }", "int r = hf(1);"));
    // entry point
    t("entry-point", "compute", prog_ex("", "@", "tid", "int r = 1;"));
    t(
        "entry-point",
        "vertex",
        "float4 @(uint hv : SV_VertexID) : SV_Position { return float4(0, 0, 0, 1); }\nfloat4 hp() : SV_Target0 { return float4(0, 0, 0, 0); }\nPipeline Pp { VertexShader = @; PixelShader = hp; }\n".to_string(),
    );
    t(
        "entry-point",
        "pixel",
        "float4 hv(uint hi : SV_VertexID) : SV_Position { return float4(0, 0, 0, 1); }\nfloat4 @() : SV_Target0 { return float4(0, 0, 0, 0); }\nPipeline Pp { VertexShader = hv; PixelShader = @; }\n".to_string(),
    );
    t(
        "parameter",
        "vertex-out",
        "void hv(uint hi : SV_VertexID, out float4 @ : SV_Position, out float2 hx : TEXCOORD) { @ = float4(0, 0, 0, 1); hx = float2(0, 0); }\nfloat4 hp(float2 hy : TEXCOORD) : SV_Target0 { return float4(hy, 0, 0); }\nPipeline Pp { VertexShader = hv; PixelShader = hp; }\n".to_string(),
    );
    t(
        "parameter",
        "pixel-in",
        "void hv(uint hi : SV_VertexID, out float4 ho : SV_Position, out float2 hx : TEXCOORD) { ho = float4(0, 0, 0, 1); hx = float2(0, 0); }\nfloat4 hp(float2 @ : TEXCOORD) : SV_Target0 { return float4(@, 0, 0); }\nPipeline Pp { VertexShader = hv; PixelShader = hp; }\n".to_string(),
    );
    // template parameter
    t("template-parameter", "type", prog("template<typename @> @ hf(@ ha) { return ha; }", "int r = hf<int>(1);"));
    v
}

// ---------------------------------------------------------------------------------------------------------------
// every kind of user-declared type × every position in which a type name is written × placement (root / namespace)
// (added after a seeded change that declared the placeholder template parameter of an instantiation under the struct's
// source name was missed: no template used a user type as a template argument)

struct TyKind {
    role: &'static str,
    kind: &'static str,
    /// declaration, `@` = the type's name
    decl: &'static str,
    /// statement(s) that give the variable `$` (of the type `#`) a value
    init: &'static str,
    /// int-valued expression reading `$`
    toint: &'static str,
    deep: bool,
}

const TY_KINDS: &[TyKind] = &[
    TyKind { role: "struct", kind: "struct", decl: "struct @ { int hm; };", init: "$.hm = 1;", toint: "$.hm", deep: false },
    TyKind { role: "enum", kind: "enum", decl: "enum @ { Ea, Eb };", init: "$ = #::Eb;", toint: "(int)$", deep: false },
    TyKind { role: "typedef", kind: "typedef-int", decl: "typedef int @;", init: "$ = 1;", toint: "(int)$", deep: false },
    TyKind { role: "struct", kind: "struct-with-method", decl: "struct @ { int hm; int hq() { return hm; } };", init: "$.hm = 1;", toint: "$.hq()", deep: true },
    TyKind { role: "typedef", kind: "typedef-struct", decl: "struct Sb { int hm; };\ntypedef Sb @;", init: "$.hm = 1;", toint: "$.hm", deep: true },
];

/// (position, declarations after the type's declaration, body); `#` = the type as written at the use, `I(x)` / `V(x)` are
/// expanded to the kind's init / toint of x
const TY_POSITIONS: &[(&str, &str, &str)] = &[
    ("local", "", "# hs; I(hs) int r = V(hs);"),
    ("parameter", "int hf(# ha) { return V(ha); }", "# hs; I(hs) int r = hf(hs);"),
    ("return", "# hf(int ha) { # hl; I(hl) return hl; }", "int r = V(hf(1));"),
    ("out-parameter", "void hf(out # ha) { I(ha) }", "# hs; hf(hs); int r = V(hs);"),
    ("template-argument-explicit", "template<typename Th> Th hf(Th ha) { return ha; }", "# hs; I(hs) int r = V(hf<#>(hs));"),
    ("template-argument-deduced", "template<typename Th> Th hf(Th ha) { return ha; }", "# hs; I(hs) int r = V(hf(hs));"),
    ("template-argument-two-instances", "template<typename Th> Th hf(Th ha) { return ha; }", "# hs; I(hs) int r = V(hf<#>(hs)) + hf<int>(2);"),
    ("template-argument-second", "template<typename Ta, typename Tb> Tb hf(Ta ha, Tb hb) { return hb; }", "# hs; I(hs) int r = V(hf<int, #>(1, hs));"),
    ("template-argument-from-function", "template<typename Th> Th hf(Th ha) { return ha; }\nint hg(# hb) { return V(hf<#>(hb)); }", "# hs; I(hs) int r = hg(hs);"),
    ("template-argument-and-mention", "template<typename Th> int hf(Th ha) { # hl = ha; return V(hl); }", "# hs; I(hs) int r = hf<#>(hs);"),
    ("template-argument-twice", "template<typename Ta, typename Tb> Ta hf(Ta ha, Tb hb) { return ha; }", "# hs; I(hs) int r = V(hf<#, #>(hs, hs));"),
    ("template-argument-first-and-third", "template<typename Ta, typename Tb, typename Tc> Ta hf(Ta ha, Tb hb, Tc hc) { return ha; }", "# hs; I(hs) int r = V(hf<#, int, #>(hs, 1, hs));"),
    ("template-argument-three-times", "template<typename Ta, typename Tb, typename Tc> Tc hf(Ta ha, Tb hb, Tc hc) { return hc; }", "# hs; I(hs) int r = V(hf<#, #, #>(hs, hs, hs));"),
    ("structured-buffer-element", "StructuredBuffer<#> hb;", "int r = V(hb.Load(0));"),
    ("rw-structured-buffer-element", "RWStructuredBuffer<#> hb;", "# hs = hb[0]; hb[1] = hs; int r = V(hs);"),
    ("constant-buffer-element", "ConstantBuffer<#> hb;", "int r = V(hb);"),
    ("struct-member-type", "struct So { # hi; int hn; };", "So ho; ho.hn = 1; I(ho.hi) int r = V(ho.hi);"),
    ("cbuffer-member-type", "cbuffer Cq { # hc; }", "int r = V(hc);"),
    ("static-global-type", "static # hg;", "I(hg) int r = V(hg);"),
    ("groupshared-array-type", "groupshared # hg[2];", "I(hg[0]) int r = V(hg[0]);"),
    ("local-array-type", "", "# ha[2]; I(ha[1]) int r = V(ha[1]);"),
    ("cast", "", "# hs; I(hs) int r = V(((#)hs));"),
    ("sizeof", "", "int r = (int)sizeof(#);"),
    ("method-signature", "struct So { int hn; # hf(# ha) { return ha; } };", "# hs; I(hs) So ho; ho.hn = 1; int r = V(ho.hf(hs));"),
    ("typedef-source", "typedef # Hd;", "Hd hs; I(hs) int r = V(hs);"),
    ("for-init", "", "int r = 0; for (# hs; r < 1; ++r) { I(hs) r += V(hs); }"),
    // positions whose expression is folded to a constant by the front end and written out again by the exporter from the
    // VALUE (case labels, array sizes, template value arguments, enumerator initialisers) or kept as an expression next to
    // them (default arguments, initialisers of constants): every way of writing a constant of the type
    // (added after a seeded change that printed `(N::E)3` in a case label as `(E)3` was missed: no program had a case label,
    // an array size or a template value argument that mentions a user-declared name)
    ("const-case-label-cast-unmatched", "", "# hs; I(hs) int r = 0; switch (hs) { case (#)7: r = 1; break; default: r = 2; break; }"),
    ("const-case-label-cast-matched", "", "# hs; I(hs) int r = 0; switch (hs) { case (#)1: r = 1; break; default: r = 2; break; }"),
    ("const-case-label-enumerator", "", "# hs; I(hs) int r = 0; switch (hs) { case #::Ea: r = 1; break; case #::Eb: r = 3; break; default: r = 2; break; }"),
    ("const-case-label-all-forms", "", "# hs; I(hs) int r = 0; switch (hs) { case #::Ea: r = 1; break; case (#)1: r = 3; break; case (#)7: r = 4; break; case (#)9: r = 5; break; default: r = 2; break; }"),
    ("const-case-label-static-const-unmatched", "static const # hk = (#)7;", "# hs; I(hs) int r = 0; switch (hs) { case hk: r = 1; break; default: r = 2; break; }"),
    ("const-case-label-static-const-matched", "static const # hk = (#)1;", "# hs; I(hs) int r = 0; switch (hs) { case hk: r = 1; break; default: r = 2; break; }"),
    ("const-case-label-in-function", "int hf(# ha) { switch (ha) { case (#)7: return 1; case (#)1: return 3; default: return 2; } }", "# hs; I(hs) int r = hf(hs);"),
    ("const-array-size-cast", "", "int ha[(int)(#)2]; ha[1] = 1; int r = ha[1];"),
    ("const-template-value-argument-cast", "template<int Vh> int hf(int ha) { return ha + Vh; }", "int r = hf<(int)(#)2>(1);"),
    ("const-enumerator-initialiser-cast", "enum Eq { Qa = (int)(#)2, Qb };", "int r = (int)Qb;"),
    ("const-default-argument-cast", "int hf(int ha, # hb = (#)7) { return ha + V(hb); }", "int r = hf(1);"),
    ("const-static-const-initialiser-cast", "static const # hk = (#)7;", "# hs = hk; int r = V(hs);"),
];

/// positions of TY_POSITIONS that the quick tier also tries with the type declared in a namespace
fn quick_in_namespace(pos: &str) -> bool {
    pos.starts_with("template-") || pos.starts_with("const-")
}

fn expand_calls(text: &str, k: &TyKind) -> String {
    // I(x) / V(x): x never contains parentheses other than balanced ones
    let mut out = String::new();
    let b = text.as_bytes();
    let mut i = 0;
    while i < b.len() {
        let call = (b[i] == b'I' || b[i] == b'V') && i + 1 < b.len() && b[i + 1] == b'(' && (i == 0 || !(b[i - 1].is_ascii_alphanumeric() || b[i - 1] == b'_'));
        if call {
            let mut depth = 0;
            let mut j = i + 1;
            loop {
                if b[j] == b'(' {
                    depth += 1;
                } else if b[j] == b')' {
                    depth -= 1;
                    if depth == 0 {
                        break;
                    }
                }
                j += 1;
            }
            let arg = expand_calls(&text[i + 2..j], k);
            let pat = if b[i] == b'I' { k.init } else { k.toint };
            out.push_str(&pat.replace('$', &arg));
            i = j + 1;
        } else {
            out.push(b[i] as char);
            i += 1;
        }
    }
    out
}

fn type_position_templates() -> Vec<Tpl> {
    let mut v = Vec::new();
    for (placement, deep_placement) in [("root", false), ("namespace", false), ("namespace-sibling", true)] {
        for k in TY_KINDS {
            for (pos, decls, body) in TY_POSITIONS {
                let ty = if placement == "namespace" { "Nh::@" } else { "@" };
                let fill = |t: &str| expand_calls(t, k).replace('#', ty);
                let src = match placement {
                    "root" => prog(&format!("{}\n{}", k.decl, fill(decls)), &fill(body)),
                    "namespace" => prog(&format!("namespace Nh {{ {} }}\n{}", k.decl, fill(decls)), &fill(body)),
                    _ => {
                        // everything that mentions the type sits next to it inside the namespace and names it unqualified
                        if decls.is_empty() || decls.contains("Buffer<") || decls.starts_with("cbuffer ") || decls.starts_with("static") || decls.starts_with("groupshared") {
                            continue;
                        }
                        let body = fill(body).replace("hf(", "Nh::hf(").replace("hf<", "Nh::hf<").replace("hg(", "Nh::hg(").replace("So ", "Nh::So ").replace("Sw<", "Nh::Sw<").replace("Hd ", "Nh::Hd ").replace("(int)Qb", "(int)Nh::Qb").replace("@", "Nh::@").replace(".Nh::", ".");
                        prog(&format!("namespace Nh {{ {}\n{} }}", k.decl, fill(decls)), &body)
                    }
                };
                // the quick tier keeps the namespace placement for the template-argument positions only
                let deep = k.deep || deep_placement || (placement == "namespace" && !quick_in_namespace(pos));
                v.push(Tpl { role: k.role, variant: format!("{}/{}/{}", k.kind, pos, placement), src, extra: true, deep, vocab: false });
            }
        }
    }
    v
}

// ---------------------------------------------------------------------------------------------------------------
// names the exporters introduce themselves × every place a user name can sit next to them
// (added after a seeded change that dropped `threads_per_simdgroup` from the Metal exporter's table of protected names was
// missed: no program made the exporter add a parameter, local, member or type of its own to a scope that also holds a user
// name, other than the implicit parameters for globals)

/// what makes an exporter put names of its own into the scope of a function: (label, int-valued expression)
const IMPLICIT_FEATURES: &[(&str, &str, bool)] = &[
    ("lane-count", "(int)WaveGetLaneCount()", false),
    ("lane-index", "(int)WaveGetLaneIndex()", false),
    ("lane-count-and-index", "(int)(WaveGetLaneCount() + WaveGetLaneIndex())", true),
    ("lane-count-and-static-global", "(int)WaveGetLaneCount() + hsg", true),
];

/// (role, position, declarations, body of the entry point); `X` = the feature expression, `@` = the renamed name
const IMPLICIT_POSITIONS: &[(&str, &str, &str, &str)] = &[
    ("local", "direct", "int hf(int ha) { int @ = ha * 2; return @ + X; }", "int r = hf(1);"),
    ("local", "for-loop", "int hf(int ha) { int hr = 0; for (int @ = 0; @ < ha; ++@) { hr += @ + X; } return hr; }", "int r = hf(2);"),
    ("local", "nested-block", "int hf(int ha) { int hr = X; { int @ = ha; hr += @; } return hr; }", "int r = hf(2);"),
    ("local", "of-caller", "int hg(int ha) { return ha + X; }\nint hf(int hb) { int @ = hg(hb); return @; }", "int r = hf(1);"),
    ("local", "of-entry-point", "", "int @ = X; int r = @;"),
    ("local", "of-entry-point-calling", "int hg(int ha) { return ha + X; }", "int @ = hg(1); int r = @;"),
    ("local", "of-method", "struct Sh { int hm; int hf(int ha) { int @ = hm + ha; return @ + X; } };", "Sh hs; hs.hm = 1; int r = hs.hf(2);"),
    ("parameter", "direct", "int hf(int @) { return @ + X; }", "int r = hf(1);"),
    ("parameter", "of-caller", "int hg(int ha) { return ha + X; }\nint hf(int @) { return hg(@); }", "int r = hf(1);"),
    ("parameter", "of-caller-of-caller", "int hh(int ha) { return ha + X; }\nint hg(int hb) { return hh(hb); }\nint hf(int @) { return hg(@); }", "int r = hf(1);"),
    ("parameter", "of-method", "struct Sh { int hm; int hf(int @) { return hm + @ + X; } };", "Sh hs; hs.hm = 1; int r = hs.hf(2);"),
    ("parameter", "out", "void hf(out int @) { @ = X; }", "int r = 0; hf(r);"),
    ("parameter", "of-template-function", "template<typename Th> Th hf(Th @) { return @ + (Th)X; }", "int r = hf<int>(1);"),
    ("static-global", "used-next-to", "static int @ = 3;\nint hf(int ha) { return ha + @ + X; }", "int r = hf(1);"),
    ("static-global", "groupshared-used-next-to", "groupshared int @[4];\nint hf(int ha) { @[0] = ha; return @[0] + X; }", "int r = hf(1);"),
    ("static-global", "in-namespace-used-next-to", "namespace Nh { static int @ = 3; }\nint hf(int ha) { return ha + Nh::@ + X; }", "int r = hf(1);"),
    ("global", "used-next-to", "ByteAddressBuffer @;\nint hf(int ha) { return ha + (int)@.Load(0) + X; }", "int r = hf(1);"),
    ("cbuffer-member", "used-next-to", "cbuffer Ch { int @; }\nint hf(int ha) { return ha + @ + X; }", "int r = hf(1);"),
    ("enum-value", "used-next-to", "enum Eh { Ea, @ };\nint hf(int ha) { return ha + (int)@ + X; }", "int r = hf(1);"),
    ("function", "direct", "int @(int ha) { return ha + X; }", "int r = @(1);"),
    ("function", "called-next-to", "int @(int ha) { return ha + 1; }\nint hf(int hb) { return @(hb) + X; }", "int r = hf(1);"),
    ("struct", "local-type-next-to", "struct @ { int hm; };\nint hf(int ha) { @ hs; hs.hm = ha; return hs.hm + X; }", "int r = hf(1);"),
    ("struct-member", "used-next-to", "struct Sh { int @; };\nint hf(int ha) { Sh hs; hs.@ = ha; return hs.@ + X; }", "int r = hf(1);"),
    ("method", "direct", "struct Sh { int hm; int @(int ha) { return hm + ha + X; } };", "Sh hs; hs.hm = 1; int r = hs.@(2);"),
    ("template-parameter", "type", "template<typename @> @ hf(@ ha) { return ha + (@)X; }", "int r = hf<int>(1);"),
];

/// task + mesh pipeline: `@` sits in one of the marked places
fn mesh_program(names: &[(&str, &str)], decls: &str, task_body: &str, mesh_body: &str) -> String {
    let mut s = format!(
        "struct %payload {{ uint %pm; }};\nstruct %vertex {{ float4 %vm : SV_Position; }};\ngroupshared %payload %lds;\n{decls}\n[numthreads(64, 1, 1)]\nvoid ht(uint3 %ttid : SV_DispatchThreadID) {{\n    %lds.%pm = %ttid.x;\n    {task_body}\n}}\n[numthreads(64, 1, 1)]\n[outputtopology(\"triangle\")]\nvoid hm(uint3 %mtid : SV_DispatchThreadID, in payload %payload %pin, out vertices %vertex %ov[64], out indices uint3 %oi[64]) {{\n    {mesh_body}\n    %vertex hx;\n    hx.%vm = float4(%pin.%pm, 0, 0, 1);\n    %ov[%mtid.x] = hx;\n    %oi[%mtid.x] = uint3(0, 1, 2);\n}}\nPipeline Pp {{ TaskShader = ht; MeshShader = hm; }}\n"
    );
    let defaults = [("%payload", "Hp"), ("%pm", "hs"), ("%vertex", "Hv"), ("%vm", "hq"), ("%lds", "hl"), ("%ttid", "hd"), ("%mtid", "he"), ("%pin", "hi"), ("%ov", "hov"), ("%oi", "hoi")];
    for (k, v) in names.iter().chain(defaults.iter()) {
        s = s.replace(k, v);
    }
    s
}

fn generator_name_templates() -> Vec<Tpl> {
    let mut v = Vec::new();
    for (feature, x, deep) in IMPLICIT_FEATURES {
        for (role, pos, decls, body) in IMPLICIT_POSITIONS {
            let extra_decl = if x.contains("hsg") { "static int hsg = 5;\n" } else { "" };
            let src = prog(&format!("{}{}", extra_decl, decls.replace('X', x)), &body.replace('X', x));
            v.push(Tpl { role, variant: format!("implicit/{}/{}", feature, pos), src, extra: false, deep: *deep, vocab: true });
        }
    }
    // mesh and task stages: the Metal exporter passes the mesh object, the payload and the grid properties as parameters of
    // its own and replaces the user's output parameters
    let dispatch = "DispatchMesh(4u, 1u, 1u, hl);";
    let counts = "SetMeshOutputCounts(64, 64);";
    let mut m = |role: &'static str, pos: &str, src: String| v.push(Tpl { role, variant: format!("implicit/mesh/{}", pos), src, extra: false, deep: false, vocab: true });
    m("local", "of-task-entry", mesh_program(&[], "", &format!("uint @ = 4u; DispatchMesh(@, 1u, 1u, hl);"), counts));
    m("local", "of-mesh-entry", mesh_program(&[], "", dispatch, "uint @ = 64; SetMeshOutputCounts(@, 64);"));
    m("local", "of-function-dispatching", mesh_program(&[], "void hf(uint ha) { uint @ = ha; DispatchMesh(@, 1u, 1u, hl); }", "hf(4u);", counts));
    m("local", "of-function-setting-counts", mesh_program(&[], "void hf(uint ha) { uint @ = ha; SetMeshOutputCounts(@, 64); }", dispatch, "hf(64);"));
    m("parameter", "of-function-dispatching", mesh_program(&[], "void hf(uint @) { DispatchMesh(@, 1u, 1u, hl); }", "hf(4u);", counts));
    m("parameter", "of-function-setting-counts", mesh_program(&[], "void hf(uint @) { SetMeshOutputCounts(@, 64); }", dispatch, "hf(64);"));
    m("parameter", "task-thread-id", mesh_program(&[("%ttid", "@")], "", dispatch, counts));
    m("parameter", "mesh-thread-id", mesh_program(&[("%mtid", "@")], "", dispatch, counts));
    m("parameter", "mesh-payload-input", mesh_program(&[("%pin", "@")], "", dispatch, counts));
    m("parameter", "mesh-vertices-output", mesh_program(&[("%ov", "@")], "", dispatch, counts));
    m("parameter", "mesh-indices-output", mesh_program(&[("%oi", "@")], "", dispatch, counts));
    m("static-global", "groupshared-payload", mesh_program(&[("%lds", "@")], "", "DispatchMesh(4u, 1u, 1u, @);", counts));
    m("struct", "payload-type", mesh_program(&[("%payload", "@")], "", dispatch, counts));
    m("struct", "vertex-type", mesh_program(&[("%vertex", "@")], "", dispatch, counts));
    m("struct-member", "payload-member", mesh_program(&[("%pm", "@")], "", dispatch, counts));
    m("struct-member", "vertex-member", mesh_program(&[("%vm", "@")], "", dispatch, counts));
    m("function", "dispatching", mesh_program(&[], "void @(uint ha) { DispatchMesh(ha, 1u, 1u, hl); }", "@(4u);", counts));
    m("function", "setting-counts", mesh_program(&[], "void @(uint ha) { SetMeshOutputCounts(ha, 64); }", dispatch, "@(64);"));
    m("entry-point", "task", mesh_program(&[], "", dispatch, counts).replace("void ht(", "void @(").replace("TaskShader = ht", "TaskShader = @"));
    m("entry-point", "mesh", mesh_program(&[], "", dispatch, counts).replace("void hm(", "void @(").replace("MeshShader = hm", "MeshShader = @"));
    // vertex + pixel stages: the Metal exporter adds stage input / output structs and locals `in` / `out`
    let vp = |vs_out: &str, vs_extra: &str, ps_in: &str, ps_body: &str| {
        format!("void hv(uint hi : SV_VertexID, out float4 {vs_out} : SV_Position, out float2 hx : TEXCOORD) {{ {vs_extra}{vs_out} = float4(0, 0, 0, 1); hx = float2(0, 0); }}\nfloat4 hp(float2 {ps_in} : TEXCOORD) : SV_Target0 {{ {ps_body}return float4({ps_in}, 0, 0); }}\nPipeline Pp {{ VertexShader = hv; PixelShader = hp; }}\n")
    };
    let mut g = |role: &'static str, pos: &str, src: String| v.push(Tpl { role, variant: format!("implicit/graphics/{}", pos), src, extra: false, deep: false, vocab: true });
    g("local", "of-vertex-entry", vp("ho", "float @ = 0; hx = float2(@, @); ", "hy", ""));
    g("local", "of-pixel-entry", vp("ho", "", "hy", "float @ = 0; hy.x = @; "));
    g("struct", "next-to-stage-structs", format!("struct @ {{ float hm; }};\n{}", vp("ho", "@ hs; hs.hm = 0; hx = float2(hs.hm, 0); ", "hy", "")));
    g("function", "next-to-stage-entries", format!("float @(float ha) {{ return ha; }}\n{}", vp("ho", "hx = float2(@(0), 0); ", "hy", "")));
    // constants in folded positions that are named through other kinds of entity (the enum itself: type-position templates)
    let mut c = |role: &'static str, pos: &str, src: String| v.push(Tpl { role, variant: format!("const/{}", pos), src, extra: false, deep: false, vocab: true });
    c("enum-value", "case-label", prog("enum Eh { Ea, @ };", "Eh he = Eh::Ea; int r = 0; switch (he) { case @: r = 1; break; case Eh::Ea: r = 2; break; default: break; }"));
    c("enum-value", "case-label-on-int", prog("enum Eh { Ea, @ };", "int r = 0; switch ((int)tid.x) { case @: r = 1; break; default: break; }"));
    c("enum-value", "case-label-in-namespace", prog("namespace Nh { enum Eh { Ea, @ }; }", "Nh::Eh he = Nh::Ea; int r = 0; switch (he) { case Nh::@: r = 1; break; case (Nh::Eh)7: r = 2; break; default: break; }"));
    c("namespace", "holding-enum-in-case-labels", prog("namespace @ { enum He { Ha, Hb }; static const He hk = (He)9; }", "@::He he = @::Hb; int r = 0; switch (he) { case @::Ha: r = 1; break; case (@::He)7: r = 2; break; case @::hk: r = 3; break; default: break; }"));
    c("namespace", "nested-holding-enum-in-case-labels", prog("namespace Nh { namespace @ { enum He { Ha, Hb }; } }", "Nh::@::He he = Nh::@::Hb; int r = 0; switch (he) { case Nh::@::Ha: r = 1; break; case (Nh::@::He)7: r = 2; break; default: break; }"));
    c("namespace", "outer-holding-enum-in-case-labels", prog("namespace @ { namespace Ni { enum He { Ha, Hb }; } }", "@::Ni::He he = @::Ni::Hb; int r = 0; switch (he) { case @::Ni::Ha: r = 1; break; case (@::Ni::He)7: r = 2; break; default: break; }"));
    c("namespace", "holding-enum-case-labels-inside", prog("namespace @ { enum He { Ha, Hb }; int hf(int ha) { switch ((He)ha) { case Ha: return 1; case (He)7: return 2; default: return 0; } } }", "int r = @::hf(1);"));
    c("static-global", "static-const-case-label", prog("static const int @ = 3;", "int r = 0; switch ((int)tid.x) { case @: r = 1; break; default: break; }"));
    c("static-global", "static-const-array-size", prog("static const int @ = 3;", "int ha[@]; ha[1] = 1; int r = ha[1];"));
    c("static-global", "static-const-template-value-argument", prog("static const int @ = 3;\ntemplate<int Vh> int hf(int ha) { return ha + Vh; }", "int r = hf<@>(1);"));
    c("static-global", "static-const-enum-in-namespace-case-label", prog("namespace Nh { enum He { Ha, Hb }; static const He @ = (He)7; }", "Nh::He he = Nh::Hb; int r = 0; switch (he) { case Nh::@: r = 1; break; default: break; }"));
    c("static-global", "static-const-in-namespace-used-outside", prog("namespace Nh { static const int @ = 3; }", "int r = Nh::@;"));
    c("static-global", "static-const-in-namespace-used-from-function", prog("namespace Nh { static const int @ = 3; }\nint hf(int ha) { return ha + Nh::@; }", "int r = hf(1);"));
    c("static-global", "static-const-in-namespace-used-from-sibling", prog("namespace Nh { static const int @ = 3; int hf(int ha) { return ha + @; } }", "int r = Nh::hf(1);"));
    let attr = |decl: &str, arg: &str| format!("{decl}\nRWByteAddressBuffer ob;\n[numthreads({arg}, 1, 1)]\nvoid cs(uint3 tid : SV_DispatchThreadID) {{\n    ob.Store(0, (int)tid.x);\n}}\nPipeline Pp {{ ComputeShader = cs; }}\n");
    c("static-global", "static-const-attribute-argument", attr("static const int @ = 4;", "@"));
    c("static-global", "static-const-in-namespace-attribute-argument", attr("namespace Nh { static const int @ = 4; }", "Nh::@"));
    c("namespace", "holding-static-const-attribute-argument", attr("namespace @ { static const int hk = 4; }", "@::hk"));
    v.extend(entry_placement_templates());
    v
}

/// `src` with the function that starts at `marker` (up to its closing brace at the start of a line) put between `open` and `close`
fn wrap_function(src: &str, marker: &str, open: &str, close: &str) -> String {
    let start = src.find(marker).expect("marker");
    let end = start + src[start..].find("\n}\n").expect("end of function") + 3;
    format!("{}{}{}{}{}", &src[..start], open, &src[start..end], close, &src[end..])
}

/// every stage × where the entry function of that stage is declared (a namespace, a nested namespace; the root is covered by
/// the role templates) × which name is renamed (the function, the namespace, the outer namespace): a pipeline names its entry
/// points by their plain names wherever they are declared, and the exporters write uses of them on their own (stage wrappers,
/// reported entry point names)
/// (added after a seeded change that made the Metal stage wrapper call the entry function by its unqualified name was missed:
/// every entry point of every program was declared at the root)
fn entry_placement_templates() -> Vec<Tpl> {
    let mut v = Vec::new();
    let compute = "RWByteAddressBuffer ob;\n[numthreads(4, 1, 1)]\nvoid ENTRY(uint3 tid : SV_DispatchThreadID) {\n    ob.Store(0, (int)tid.x);\n}\nPipeline Pp { ComputeShader = ENTRY; }\n".to_string();
    let vertex = "float4 ENTRY(uint hv : SV_VertexID) : SV_Position {\n    return float4(0, 0, 0, 1);\n}\nfloat4 hp() : SV_Target0 { return float4(0, 0, 0, 0); }\nPipeline Pp { VertexShader = ENTRY; PixelShader = hp; }\n".to_string();
    let pixel = "float4 hv(uint hi : SV_VertexID) : SV_Position { return float4(0, 0, 0, 1); }\nfloat4 ENTRY() : SV_Target0 {\n    return float4(0, 0, 0, 0);\n}\nPipeline Pp { VertexShader = hv; PixelShader = ENTRY; }\n".to_string();
    let mesh_base = mesh_program(&[], "", "DispatchMesh(4u, 1u, 1u, hl);", "SetMeshOutputCounts(64, 64);");
    let task = mesh_base.replace("void ht(", "void ENTRY(").replace("TaskShader = ht", "TaskShader = ENTRY");
    let mesh = mesh_base.replace("void hm(", "void ENTRY(").replace("MeshShader = hm", "MeshShader = ENTRY");
    let stages: [(&str, String, &str); 5] = [
        ("compute", compute, "[numthreads(4, 1, 1)]\nvoid ENTRY("),
        ("vertex", vertex, "float4 ENTRY("),
        ("pixel", pixel, "float4 ENTRY("),
        ("task", task, "[numthreads(64, 1, 1)]\nvoid ENTRY("),
        ("mesh", mesh, "[numthreads(64, 1, 1)]\n[outputtopology(\"triangle\")]\nvoid ENTRY("),
    ];
    for (stage, src, marker) in &stages {
        // (placement, renamed, role, entry, inner namespace, outer namespace)
        let forms: [(&str, &str, &'static str, &str, &str, Option<&str>); 5] = [
            ("namespace", "function", "entry-point", "@", "Nh", None),
            ("namespace", "namespace", "namespace", "he", "@", None),
            ("nested-namespace", "function", "entry-point", "@", "Nh", Some("No")),
            ("nested-namespace", "inner-namespace", "namespace", "he", "@", Some("No")),
            ("nested-namespace", "outer-namespace", "namespace", "he", "Nh", Some("@")),
        ];
        for (placement, renamed, role, entry, inner, outer) in forms {
            let (open, close) = match outer {
                None => (format!("namespace {} {{\n", inner), "}\n".to_string()),
                Some(o) => (format!("namespace {} {{ namespace {} {{\n", o, inner), "} }\n".to_string()),
            };
            let src = wrap_function(src, marker, &open, &close).replace("ENTRY", entry);
            v.push(Tpl { role, variant: format!("entry-placement/{}/{}/{}", stage, placement, renamed), src, extra: false, deep: false, vocab: true });
        }
    }
    v
}

/// space g: every kind of bound resource (something with an api slot) × placement
fn resource_templates() -> Vec<Tpl> {
    // (kind, declarations, int-valued use); `@` = the resource as declared, `#` = the resource as referred to
    const KINDS: &[(&str, &str, &str)] = &[
        ("byte-buffer", "ByteAddressBuffer @;", "(int)#.Load(0)"),
        ("rw-byte-buffer", "RWByteAddressBuffer @;", "(int)#.Load(0)"),
        ("buffer-address", "const BufferAddress @;", "(int)#.Load<uint>(0)"),
        ("rw-buffer-address", "const RWBufferAddress @;", "(int)#.Load<uint>(0)"),
        ("structured-buffer", "StructuredBuffer<int> @;", "#[0]"),
        ("rw-structured-buffer", "RWStructuredBuffer<int> @;", "#[0]"),
        ("typed-buffer", "Buffer<float4> @;", "(int)#.Load(0).x"),
        ("rw-typed-buffer", "RWBuffer<float4> @;", "(int)#[0].x"),
        ("texture", "Texture2D<float4> @;", "(int)#.Load(int3(0, 0, 0)).x"),
        ("rw-texture", "RWTexture2D<float4> @;", "(int)#[uint2(0, 0)].x"),
        ("constant-buffer-object", "struct Sc { int hm; };\nConstantBuffer<Sc> @;", "#.hm"),
        ("sampler", "SamplerState @;\nTexture2D<float4> ht;", "(int)ht.SampleLevel(#, float2(0, 0), 0).x"),
        ("two-buffer-addresses", "const BufferAddress hb;\nconst RWBufferAddress @;", "(int)hb.Load<uint>(0) + (int)#.Load<uint>(4)"),
    ];
    let mut v = Vec::new();
    for (kind, decl, usage) in KINDS {
        for placement in ["root", "namespace", "used-in-function"] {
            let src = match placement {
                "root" => prog(decl, &format!("int r = {};", usage.replace('#', "@"))),
                "namespace" => prog(&format!("namespace Nh {{ {} }}", decl), &format!("int r = {};", usage.replace("ht.", "Nh::ht.").replace("hb.", "Nh::hb.").replace('#', "Nh::@"))),
                _ => prog(&format!("{}\nint hf(int ha) {{ return ha + {}; }}", decl, usage.replace('#', "@")), "int r = hf(1);"),
            };
            v.push(Tpl { role: "global", variant: format!("resource/{}/{}", kind, placement), src, extra: false, deep: false, vocab: false });
        }
    }
    v
}

/// space c: three names, each from NAMES3, assigned to @1 @2 @3
pub struct Ctx3 {
    pub name: &'static str,
    pub src: String,
    /// pairs (i, j) of slots that must differ for the source to keep the baseline's binding structure
    pub differ: &'static [(usize, usize)],
}

fn contexts3() -> Vec<Ctx3> {
    vec![
        Ctx3 { name: "overloads", src: prog("int @1(int ha) { return 1; }\nint @2(float ha) { return 2; }\nint @3(uint ha) { return 3; }", "int r = @1((int)1) + @2(1.0f) + @3(1u);"), differ: &[] },
        Ctx3 { name: "two-namespaces", src: prog("namespace Na { int @1(int ha) { return 1; } }\nnamespace Nb { int @2(int ha) { return 2; } }\nint @3(int ha) { return 3; }", "int r = Na::@1(1) + Nb::@2(1) + @3(1);"), differ: &[] },
        Ctx3 { name: "local-vs-global", src: prog("static int @1 = 5;\nint hg() { return @1; }\nint hf(int @2) { int @3 = @2 + 1; return @3 + hg(); }", "int r = hf(1);"), differ: &[(1, 2)] },
        Ctx3 { name: "struct-vs-function", src: prog("struct @1 { int hm; };\nint @2(int ha) { return ha; }\nint @3(float ha) { return 2; }", "@1 hs; hs.hm = 1; int r = hs.hm + @2((int)1) + @3(1.0f);"), differ: &[(0, 1), (0, 2)] },
        Ctx3 { name: "local-vs-overloads", src: prog("int @1(int ha) { return 1; }\nint @2(float ha) { return 2; }\nint hf(int hb) { int @3 = hb; return @3 + @1((int)1); }", "int r = @1((int)1) + @2(1.0f) + hf(1);"), differ: &[(2, 0)] },
        Ctx3 { name: "parameter-vs-overloads", src: prog("int @1(int ha) { return 1; }\nint @2(float ha) { return 2; }\nint hf(int @3) { return @3 + @1((int)1); }", "int r = @1((int)1) + @2(1.0f) + hf(1);"), differ: &[(2, 0)] },
        Ctx3 { name: "parameter-and-local-vs-overloads", src: prog("int @1(int ha) { return 1; }\nint @1(float ha) { return 2; }\nint hf(int @2) { int @3 = @2; return @3 + @1((int)1); }", "int r = hf(1) + @1(1.0f);"), differ: &[(1, 2), (0, 1), (0, 2)] },
        Ctx3 { name: "members-vs-parameter", src: prog("struct Sh { int @1; int @2; int hf(int @3) { return @1 + @2 + @3; } };", "Sh hs; hs.@1 = 1; hs.@2 = 2; int r = hs.hf(3);"), differ: &[(0, 1), (0, 2), (1, 2)] },
        Ctx3 { name: "namespaced-globals-vs-parameter", src: prog("namespace Na { static int @1 = 5; }\nnamespace Nb { static int @2 = 6; }\nint hf(int @3) { return @3 + Na::@1 + Nb::@2; }", "int r = hf(1);"), differ: &[] },
        Ctx3 { name: "namespaced-resources", src: prog("namespace Na { ByteAddressBuffer @1; }\nnamespace Nb { ByteAddressBuffer @2; }\nint hf(int @3) { return @3 + (int)Na::@1.Load(0) + (int)Nb::@2.Load(0); }", "int r = hf(1);"), differ: &[] },
        Ctx3 { name: "enum-values", src: prog("enum Ea { @1, Eb };\nenum Ec { @2, Ed };\nint @3(int ha) { return ha; }", "int r = (int)Ea::@1 + (int)Ec::@2 + @3(1);"), differ: &[] },
        Ctx3 { name: "namespaced-structs", src: prog("namespace Na { struct @1 { int hm; }; }\nnamespace Nb { struct @2 { int hm; }; }\nstruct @3 { int hm; };", "Na::@1 ha; ha.hm = 1; Nb::@2 hb; hb.hm = 2; @3 hc; hc.hm = 3; int r = ha.hm + hb.hm + hc.hm;"), differ: &[] },
        Ctx3 { name: "cbuffer-members-vs-global", src: prog("cbuffer Ca { int @1; }\ncbuffer Cb { int @2; }\nstatic int @3 = 1;", "int r = @1 + @2 + @3;"), differ: &[(0, 1), (0, 2), (1, 2)] },
        // user types as template arguments while their emitted names move (added after a seeded change in the placeholder
        // template parameter of instantiations was missed)
        Ctx3 { name: "struct-template-arguments", src: prog("struct @1 { int hm; };\nnamespace Na { struct @2 { int hm; }; }\ntemplate<typename Th> Th @3(Th ha) { return ha; }", "@1 ha; ha.hm = 1; Na::@2 hb; hb.hm = 2; int r = @3(ha).hm + @3<Na::@2>(hb).hm;"), differ: &[(0, 2)] },
        Ctx3 { name: "struct-template-argument-vs-verbatim-names", src: prog("struct @1 { int hm; };\nenum Eh { @2, Eb };\ncbuffer Cq { int @3; }\ntemplate<typename Th> Th hf(Th ha) { return ha; }", "@1 hs; hs.hm = 1; int r = hf(hs).hm + hf<@1>(hs).hm + (int)@2 + @3;"), differ: &[(0, 1), (0, 2), (1, 2)] },
        Ctx3 { name: "enum-template-argument-vs-verbatim-names", src: prog("enum @1 { Ea, Ec };\nenum Eh { @2, Eb };\ncbuffer Cq { int @3; }\ntemplate<typename Th> Th hf(Th ha) { return ha; }", "@1 hs = @1::Ec; int r = (int)hf(hs) + (int)hf<@1>(hs) + (int)@2 + @3;"), differ: &[(0, 1), (0, 2), (1, 2)] },
        Ctx3 { name: "locals-in-sibling-blocks", src: prog("int @1(int ha) { return 1; }\nint @1(float ha) { return 2; }\nint hf(int hb) { int hr = 0; { int @2 = hb; hr += @2; } { int @3 = hb; hr += @3 + @1((int)1); } return hr; }", "int r = hf(1) + @1(1.0f);"), differ: &[(2, 0)] },
    ]
}

const BASE3: [&str; 3] = ["zqa", "zqb", "zqc"];

fn subst3(src: &str, names: [&str; 3]) -> String {
    src.replace("@1", names[0]).replace("@2", names[1]).replace("@3", names[2])
}

/// space d: names that are certainly not reserved in either target and unique in the templates
/// the quick tier tries this many of them in the templates of the exporter-name and constant-position dimensions
const QUICK_PLAIN_NAMES_NEXT_TO_EXPORTER_NAMES: usize = 5;
const PLAIN_NAMES: &[&str] = &["alpha", "Beta7", "_under", "x_0", "x_12", "a__b", "q", "mainFn", "Texture", "float5", "uint5x2", "cbuffer_", "q0", "Zq", "v_0_0", "kernel0", "deviceA", "l", "O0", "I1"];

// ---------------------------------------------------------------------------------------------------------------
// space e: a reference to an entity whose name is also declared in a scope nearer to the use (names shared between
// namespaces, locals and globals), for every form in which the reference can be written
// (added after a seeded change that resolved a bare `::name` from the current scope was missed: no program wrote an
// absolute name, and no two scopes of one program shared a name that was referred to from the inner one)

struct Ent {
    kind: &'static str,
    /// `@` = declared name, `%` = tag that keeps helper names of the two entities of a program apart
    decl: &'static str,
    /// statements before the use; `#` = the reference as written
    pre: &'static str,
    /// int-valued expression that uses the reference
    val: &'static str,
}

const ENTS: &[Ent] = &[
    Ent { kind: "function", decl: "int @(int ha) { return ha + %; }", pre: "", val: "#(1)" },
    Ent { kind: "static-global", decl: "static int @ = %;", pre: "", val: "#" },
    Ent { kind: "static-const-global", decl: "static const int @ = 1%;", pre: "", val: "#" },
    Ent { kind: "resource-global", decl: "ByteAddressBuffer @;", pre: "", val: "(int)#.Load(%)" },
    Ent { kind: "cbuffer-member", decl: "cbuffer Ch% { int @; }", pre: "", val: "#" },
    Ent { kind: "struct", decl: "struct @ { int hm%; };", pre: "# hs%; hs%.hm% = %;", val: "hs%.hm%" },
    Ent { kind: "enum", decl: "enum @ { Ea%, Eb% };", pre: "", val: "(int)#::Eb%" },
    Ent { kind: "enum-value", decl: "enum Eh% { @, Ez% };", pre: "", val: "(int)#" },
    Ent { kind: "typedef", decl: "typedef int @;", pre: "# ht% = %;", val: "ht%" },
    Ent { kind: "template-function", decl: "template<typename Th> Th @(Th ha) { return ha + %; }", pre: "", val: "#<int>(1)" },
    Ent { kind: "namespace", decl: "namespace @ { int hq%(int ha) { return ha + %; } }", pre: "", val: "#::hq%(1)" },
];

/// further ways of USING an entity (tried as the referred-to entity only, never as the nearer declaration): positions
/// whose expression the front end folds to a constant and the exporter writes out again from the value
const ENT_FORMS: &[Ent] = &[
    Ent {
        kind: "enum-in-case-labels",
        decl: "enum @ { Ea%, Eb% };",
        pre: "int hz% = %; int hw% = 0; switch ((#)hz%) { case (#)7: hw% = 1; break; case #::Eb%: hw% = 2; break; case (#)0: hw% = 3; break; default: break; }",
        val: "hw%",
    },
    Ent { kind: "enum-value-in-case-label", decl: "enum Eh% { @, Ez% };", pre: "int hz% = %; int hw% = 0; switch (hz%) { case #: hw% = 1; break; default: break; }", val: "hw%" },
    Ent {
        kind: "static-const-global-folded",
        decl: "static const int @ = 1%;",
        pre: "int hv%[#]; hv%[0] = %; int hw% = 0; switch (hv%[0]) { case #: hw% = 1; break; default: break; }",
        val: "hv%[0] + hw%",
    },
];

impl Ent {
    fn decl(&self, name: &str, tag: &str) -> String {
        self.decl.replace('@', name).replace('%', tag)
    }
    fn pre(&self, path: &str, tag: &str) -> String {
        self.pre.replace('#', path).replace('%', tag)
    }
    fn val(&self, path: &str, tag: &str) -> String {
        self.val.replace('#', path).replace('%', tag)
    }
}

pub struct ShadowCase {
    pub structure: &'static str,
    pub label: String,
    /// `@1` = the outer entity's name, `@2` = the name declared nearer to the use
    pub src: String,
    /// thorough tier only (a written form of a reference that lies between two forms the quick tier tries)
    pub deep: bool,
    /// the quick tier tries the pairs of EQUAL names only (capture needs a shared name; suffix collisions are space c)
    pub equal_names_in_quick: bool,
}

/// every structure × entity kind × kind of the nearer declaration × written form of both references
fn shadow_cases() -> Vec<ShadowCase> {
    let mut v = Vec::new();
    // the nearer declaration is a member of an enclosing namespace, of any kind
    for structure in ["namespace-member", "outer-namespace-member", "member-of-namespace-of-same-name"] {
        let (refs1, refs2): (&[&str], &[&str]) = match structure {
            "member-of-namespace-of-same-name" => (&["::Na::@1", "Na::@1"], &["Na::@2", "Nu::Na::@2", "::Nu::Na::@2"]),
            _ => (&["::@1", "@1"], &["@2", "Nu::@2", "::Nu::@2"]),
        };
        for e in ENTS.iter().chain(ENT_FORMS) {
            for sh in ENTS {
                for r1 in refs1 {
                    for r2 in refs2 {
                        let hu = format!("int hu(int ha) {{ {} {} return {} + {}; }}", e.pre(r1, "1"), sh.pre(r2, "2"), e.val(r1, "1"), sh.val(r2, "2"));
                        let (decls, call) = match structure {
                            "namespace-member" => (format!("{}\nnamespace Nu {{ {}\n{} }}", e.decl("@1", "1"), sh.decl("@2", "2"), hu), "Nu::hu(1)"),
                            "outer-namespace-member" => (format!("{}\nnamespace Nu {{ {}\nnamespace Nv {{ {} }} }}", e.decl("@1", "1"), sh.decl("@2", "2"), hu), "Nu::Nv::hu(1)"),
                            _ => (format!("namespace Na {{ {} }}\nnamespace Nu {{ namespace Na {{ {} }}\n{} }}", e.decl("@1", "1"), sh.decl("@2", "2"), hu), "Nu::hu(1)"),
                        };
                        v.push(ShadowCase { structure, label: format!("{} `{}` / nearer {} `{}`", e.kind, r1, sh.kind, r2), src: prog(&decls, &format!("int r = {};", call)), deep: false, equal_names_in_quick: false });
                    }
                }
            }
        }
    }
    // the entity is a member of a namespace and is referred to through a qualified name from outside that namespace, where
    // (or around where) another entity of the same leaf name is declared: a path that loses its qualification is captured
    // (added after a seeded change that printed `(N::E)3` as `(E)3` was missed: every entity that shared its name with another
    // one was declared at the root, or in a namespace of the same name as the other's)
    for structure in ["qualified-from-root", "qualified-from-sibling-namespace", "qualified-from-enclosing-namespace", "qualified-from-root-function-local"] {
        let (refs1, refs2): (&[&str], &[&str]) = match structure {
            "qualified-from-root" => (&["Na::@1", "::Na::@1"], &["@2", "::@2"]),
            "qualified-from-sibling-namespace" => (&["Na::@1", "::Na::@1"], &["@2", "Nu::@2", "::Nu::@2"]),
            "qualified-from-enclosing-namespace" => (&["Nb::@1", "Na::Nb::@1", "::Na::Nb::@1"], &["@2", "Na::@2", "::Na::@2"]),
            _ => (&["Na::@1", "::Na::@1"], &[""]),
        };
        for e in ENTS.iter().chain(ENT_FORMS) {
            for sh in ENTS {
                if structure == "qualified-from-root-function-local" && sh.kind != ENTS[0].kind {
                    continue;
                }
                for r1 in refs1 {
                    for r2 in refs2 {
                        let hu = format!("int hu(int ha) {{ {} {} return {} + {}; }}", e.pre(r1, "1"), sh.pre(r2, "2"), e.val(r1, "1"), sh.val(r2, "2"));
                        let (decls, call, label) = match structure {
                            "qualified-from-root" => (format!("namespace Na {{ {} }}\n{}\n{}", e.decl("@1", "1"), sh.decl("@2", "2"), hu), "hu(1)", format!("{} `{}` / same name at the root: {} `{}`", e.kind, r1, sh.kind, r2)),
                            "qualified-from-sibling-namespace" => (format!("namespace Na {{ {} }}\nnamespace Nu {{ {}\n{} }}", e.decl("@1", "1"), sh.decl("@2", "2"), hu), "Nu::hu(1)", format!("{} `{}` / same name next to the use: {} `{}`", e.kind, r1, sh.kind, r2)),
                            "qualified-from-enclosing-namespace" => (format!("namespace Na {{ namespace Nb {{ {} }}\n{}\n{} }}", e.decl("@1", "1"), sh.decl("@2", "2"), hu), "Na::hu(1)", format!("{} `{}` / same name in the enclosing namespace: {} `{}`", e.kind, r1, sh.kind, r2)),
                            _ => {
                                // the other entity of the same name is a parameter / a local of the using function
                                let hu = format!("int hu(int @2) {{ {} return {} + @2; }}\nint hw(int ha) {{ int @2 = ha; {} return {} + @2; }}", e.pre(r1, "1"), e.val(r1, "1"), e.pre(r1, "1"), e.val(r1, "1"));
                                (format!("namespace Na {{ {} }}\n{}", e.decl("@1", "1"), hu), "hu(1) + hw(1)", format!("{} `{}` / same name is a parameter and a local", e.kind, r1))
                            }
                        };
                        // partially qualified forms lie between the shortest and the absolute form
                        let deep = matches!(*r1, "Na::Nb::@1") || matches!(*r2, "Na::@2" | "Nu::@2");
                        v.push(ShadowCase { structure, label, src: prog(&decls, &format!("int r = {};", call)), deep, equal_names_in_quick: true });
                    }
                }
            }
        }
    }
    // the nearer declaration is a variable, a member, a method or a template parameter of the using function
    for structure in ["parameter", "local", "later-local", "outer-block-local", "for-local", "struct-member", "method", "namespace-function-parameter", "entry-local", "template-type-parameter"] {
        for e in ENTS.iter().chain(ENT_FORMS) {
            for r1 in ["::@1", "@1"] {
                let (pre, val) = (e.pre(r1, "1"), e.val(r1, "1"));
                let d = e.decl("@1", "1");
                let (decls, body) = match structure {
                    "parameter" => (format!("{d}\nint hu(int @2) {{ {pre} return {val} + @2; }}"), "int r = hu(1);".to_string()),
                    "local" => (format!("{d}\nint hu(int ha) {{ int @2 = ha; {pre} return {val} + @2; }}"), "int r = hu(1);".to_string()),
                    "later-local" => (format!("{d}\nint hu(int ha) {{ {pre} int hr = {val}; int @2 = ha; return hr + @2; }}"), "int r = hu(1);".to_string()),
                    "outer-block-local" => (format!("{d}\nint hu(int ha) {{ int @2 = ha; int hr = 0; {{ {pre} hr = {val} + @2; }} return hr; }}"), "int r = hu(1);".to_string()),
                    "for-local" => (format!("{d}\nint hu(int ha) {{ int hr = 0; for (int @2 = 0; @2 < ha; ++@2) {{ {pre} hr += {val} + @2; }} return hr; }}"), "int r = hu(1);".to_string()),
                    "struct-member" => (format!("{d}\nstruct Su {{ int @2; int hu(int ha) {{ {pre} return {val} + @2 + ha; }} }};"), "Su hv; hv.@2 = 1; int r = hv.hu(1);".to_string()),
                    "method" => (format!("{d}\nstruct Su {{ int hn; int @2(int ha) {{ return ha + hn; }} int hu(int ha) {{ {pre} return {val} + @2(ha); }} }};"), "Su hv; hv.hn = 1; int r = hv.hu(1);".to_string()),
                    "namespace-function-parameter" => (format!("{d}\nnamespace Nu {{ int hu(int @2) {{ {pre} return {val} + @2; }} }}"), "int r = Nu::hu(1);".to_string()),
                    "entry-local" => (d.clone(), format!("int @2 = 1; {pre} int r = {val} + @2;")),
                    _ => (format!("{d}\ntemplate<typename @2> @2 hu(@2 ha) {{ {pre} return ha + (@2)({val}); }}"), "int r = hu<int>(1);".to_string()),
                };
                v.push(ShadowCase { structure, label: format!("{} `{}`", e.kind, r1), src: prog(&decls, &body), deep: false, equal_names_in_quick: false });
            }
        }
    }
    // the other declaration of the name sits in a scope that has ENDED where the use is written: the body of a loop whose
    // condition / increment follows, a block / branch / loop before the using statement. Statement kind × part of the statement
    // that holds the use × kind of the used entity (every global kind, a parameter and an earlier local of the using function)
    // × written form × type of the other declaration (differs from / equals the type of the entity)
    // (added after a seeded change that typed the condition of a do-while loop inside the scope of its body was missed: every
    // nearer declaration of a shared name was in a scope that still was open at the use)
    for &(structure, stmt) in PAST_STRUCTURES {
        for &(kind, decl, val) in PAST_ENTS {
            let refs: &[&str] = if decl.is_empty() { &["@1"] } else { &["@1", "::@1"] };
            for r1 in refs {
                for ty in ["float", "int"] {
                    let near = format!("{ty} @2 = ({ty})ha; hr += (int)@2;");
                    let body = stmt.replace("FORINIT", &format!("{ty} @2 = ({ty})0; @2 < ({ty})1; ++@2")).replace('S', &near).replace('V', &val.replace('#', r1));
                    let (params, first, call) = match kind {
                        "parameter" => ("int ha, int @1", String::new(), "hu(1, 2)"),
                        "earlier-local" => ("int ha", "int @1 = ha + 1; ".to_string(), "hu(1)"),
                        _ => ("int ha", String::new(), "hu(1)"),
                    };
                    let decls = format!("{}\nint hu({params}) {{ int hr = 0; {first}{body} return hr; }}", decl.replace('@', "@1"));
                    v.push(ShadowCase { structure, label: format!("{} `{}` / {} local of the same name in the ended scope", kind, r1, ty), src: prog(&decls, &format!("int r = {};", call)), deep: false, equal_names_in_quick: true });
                }
            }
        }
    }
    v
}

/// entity kinds of the ended-scope structures: (kind, declaration with `@` = name, int-valued expression with `#` = reference)
const PAST_ENTS: &[(&str, &str, &str)] = &[
    ("function", "int @(int ha) { return ha + 1; }", "#(1)"),
    ("static-global", "static int @ = 1;", "#"),
    ("static-const-global", "static const int @ = 11;", "#"),
    ("resource-global", "ByteAddressBuffer @;", "(int)#.Load(0)"),
    ("cbuffer-member", "cbuffer Ch1 { int @; }", "#"),
    ("struct", "struct @ { int hm1; };", "(int)sizeof(#)"),
    ("enum", "enum @ { Ea1, Eb1 };", "(int)#::Eb1"),
    ("enum-value", "enum Eh1 { @, Ez1 };", "(int)#"),
    ("typedef", "typedef int @;", "(#)1"),
    ("template-function", "template<typename Th> Th @(Th ha) { return ha + 1; }", "#<int>(1)"),
    ("namespace", "namespace @ { int hq1(int ha) { return ha + 1; } }", "#::hq1(1)"),
    ("parameter", "", "#"),
    ("earlier-local", "", "#"),
];

/// (structure, statement(s)): `S` = declaration of the other entity (and a use of it), `V` = the int-valued use of the entity
const PAST_STRUCTURES: &[(&str, &str)] = &[
    ("past-scope-end/do-while-condition", "do { S hr += 1; } while (V + hr < 3);"),
    ("past-scope-end/while-condition", "while (V + hr < 3) { S hr += 1; }"),
    ("past-scope-end/for-condition", "for (int hi = 0; hi + V < 9; ++hi) { S }"),
    ("past-scope-end/for-increment", "for (int hi = 0; hi < 9; hi += V) { S }"),
    ("past-scope-end/after-for-init", "for (FORINIT) { hr += 1; } hr += V;"),
    ("past-scope-end/after-block", "{ S } hr += V;"),
    ("past-scope-end/else-after-then", "if (ha > 0) { S } else { hr += V; }"),
    ("past-scope-end/after-if", "if (ha > 0) { S } hr += V;"),
    ("past-scope-end/after-switch", "switch (ha) { case 0: { S } break; default: break; } hr += V;"),
];

/// signature class of a structure: one per kind of scope that holds the nearer declaration (one repair each)
fn shadow_class(structure: &str) -> &'static str {
    match structure {
        "namespace-member" | "outer-namespace-member" | "member-of-namespace-of-same-name" => "namespace-member",
        "struct-member" | "method" => "struct-member",
        "template-type-parameter" => "template-parameter",
        "qualified-from-root" | "qualified-from-sibling-namespace" | "qualified-from-enclosing-namespace" => "qualified-reference",
        "qualified-from-root-function-local" => "qualified-reference-next-to-variable",
        s if s.starts_with("past-scope-end/") => "past-scope-end",
        _ => "local-or-parameter",
    }
}

const BASE2: [&str; 2] = ["zqa", "zqb"];

fn subst2(src: &str, names: [&str; 2]) -> String {
    src.replace("@1", names[0]).replace("@2", names[1])
}

/// Reference scoping model applied to the two SOURCE programs: the renamed program is a renaming of the baseline iff
/// the trees have one shape, every use resolves (ordinary lexical scoping, `::` anchors at the root) to the same
/// declaration in both and the renaming puts no two declarations of one scope under one name
fn certify(base: &str, ren: &str) -> Result<(), String> {
    let parse = |s: &str| match guard(|| parse_src(s)) {
        Ok(Ok(m)) => Ok(m),
        Ok(Err(_)) => Err("does not parse".to_string()),
        Err(_) => Err("parser panic".to_string()),
    };
    let (mb, mr) = (parse(base)?, parse(ren)?);
    let (ab, ar) = (An::of(&mb), An::of(&mr));
    if ab.decls.len() != ar.decls.len() || ab.uses.len() != ar.uses.len() || !ab.decls.iter().zip(ar.decls.iter()).all(|(x, y)| x.kind == y.kind && x.scope == y.scope) {
        return Err("different shape".into());
    }
    let cb: BTreeSet<(usize, usize)> = ab.clashes().into_iter().collect();
    if ar.clashes().into_iter().any(|c| !cb.contains(&c)) {
        return Err("two declarations of one scope share a name".into());
    }
    for (ub, ur) in ab.uses.iter().zip(ar.uses.iter()) {
        if ub.res != ur.res {
            return Err("a use binds differently".into());
        }
        if ub.res.is_empty() && ub.path != ur.path {
            return Err("a use of an undeclared name".into());
        }
    }
    Ok(())
}

// ---------------------------------------------------------------------------------------------------------------
// space a: generated core, `$key$` = name unique per feature, `$~key$` = nested name (shared between features in scheme 1)

struct Feature {
    decls: &'static str,
    pre: &'static str,
    usage: &'static str,
}

const FEATURES: &[Feature] = &[
    Feature { decls: "ByteAddressBuffer $g$;", pre: "", usage: "(int)$g$.Load(0)" },
    Feature { decls: "static int $sg$ = 3;", pre: "", usage: "$sg$" },
    Feature { decls: "static const int $sc$ = 4;", pre: "", usage: "$sc$" },
    Feature { decls: "groupshared int $gs$[4];", pre: "$gs$[0] = 1;", usage: "$gs$[0]" },
    Feature { decls: "int $f$(int $~p$) { int $~l$ = $~p$ * 2; return $~l$; }", pre: "", usage: "$f$(1)" },
    Feature { decls: "int $o$(int $~p$) { return $~p$; }\nint $o$(float $~p$) { return 2; }", pre: "", usage: "$o$((int)1) + $o$(1.0f)" },
    Feature { decls: "template<typename $~T$> $~T$ $tf$($~T$ $~p$) { return $~p$; }", pre: "", usage: "$tf$<int>(2) + (int)$tf$<float>(1.0f)" },
    Feature { decls: "struct $S$ { int $~m$; int $~n$; int $~me$(int $~p$) { return $~m$ + $~p$; } };", pre: "$S$ $es$; $es$.$~m$ = 1; $es$.$~n$ = 2;", usage: "$es$.$~me$(1) + $es$.$~n$" },
    Feature { decls: "enum $E$ { $~A$, $~B$ };", pre: "", usage: "(int)$E$::$~B$" },
    Feature { decls: "namespace $N$ { static int $~sg$ = 1; int $~f$(int $~p$) { return $~p$ + $~sg$; } }", pre: "", usage: "$N$::$~f$(1)" },
    Feature { decls: "namespace $N$ { namespace $~M$ { int $~f$(int $~p$) { return $~p$; } } }", pre: "", usage: "$N$::$~M$::$~f$(1)" },
    Feature { decls: "cbuffer $C$ { int $cm$; float4 $cv$; }", pre: "", usage: "$cm$ + (int)$cv$.x" },
    Feature { decls: "struct $S$ { int $~m$; };\nStructuredBuffer<$S$> $g$;", pre: "", usage: "$g$.Load(0).$~m$" },
    Feature { decls: "void $f$(out int $~p$, inout int $~q$) { $~p$ = $~q$; $~q$ = 2; }", pre: "int $ea$ = 0; int $eb$ = 1; $f$($ea$, $eb$);", usage: "$ea$ + $eb$" },
    Feature {
        decls: "int $f$(int $~p$) { int $~l$ = 0; for (int $~i$ = 0; $~i$ < $~p$; ++$~i$) { int $~k$ = $~i$; $~l$ += $~k$; } { int $~k$ = 1; $~l$ += $~k$; } if ($~l$ > 2) { int $~k$ = 3; $~l$ -= $~k$; } return $~l$; }",
        pre: "",
        usage: "$f$(3)",
    },
    Feature { decls: "typedef int $TD$;\n$TD$ $f$($TD$ $~p$) { return $~p$; }", pre: "", usage: "$f$(1)" },
    Feature {
        decls: "namespace $N$ { enum $~E$ { $~A$, $~B$ }; struct $~S$ { $~E$ $~m$; int $~n$; }; int $~f$($~S$ $~p$) { return $~p$.$~n$ + (int)$~p$.$~m$; } }",
        pre: "$N$::$~S$ $es$; $es$.$~m$ = $N$::$~E$::$~B$; $es$.$~n$ = 2;",
        usage: "$N$::$~f$($es$)",
    },
    Feature { decls: "Texture2D<float4> $t$;", pre: "", usage: "(int)$t$.Load(int3(0, 0, 0)).x" },
    Feature { decls: "static int $sg$ = 7;\nint $g$() { return $sg$; }\nint $f$(int $~p$) { int $~l$ = $~p$; return $~l$ + $g$(); }", pre: "", usage: "$f$(1)" },
    Feature { decls: "struct $S$ { int $~m$; };\n$S$ $mk$(int $~p$) { $S$ $~l$; $~l$.$~m$ = $~p$; return $~l$; }", pre: "", usage: "$mk$(3).$~m$" },
    Feature {
        decls: "int $f$(int $~p$) { int $~l$ = 0; switch ($~p$) { case 0: $~l$ = 1; break; default: $~l$ = 2; break; } while ($~l$ < 4) { $~l$++; } return $~l$; }",
        pre: "",
        usage: "$f$(0)",
    },
    Feature {
        decls: "static int $sg$ = 2;\nint $h$(int $~p$) { return $~p$ + $sg$; }\nstruct $S$ { int $~m$; int $~me$() { return $h$($~m$); } };",
        pre: "$S$ $es$; $es$.$~m$ = 1;",
        usage: "$es$.$~me$()",
    },
];

fn expand(text: &str, feat: usize, scheme: usize) -> String {
    let mut out = String::new();
    let mut it = text.split('$');
    out.push_str(it.next().unwrap_or(""));
    while let Some(key) = it.next() {
        let (nested, k) = match key.strip_prefix('~') {
            Some(k) => (true, k),
            None => (false, key),
        };
        let tag = if nested && scheme == 1 { 99 } else { feat };
        out.push_str(&format!("{:z<3.3}{:02}", k, tag));
        out.push_str(it.next().unwrap_or(""));
    }
    out
}

fn core_program(feats: &[usize], scheme: usize) -> String {
    let mut decls = String::new();
    let mut pre = String::new();
    let mut uses = Vec::new();
    for f in feats {
        decls.push_str(&expand(FEATURES[*f].decls, *f, scheme));
        decls.push('\n');
        if !FEATURES[*f].pre.is_empty() {
            pre.push_str(&expand(FEATURES[*f].pre, *f, scheme));
            pre.push_str("\n    ");
        }
        uses.push(expand(FEATURES[*f].usage, *f, scheme));
    }
    let tail = "RWByteAddressBuffer $ob$;\n[numthreads(4, 1, 1)]\nvoid $cs$(uint3 $tid$ : SV_DispatchThreadID) {\n    ";
    let mut s = decls;
    s.push_str(&expand(tail, 90, scheme));
    s.push_str(&pre);
    s.push_str(&expand("int $r$ = ", 90, scheme));
    s.push_str(&uses.join(" + "));
    s.push_str(&expand(";\n    $ob$.Store(0, $r$ + (int)$tid$.x);\n}\nPipeline $Pp$ { ComputeShader = $cs$; }\n", 90, scheme));
    s
}

/// the core: singles, adjacent pairs, adjacent triples, spread pairs, everything; × two naming schemes
fn core_programs() -> Vec<(String, String)> {
    let n = FEATURES.len();
    let mut sets: Vec<Vec<usize>> = Vec::new();
    for i in 0..n {
        sets.push(vec![i]);
    }
    for i in 0..n - 1 {
        sets.push(vec![i, i + 1]);
    }
    for i in 0..n - 2 {
        sets.push(vec![i, i + 1, i + 2]);
    }
    for i in 0..n / 2 {
        sets.push(vec![i, i + n / 2]);
    }
    sets.push((0..n).collect());
    let mut out = Vec::new();
    for scheme in 0..2 {
        for s in &sets {
            out.push((format!("features {:?} scheme {}", s, scheme), core_program(s, scheme)));
        }
    }
    out
}

/// user identifiers of a source program: every declared name (from the parsed tree), in order of declaration
fn declared_names(src: &str) -> Result<Vec<String>, String> {
    let m = match guard(|| parse_src(src)) {
        Ok(Ok(m)) => m,
        Ok(Err(e)) => return Err(e),
        Err(p) => return Err(p.message),
    };
    let a = An::of(&m);
    let mut seen = BTreeSet::new();
    let mut out = Vec::new();
    for d in &a.decls {
        if seen.insert(d.name.clone()) {
            out.push(d.name.clone());
        }
    }
    Ok(out)
}

/// token-level substitution driven by the real lexer's spans
fn apply_sigma(src: &str, map: &[(String, String)]) -> Result<String, String> {
    use rssl::text::tokens::Token;
    use rssl::text::{FileName, Locate, LocateEnd, SourceManager};
    let r = guard(|| {
        let mut sm = SourceManager::new();
        rssl::preprocess::preprocess_fragment(src, FileName("t.rssl".to_string()), &mut sm).map(|toks| {
            toks.iter().map(|t| (t.0.clone(), t.get_location().get_raw() as usize, t.get_end_location().get_raw() as usize)).collect::<Vec<_>>()
        })
    });
    let toks = match r {
        Ok(Ok(t)) => t,
        Ok(Err(_)) => return Err("lexer error".into()),
        Err(p) => return Err(p.message),
    };
    let mut out = String::new();
    let mut cur = 0usize;
    for (t, s, e) in toks {
        if s < cur || e > src.len() || e < s {
            return Err("token spans do not tile".into());
        }
        out.push_str(&src[cur..s]);
        let text = &src[s..e];
        match &t {
            Token::Id(id) if id.0 == text => match map.iter().find(|(k, _)| *k == id.0) {
                Some((_, v)) => out.push_str(v),
                None => out.push_str(text),
            },
            _ => out.push_str(text),
        }
        cur = e;
    }
    out.push_str(&src[cur..]);
    Ok(out)
}

fn fresh_name(renaming: usize, i: usize, n: usize) -> String {
    match renaming {
        0 => format!("q{}", i),
        1 => format!("Q{}", n - i),
        _ => {
            // k, ka, kb, kaa, kab, … (lengths vary)
            let mut s = String::from("k");
            let mut v = i + 1;
            let mut digits = Vec::new();
            while v > 1 {
                digits.push(if v % 2 == 0 { 'a' } else { 'b' });
                v /= 2;
            }
            digits.reverse();
            s.extend(digits);
            s
        }
    }
}

// ---------------------------------------------------------------------------------------------------------------
// driver

struct BaseLine {
    out: Option<(Box<Out>, An)>,
    accepted: bool,
}

fn baseline(src: &str, cfg: Cfg, mode: &Mode) -> BaseLine {
    match compile_out(src, cfg, mode) {
        Comp::Ok(o) => {
            let accepted = cfg.is_hlsl() && hlsl_accepts(&o.text).is_ok();
            let an = An::of(&o.tree);
            BaseLine { out: Some((o, an)), accepted }
        }
        _ => BaseLine { out: None, accepted: false },
    }
}

fn cfgs(ctx: &Ctx) -> Vec<Cfg> {
    if ctx.quick() { vec![Cfg::Dx, Cfg::Msl] } else { vec![Cfg::Dx, Cfg::Vk, Cfg::VkBa, Cfg::Msl] }
}

const NAMES3: &[&str] = &["x", "x_0", "x_1", "x_0_0", "x_2"];

pub fn run(ctx: &Ctx) -> i32 {
    let mut rep = Report::new("exploration");
    let lists = Lists::new();
    let cfgs = cfgs(ctx);
    let mode = Mode::All;
    let words = candidate_words();
    let mut tpls = role_templates();
    tpls.extend(type_position_templates().into_iter().filter(|t| !ctx.quick() || !t.deep));
    tpls.extend(generator_name_templates().into_iter().filter(|t| !ctx.quick() || !t.deep));
    let dump = std::env::var("C15_DUMP").is_ok();
    // C15_TIMING=1: CPU seconds and wall seconds per phase on stderr (diagnostics only, never part of a verdict)
    let timing = std::env::var("C15_TIMING").is_ok();
    let lap_state = std::cell::Cell::new((process_cpu_s(), std::time::Instant::now()));
    let lap = |name: &str| {
        if timing {
            let (c0, w0) = lap_state.get();
            let (c1, w1) = (process_cpu_s(), std::time::Instant::now());
            eprintln!("TIMING {:<28} cpu {:7.1}s wall {:6.1}s", name, c1 - c0, (w1 - w0).as_secs_f64());
            lap_state.set((c1, w1));
        }
    };

    // baselines of the role templates
    let mut machinery = Acc::default();
    let mut base_src: Vec<String> = Vec::new();
    let mut bases: Vec<Vec<BaseLine>> = Vec::new();
    for t in &tpls {
        let src = t.src.replace('@', BASE);
        let mut row = Vec::new();
        for c in &cfgs {
            let b = baseline(&src, *c, &mode);
            if dump {
                println!("=== {} / {} / {} ===\n{}", t.role, t.variant, c.name(), b.out.as_ref().map(|o| o.0.text.clone()).unwrap_or("<rejected>".into()));
            }
            if b.out.is_none() {
                machinery.count(&format!("baseline_rejected|{}|{}|{}", t.role, t.variant, target_name(*c)));
            } else if c.is_hlsl() && !b.accepted {
                machinery.count(&format!("baseline_output_not_reaccepted|{}|{}|{}", t.role, t.variant, target_name(*c)));
            }
            row.push(b);
        }
        bases.push(row);
        base_src.push(src);
    }

    lap("template baselines");
    // ---- space d: ordinary names stay verbatim
    let radices = [cfgs.len() as u64, tpls.len() as u64, PLAIN_NAMES.len() as u64];
    let rd = run_par(ctx, product(&radices), 16, |idx, acc| {
        let mut d = Vec::new();
        decode(idx, &radices, &mut d);
        let (ci, ti, wi) = (d[0] as usize, d[1] as usize, d[2] as usize);
        let (cfg, t, w) = (cfgs[ci], &tpls[ti], PLAIN_NAMES[wi]);
        if ctx.quick() && t.vocab && wi >= QUICK_PLAIN_NAMES_NEXT_TO_EXPORTER_NAMES {
            return;
        }
        let base = match &bases[ti][ci].out {
            Some(o) => o,
            None => return,
        };
        acc.evals += 1;
        let ren = t.src.replace('@', w);
        let map = [(BASE.to_string(), w.to_string())];
        let p = Pair { space: "d", role: t.role, base: &base_src[ti], ren: &ren, map: &map, strict: Strict::Verbatim, cfg, mode: &mode, origin: "plain", certified: false, note: &t.variant };
        match check_pair(&p, &base.0, &base.1, bases[ti][ci].accepted, &lists, acc) {
            Verdict::Outside => acc.count("d_outside"),
            _ => acc.count("d_checked"),
        }
    });
    rep.absorb("d_verbatim", rd);
    lap("d_verbatim");

    // ---- space c: generated-suffix collisions
    let ctxs = contexts3();
    let mut c_src = Vec::new();
    let mut c_bases: Vec<Vec<BaseLine>> = Vec::new();
    for c in &ctxs {
        let src = subst3(&c.src, BASE3);
        let mut row = Vec::new();
        for cfg in &cfgs {
            let b = baseline(&src, *cfg, &mode);
            if dump {
                println!("=== ctx {} / {} ===\n{}", c.name, cfg.name(), b.out.as_ref().map(|o| o.0.text.clone()).unwrap_or("<rejected>".into()));
            }
            if b.out.is_none() {
                machinery.count(&format!("baseline_rejected|ctx-{}|{}", c.name, target_name(*cfg)));
            }
            row.push(b);
        }
        c_bases.push(row);
        c_src.push(src);
    }
    // name families: x (plain) and reserved words that the front end accepts as function names (they get suffixes themselves)
    let mut families: Vec<Vec<String>> = vec![NAMES3.iter().map(|s| s.to_string()).collect()];
    {
        let fsrc = &tpls.iter().find(|t| t.role == "function").unwrap().src;
        let mut accepted_reserved = Vec::new();
        for w in &words {
            if (lists.hlsl.contains_key(w) || lists.msl.contains_key(w)) && matches!(compile_out(&fsrc.replace('@', w), Cfg::Dx, &mode), Comp::Ok(_)) {
                accepted_reserved.push(w.clone());
            }
        }
        rep.cov("reserved_words_accepted_as_function_name", Json::Int(accepted_reserved.len() as i64));
        let take = ctx.pick(6usize, 40usize);
        let step = (accepted_reserved.len() / take.max(1)).max(1);
        for w in accepted_reserved.iter().step_by(step).take(take) {
            families.push(vec![w.clone(), format!("{}_0", w), format!("{}_1", w)]);
        }
    }
    lap("c: baselines and families");
    let mut c_cases: Vec<(usize, usize, [usize; 3])> = Vec::new();
    for (ci, c) in ctxs.iter().enumerate() {
        for (fi, fam) in families.iter().enumerate() {
            // contexts about globals that become parameters / locals / members in Metal do not depend on the kind of name
            if fi > 0 && matches!(c.name, "local-vs-global" | "namespaced-globals-vs-parameter" | "namespaced-resources") {
                continue;
            }
            let n = fam.len();
            for a in 0..n {
                for b in 0..n {
                    for d in 0..n {
                        let asg = [a, b, d];
                        if c.differ.iter().all(|(i, j)| asg[*i] != asg[*j]) {
                            c_cases.push((ci, fi, asg));
                        }
                    }
                }
            }
        }
    }
    let nc = cfgs.len() as u64;
    let rc = run_par(ctx, c_cases.len() as u64 * nc, 16, |idx, acc| {
        let (ci, fi, asg) = c_cases[(idx / nc) as usize];
        let k = (idx % nc) as usize;
        let cfg = cfgs[k];
        let base = match &c_bases[ci][k].out {
            Some(o) => o,
            None => return,
        };
        acc.evals += 1;
        let fam = &families[fi];
        let names = [fam[asg[0]].as_str(), fam[asg[1]].as_str(), fam[asg[2]].as_str()];
        let ren = subst3(&ctxs[ci].src, names);
        let map: Vec<(String, String)> = (0..3).map(|i| (BASE3[i].to_string(), names[i].to_string())).collect();
        let role = if fi == 0 { format!("ctx-{}", ctxs[ci].name) } else { format!("ctx-{}+reserved", ctxs[ci].name) };
        let p = Pair { space: "c", role: &role, base: &c_src[ci], ren: &ren, map: &map, strict: Strict::Free, cfg, mode: &mode, origin: if fi == 0 { "plain" } else { "reserved-word" }, certified: false, note: "" };
        match check_pair(&p, &base.0, &base.1, c_bases[ci][k].accepted, &lists, acc) {
            Verdict::Outside => acc.count("c_assignment_not_accepted"),
            _ => acc.count(&format!("c_checked|{}", ctxs[ci].name)),
        }
    });
    rep.absorb("c_suffix_collisions", rc);
    lap("c_suffix_collisions");

    // ---- space e: shadowed references
    let shadow: Vec<ShadowCase> = shadow_cases().into_iter().filter(|c| !ctx.quick() || !c.deep).collect();
    let names_e: Vec<&str> = if ctx.quick() { vec!["x", "x_0"] } else { NAMES3.to_vec() };
    let ne = names_e.len() as u64;
    // one index = one (case, target): its baseline is compiled once and serves every pair of names
    let radices = [cfgs.len() as u64, shadow.len() as u64];
    let re = run_par(ctx, product(&radices), 4, |idx, acc| {
        let mut d = Vec::new();
        decode(idx, &radices, &mut d);
        let (cfg, sc) = (cfgs[d[0] as usize], &shadow[d[1] as usize]);
        let base = subst2(&sc.src, BASE2);
        let mut b: Option<BaseLine> = None;
        let role = match shadow_class(sc.structure) {
            "qualified-reference" => "qualified-reference-to-shared-leaf-name".to_string(),
            "qualified-reference-next-to-variable" => "qualified-reference-next-to-local-or-parameter".to_string(),
            "past-scope-end" => sc.structure.to_string(),
            c => format!("shadowed-by-{}", c),
        };
        let note = format!("{}: {}", sc.structure, sc.label);
        // the ended-scope structures also get a name that Metal reserves (rssl does not): both variables then carry generated names
        let names_case: Vec<&str> = if sc.structure.starts_with("past-scope-end/") { names_e.iter().copied().chain(["kernel"]).collect() } else { names_e.clone() };
        for n1 in &names_case {
            for n0 in &names_case {
                let names = [*n0, *n1];
                if ctx.quick() && sc.equal_names_in_quick && n0 != n1 {
                    continue;
                }
                acc.evals += 1;
                let ren = subst2(&sc.src, names);
                if let Err(why) = certify(&base, &ren) {
                    acc.count(&format!("e_not_a_renaming|{}", why));
                    continue;
                }
                let b = b.get_or_insert_with(|| baseline(&base, cfg, &mode));
                let bo = match &b.out {
                    Some(o) => o,
                    None => {
                        acc.count(&format!("e_baseline_rejected|{}|{}", sc.structure, target_name(cfg)));
                        continue;
                    }
                };
                let map: Vec<(String, String)> = (0..2).map(|i| (BASE2[i].to_string(), names[i].to_string())).collect();
                let p = Pair { space: "e", role: &role, base: &base, ren: &ren, map: &map, strict: Strict::Free, cfg, mode: &mode, origin: "plain", certified: true, note: &note };
                match check_pair(&p, &bo.0, &bo.1, b.accepted, &lists, acc) {
                    Verdict::Outside => acc.count("e_outside"),
                    v => {
                        acc.count(&format!("e_checked|{}|{}", sc.structure, if names[0] == names[1] { "shared-name" } else { "distinct-names" }));
                        if v == Verdict::Held && names[0] == names[1] && idx % 53 == 0 {
                            acc.sample(obj(vec![("space", "e".into()), ("structure", sc.structure.into()), ("case", sc.label.as_str().into()), ("names", format!("{},{}", names[0], names[1]).as_str().into()), ("target", cfg.name().into())]));
                        }
                    }
                }
            }
        }
    });
    rep.absorb("e_shadowed_references", re);
    lap("e_shadowed_references");

    // ---- space a: α-renaming of the core
    let core = core_programs();
    let renamings = ctx.pick(2usize, 3usize);
    let modes: Vec<Mode> = if ctx.quick() { vec![Mode::All] } else { vec![Mode::All, Mode::NoPipeline] };
    let radices = [cfgs.len() as u64, renamings as u64, modes.len() as u64, core.len() as u64];
    let ra = run_par(ctx, product(&radices), 4, |idx, acc| {
        let mut d = Vec::new();
        decode(idx, &radices, &mut d);
        let (cfg, rn, md, (label, src)) = (cfgs[d[0] as usize], d[1] as usize, &modes[d[2] as usize], &core[d[3] as usize]);
        acc.evals += 1;
        let names = match declared_names(src) {
            Ok(n) => n,
            Err(e) => {
                acc.violation(Violation { signature: "machinery|core-program-does-not-parse".into(), detail: format!("{}: {}", label, one_line(&e, 200)), replay: format!("kind: text\n{}", src) });
                return;
            }
        };
        let map: Vec<(String, String)> = names.iter().enumerate().map(|(i, n)| (n.clone(), fresh_name(rn, i, names.len()))).collect();
        let ren = match apply_sigma(src, &map) {
            Ok(r) => r,
            Err(e) => {
                acc.violation(Violation { signature: "machinery|sigma".into(), detail: format!("{}: {}", label, e), replay: format!("kind: text\n{}", src) });
                return;
            }
        };
        let b = baseline(src, cfg, md);
        let base = match &b.out {
            Some(o) => o,
            None => {
                acc.count(&format!("a_core_program_rejected|{}", target_name(cfg)));
                return;
            }
        };
        let p = Pair { space: "a", role: "core", base: src, ren: &ren, map: &map, strict: Strict::Exact, cfg, mode: md, origin: "plain", certified: false, note: "" };
        match check_pair(&p, &base.0, &base.1, b.accepted, &lists, acc) {
            Verdict::Outside => {
                acc.violation(Violation {
                    signature: format!("rename|alpha|core|{}", target_name(cfg)),
                    detail: format!("{}: the program is accepted but its renaming is rejected", label),
                    replay: replay_body(&p),
                });
            }
            _ => {
                acc.count("a_checked");
                acc.max("max_a_renamed_identifiers", map.len() as u64);
                if idx % 97 == 0 {
                    acc.sample(obj(vec![("space", "a".into()), ("program", label.as_str().into()), ("renaming", (rn as u64).into()), ("target", cfg.name().into()), ("identifiers", (map.len() as u64).into())]));
                }
            }
        }
    });
    rep.absorb("a_alpha_core", ra);
    lap("a_alpha_core");

    // ---- space b: every role × every candidate word × every target
    // quick tier: the large uniform families (type spellings, intrinsics, object types) are tried in the first template of
    // each role only, matrix spellings are thinned to four shapes; thorough: every word in every template
    // type-use position templates: every word that is not of a large uniform family in the thorough tier; otherwise up to
    // REPS representatives (alphabetically first, accepted by the front end as a name of that role) of every class of words
    // (category in our HLSL list, category in our MSL list, origin)
    // a word that rssl's own tables reserve without it being a language word of either target is a name its generators use
    let own_tables = names_rs_words();
    let origin_of = |w: &str| -> &'static str {
        if lists.hlsl.contains_key(w) || lists.msl.contains_key(w) {
            "reserved-word"
        } else if MSL_GENERATOR.contains(&w) || w.starts_with("set") || w.starts_with("o_") || own_tables.contains(w) {
            "generator-name"
        } else {
            "other-word"
        }
    };
    let reps_per_class = ctx.pick(2usize, 4usize);
    let mut reps: BTreeMap<&'static str, BTreeSet<usize>> = BTreeMap::new();
    for (ti, t) in tpls.iter().enumerate() {
        if !t.extra || reps.contains_key(t.role) {
            continue;
        }
        let mut per_class: BTreeMap<(&str, &str, &str), usize> = BTreeMap::new();
        let mut set = BTreeSet::new();
        for (wi, w) in words.iter().enumerate() {
            let class = (lists.hlsl.get(w).copied().unwrap_or("-"), lists.msl.get(w).copied().unwrap_or("-"), origin_of(w));
            if per_class.get(&class).copied().unwrap_or(0) >= reps_per_class {
                continue;
            }
            if bases[ti][0].out.is_some() && matches!(compile_out(&t.src.replace('@', w), cfgs[0], &mode), Comp::Ok(_)) {
                *per_class.entry(class).or_insert(0) += 1;
                set.insert(wi);
            }
        }
        rep.cov(&format!("word_classes::{}", t.role), Json::Int(per_class.len() as i64));
        rep.cov(&format!("word_class_representatives::{}", t.role), Json::Arr(set.iter().map(|wi| words[*wi].as_str().into()).collect()));
        reps.insert(t.role, set);
    }
    lap("b: class representatives");

    // ---- space g: every kind of bound resource × placement (root, namespace) × EVERY configuration (both tiers: the HLSL
    // exporter declares and reads resources differently for Vulkan, and again when buffer addresses are supported: inline
    // descriptor structs) × plain names (verbatim) and representatives of every class of candidate words the front end accepts
    // as the name of a global (quick: 2 per class, thorough: every word outside the large uniform families plus 4 per class)
    // (added after a seeded change that built the HLSL binding description from the source name was missed: it changes the text
    // only for BufferAddress resources on Vulkan with buffer addresses, a configuration × resource kind no program had)
    let g_cfgs = [Cfg::Dx, Cfg::Vk, Cfg::VkBa, Cfg::Msl];
    let g_tpls = resource_templates();
    let mut g_src: Vec<String> = Vec::new();
    let mut g_bases: Vec<Vec<BaseLine>> = Vec::new();
    for t in &g_tpls {
        let src = t.src.replace('@', BASE);
        let mut row = Vec::new();
        for c in &g_cfgs {
            let b = baseline(&src, *c, &mode);
            if b.out.is_none() {
                rep.acc.count(&format!("baseline_rejected|{}|{}|{}", t.role, t.variant, c.name()));
            }
            row.push(b);
        }
        g_bases.push(row);
        g_src.push(src);
    }
    // (word, plain)
    let mut g_words: Vec<(String, bool)> = PLAIN_NAMES.iter().take(ctx.pick(QUICK_PLAIN_NAMES_NEXT_TO_EXPORTER_NAMES, PLAIN_NAMES.len())).map(|w| (w.to_string(), true)).collect();
    {
        let mut per_class: BTreeMap<(&str, &str, &str), usize> = BTreeMap::new();
        for w in &words {
            let cat = lists.hlsl.get(w).or(lists.msl.get(w)).copied().unwrap_or("");
            let family = matches!(cat, "type-name" | "intrinsic" | "object-type");
            let class = (lists.hlsl.get(w).copied().unwrap_or("-"), lists.msl.get(w).copied().unwrap_or("-"), origin_of(w));
            let full = per_class.get(&class).copied().unwrap_or(0) >= reps_per_class;
            if full && (ctx.quick() || family) {
                continue;
            }
            if matches!(compile_out(&g_tpls[0].src.replace('@', w), Cfg::Dx, &mode), Comp::Ok(_)) {
                *per_class.entry(class).or_insert(0) += 1;
                g_words.push((w.clone(), false));
            }
        }
    }
    let radices = [g_cfgs.len() as u64, g_tpls.len() as u64, g_words.len() as u64];
    let rg = run_par(ctx, product(&radices), 16, |idx, acc| {
        let mut d = Vec::new();
        decode(idx, &radices, &mut d);
        let (ci, ti) = (d[0] as usize, d[1] as usize);
        let (cfg, t, (w, plain)) = (g_cfgs[ci], &g_tpls[ti], &g_words[d[2] as usize]);
        let base = match &g_bases[ti][ci].out {
            Some(o) => o,
            None => return,
        };
        acc.evals += 1;
        let ren = t.src.replace('@', w);
        let map = [(BASE.to_string(), w.clone())];
        let p = Pair { space: "g", role: t.role, base: &g_src[ti], ren: &ren, map: &map, strict: if *plain { Strict::Verbatim } else { Strict::Free }, cfg, mode: &mode, origin: if *plain { "plain" } else { origin_of(w) }, certified: false, note: &t.variant };
        match check_pair(&p, &base.0, &base.1, g_bases[ti][ci].accepted, &lists, acc) {
            Verdict::Outside => acc.count("g_word_not_accepted"),
            _ => acc.count(&format!("g_checked|{}", cfg.name())),
        }
    });
    rep.absorb("g_resource_kind_x_configuration_x_word", rg);
    lap("g_resource_kind_x_configuration_x_word");
    rep.cov("resource_templates_g", Json::Int(g_tpls.len() as i64));
    rep.cov("words_g", Json::Arr(g_words.iter().map(|w| w.0.as_str().into()).collect()));

    let mut b_cases: Vec<(usize, usize)> = Vec::new();
    for (wi, w) in words.iter().enumerate() {
        let cat = lists.hlsl.get(w).or(lists.msl.get(w)).copied().unwrap_or("");
        let family = matches!(cat, "type-name" | "intrinsic" | "object-type");
        let b = w.as_bytes();
        let n = b.len();
        let matrix = n > 3 && b[n - 2] == b'x' && b[n - 1].is_ascii_digit() && b[n - 3].is_ascii_digit();
        if ctx.quick() && matrix && !matches!(&w[n - 3..], "1x1" | "2x3" | "4x4" | "3x4") {
            continue;
        }
        let mut seen_roles = BTreeSet::new();
        for (ti, t) in tpls.iter().enumerate() {
            let first = seen_roles.insert(t.role);
            if t.extra {
                let representative = reps.get(t.role).map(|s| s.contains(&wi)).unwrap_or(false);
                if !(first || representative || (!ctx.quick() && !family)) {
                    continue;
                }
            } else if t.vocab {
                if ctx.quick() || family {
                    continue;
                }
            } else if ctx.quick() && family && !first {
                continue;
            }
            b_cases.push((ti, wi));
        }
    }
    let nb = cfgs.len() as u64;
    let total = b_cases.len() as u64 * nb;
    let rb = run_par(ctx, total, 64, |idx, acc| {
        let (ti, wi) = b_cases[(idx / nb) as usize];
        let ci = (idx % nb) as usize;
        let (cfg, t, w) = (cfgs[ci], &tpls[ti], &words[wi]);
        let base = match &bases[ti][ci].out {
            Some(o) => o,
            None => return,
        };
        acc.evals += 1;
        let ren = t.src.replace('@', w);
        let map = [(BASE.to_string(), w.clone())];
        let origin = origin_of(w);
        let p = Pair { space: "b", role: t.role, base: &base_src[ti], ren: &ren, map: &map, strict: Strict::Free, cfg, mode: &mode, origin, certified: false, note: &t.variant };
        match check_pair(&p, &base.0, &base.1, bases[ti][ci].accepted, &lists, acc) {
            Verdict::Outside => acc.count("b_word_not_accepted_in_role"),
            v => {
                acc.count(&format!("b_accepted|{}", t.role));
                if lists.of(cfg).contains_key(w) {
                    acc.count(&format!("b_accepted_and_reserved_in_target|{}", if cfg.is_hlsl() { "hlsl" } else { "msl" }));
                }
                if v == Verdict::Violated {
                    acc.count("b_violating_cases");
                } else if idx % 997 == 0 {
                    acc.sample(obj(vec![("space", "b".into()), ("role", t.role.into()), ("word", w.as_str().into()), ("target", cfg.name().into())]));
                }
            }
        }
    });
    rep.absorb("b_role_x_word_x_target", rb);
    lap("b_role_x_word_x_target");

    // ---- space f: every template × every identifier of its own emitted texts (any target) that does not derive from the
    // user's name: the names the exporter introduced into this very program (implicit parameters, argument buffers, stage
    // structs, helper functions and their parameters) and the built-in names it wrote out. Pairs already tried in b are left out.
    let tried: BTreeSet<(usize, usize)> = b_cases.iter().copied().collect();
    let word_index: BTreeMap<&str, usize> = words.iter().enumerate().map(|(i, w)| (w.as_str(), i)).collect();
    let key = [(BASE.to_string(), String::new())];
    let mut f_cases: Vec<(usize, String)> = Vec::new();
    let mut f_vocabulary: BTreeSet<String> = BTreeSet::new();
    for (ti, row) in bases.iter().enumerate() {
        // names the program itself declares are not fresh for it: renaming onto one of them is not injective
        let own: BTreeSet<String> = declared_names(&base_src[ti]).unwrap_or_default().into_iter().collect();
        let mut vocab: BTreeSet<&str> = BTreeSet::new();
        for b in row {
            if let Some((o, _)) = &b.out {
                for t in tokens(&o.text) {
                    if is_ident_token(t) && find_key(t, &key).is_none() && !own.contains(t) {
                        vocab.insert(t);
                    }
                }
            }
        }
        for w in vocab {
            // names the exporter derives from another name of the program (cbuffer X -> struct XType, X -> X_0): both get
            // suffixes and the property does not say which of them keeps the plain name
            let derived = own.iter().any(|n| match w.strip_prefix(n.as_str()) {
                Some("Type") => true,
                Some(rest) => rest.len() > 1 && rest.starts_with('_') && rest[1..].bytes().all(|c| c.is_ascii_digit()),
                None => false,
            });
            if derived {
                continue;
            }
            if word_index.get(w).map(|wi| tried.contains(&(ti, *wi))).unwrap_or(false) {
                continue;
            }
            f_vocabulary.insert(w.to_string());
            f_cases.push((ti, w.to_string()));
        }
    }
    let rf = run_par(ctx, f_cases.len() as u64 * nb, 64, |idx, acc| {
        let (ti, w) = &f_cases[(idx / nb) as usize];
        let ci = (idx % nb) as usize;
        let (cfg, t) = (cfgs[ci], &tpls[*ti]);
        let base = match &bases[*ti][ci].out {
            Some(o) => o,
            None => return,
        };
        acc.evals += 1;
        let ren = t.src.replace('@', w);
        let map = [(BASE.to_string(), w.clone())];
        // the words of space f are identifiers the exporters wrote themselves: whatever list they are (not) in, a word that
        // is not a language word of either target is a generator name by construction
        let f_origin = match origin_of(w) {
            "other-word" => "generator-name",
            o => o,
        };
        let p = Pair { space: "f", role: t.role, base: &base_src[*ti], ren: &ren, map: &map, strict: Strict::Free, cfg, mode: &mode, origin: f_origin, certified: false, note: &t.variant };
        match check_pair(&p, &base.0, &base.1, bases[*ti][ci].accepted, &lists, acc) {
            Verdict::Outside => acc.count("f_word_not_accepted_in_role"),
            v => {
                acc.count(&format!("f_accepted|{}", t.role));
                if v == Verdict::Held && idx % 499 == 0 {
                    acc.sample(obj(vec![("space", "f".into()), ("role", t.role.into()), ("template", t.variant.as_str().into()), ("word", w.as_str().into()), ("target", cfg.name().into())]));
                }
            }
        }
    });
    rep.absorb("f_role_x_emitted_identifier_x_target", rf);
    lap("f_role_x_emitted_identifier_x_target");

    rep.cov("emitted_identifiers_f", Json::Int(f_vocabulary.len() as i64));


    rep.acc.merge(machinery);
    // fold the per-word counters into one list per reserved-signature (words, and the roles they were emitted in)
    let mut per_sig: BTreeMap<String, (BTreeSet<String>, BTreeSet<String>)> = BTreeMap::new();
    let word_keys: Vec<String> = rep.acc.counters.keys().filter(|k| k.starts_with("word|")).cloned().collect();
    for k in word_keys {
        rep.acc.counters.remove(&k);
        let f: Vec<&str> = k.split('|').collect();
        if f.len() == 7 {
            let e = per_sig.entry(f[1..5].join("|")).or_default();
            e.0.insert(f[6].to_string());
            e.1.insert(f[5].to_string());
        }
    }
    for (sig, (ws, roles)) in &per_sig {
        rep.cov(&format!("words::{}", sig), obj(vec![("roles", Json::Arr(roles.iter().map(|r| r.as_str().into()).collect())), ("words", Json::Arr(ws.iter().map(|w| w.as_str().into()).collect()))]));
    }
    rep.rule = "a case counts when the renamed program is accepted by the front end and exported for the target; distinct = different (target, emitted text)".into();
    rep.cov("candidate_words", Json::Int(words.len() as i64));
    rep.cov("hlsl_reserved_list", Json::Int(lists.hlsl.len() as i64));
    rep.cov("msl_reserved_list", Json::Int(lists.msl.len() as i64));
    rep.cov("role_templates", Json::Int(tpls.len() as i64));
    rep.cov("roles", Json::Int(tpls.iter().map(|t| t.role).collect::<BTreeSet<_>>().len() as i64));
    rep.cov("contexts_c", Json::Int(ctxs.len() as i64));
    rep.cov("name_families_c", Json::Int(families.len() as i64));
    rep.cov("core_programs", Json::Int(core.len() as i64));
    rep.cov("shadow_cases_e", Json::Int(shadow.len() as i64));
    rep.cov("templates_next_to_exporter_names", Json::Int(tpls.iter().filter(|t| t.variant.starts_with("implicit/")).count() as i64));
    rep.cov("templates_constant_positions", Json::Int(tpls.iter().filter(|t| t.variant.starts_with("const/") || t.variant.contains("/const-")).count() as i64));
    rep.cov("name_pairs_e", Json::Int((ne * ne) as i64));
    rep.cov("targets", Json::Arr(cfgs.iter().map(|c| c.name().into()).collect()));
    rep.assumptions = vec![
        "reserved/built-in word lists are ours, transcribed conservatively from the HLSL reference (Keywords, Reserved Words, Data Types, Intrinsic Functions) and the Metal Shading Language specification (C++14 keywords, Address Spaces, function qualifiers, Scalar/Vector/Packed data types); a word we omit is not checked; names that Metal only defines inside namespace metal (textures, samplers, atomics, matrices, library functions) are not demanded".into(),
        "binding preservation is established against a baseline output with distinctive unique names by ordinary lexical scoping over the exporters' syntax trees (hook H1); the baseline output itself is trusted here (C01/C02 check its meaning)".into(),
        "space a uses fresh names without `_N` endings so that generated suffixes map homomorphically; `_N` shaped names are the subject of space c".into(),
        "member names after `.` are compared textually only; function overloads sharing a name count as a clash because the property says distinct entities never share a name".into(),
        "words the front end rejects in a role (and assignments it rejects) are outside the property".into(),
        "space e uses the plain names x, x_0, … only (never a word built in to rssl); whether the renamed source is a renaming of the baseline is decided by our reference scoping model on the parsed sources (ordinary lexical scoping, `::` anchors at the root, a qualified name is looked up in the nearest scope that declares its first segment): cases where that model binds a use differently (e.g. `x` written relative while a nearer `x` exists, or `Na::x` where the nearest `Na` lacks `x` - rssl would continue outwards there, C++ would not) are left out and counted as e_not_a_renaming".into(),
        "a `::` that starts a path is ignored when emitted texts are compared, so an exporter may anchor a path exactly when the names in scope require it; a use bound to the placeholder type parameter of an emitted instantiation and a use bound to the struct that placeholder is named after count as the same entity".into(),
        "type-use positions: template structs are left out (the exporters do not implement them: todo!() panic, C08 territory); enums as buffer elements are rejected by rssl; the quick tier tries, in the type-position templates, the alphabetically first 2 accepted words of every class (category in our HLSL list, category in our MSL list, origin) instead of every word, the thorough tier every word outside the large uniform families (type spellings, intrinsics, object types) plus 4 per class".into(),
        "space f tries, per template, the identifiers of that template's own emitted texts (both targets) except the names the program declares itself and names derived from those (X -> XType, X_N); templates of the exporter-name and constant-position dimensions get, in the quick tier, the plain names (d) and those identifiers (f) only, in the thorough tier also every candidate word outside the large uniform families (b)".into(),
        "a use counts as unbound only if the use of the BASELINE output (distinctive names) that is written with a user-derived first segment resolves to no declaration of the emitted module under ordinary lexical scoping; member names after `.` and attribute names are not uses".into(),
        "the re-acceptance of the emitted HLSL by the rssl front end is not demanded when the chosen name is one of the 15 identifiers rssl's parser reads as a type modifier where a type starts (vertices, primitives, indices, payload, precise, sample, …): a namespace may be called `indices`, and the emitted `indices::T` is then read back as modifier + `::T`; that is an inconsistency of rssl's input grammar, not of the emitted names".into(),
        "constant-folded positions: an enum-typed template value argument is left out (rssl rejects it); struct kinds are rejected by rssl in these positions and counted as baseline_rejected".into(),
        "a user name equal to a name the Metal generator derives from ANOTHER user name of the same program (cbuffer X → struct XType) is not tried in the type-position templates (both get suffixes; the property does not say which of them keeps the plain name)".into(),
    ];
    finish(ctx, rep)
}

pub fn replay(ctx: &Ctx, body: &str) -> i32 {
    let mut acc = Acc::default();
    let (head, rest) = match body.split_once("--- base\n") {
        Some(x) => x,
        None => {
            eprintln!("machinery error: replay body without `--- base`");
            return 2;
        }
    };
    let (base, ren) = match rest.split_once("\n--- renamed\n") {
        Some(x) => x,
        None => {
            eprintln!("machinery error: replay body without `--- renamed`");
            return 2;
        }
    };
    let mut space = String::new();
    let mut origin = String::from("plain");
    let mut role = String::new();
    let mut cfg = Cfg::Dx;
    let mut mode = Mode::All;
    let mut strict = Strict::Free;
    let mut certified = false;
    let mut note = String::new();
    let mut map = Vec::new();
    for l in head.lines() {
        if let Some((k, v)) = l.split_once(": ") {
            match k {
                "space" => space = v.to_string(),
                "role" => role = v.to_string(),
                "origin" => origin = v.to_string(),
                "target" => cfg = Cfg::from_name(v).unwrap_or(Cfg::Dx),
                "mode" => {
                    mode = match v {
                        "all" => Mode::All,
                        "nopipe" => Mode::NoPipeline,
                        n => Mode::Named(n.to_string()),
                    }
                }
                "strict" => {
                    strict = match v {
                        "exact" => Strict::Exact,
                        "verbatim" => Strict::Verbatim,
                        _ => Strict::Free,
                    }
                }
                "certified" => certified = v == "true",
                "note" => note = v.to_string(),
                "map" => {
                    if let Some((a, b)) = v.split_once('=') {
                        map.push((a.to_string(), b.to_string()));
                    }
                }
                _ => {}
            }
        }
    }
    let lists = Lists::new();
    let b = baseline(base, cfg, &mode);
    let out = match &b.out {
        Some(o) => o,
        None => {
            println!("replay: the baseline program is rejected for {}", cfg.name());
            return 2;
        }
    };
    acc.evals += 1;
    let p = Pair { space: &space, role: &role, base, ren, map: &map, strict, cfg, mode: &mode, origin: &origin, certified, note: &note };
    let v = check_pair(&p, &out.0, &out.1, b.accepted, &lists, &mut acc);
    if v == Verdict::Outside {
        println!("replay: the renamed program is rejected by the compiler (outside the property)");
    }
    if std::env::var("C15_DUMP").is_ok() {
        if let Comp::Ok(o) = compile_out(ren, cfg, &mode) {
            println!("--- baseline output\n{}\n--- renamed output\n{}", out.0.text, o.text);
        }
    }
    finish_replay(ctx, &acc)
}

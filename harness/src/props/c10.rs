//! C10 — lexing is lossless, numeric literals are exact.
//!
//! Spaces (all exhaustive, see DESIGN.md §5 C10):
//!  A  span tiling over token strings (len ≤ 2 full alphabet, len 3 class alphabet) × trivia
//!  B  integer spellings (all digit strings ≤ 4 per radix × 13 suffixes; 2^k±1, 10^k)
//!  C  float spellings  I.FeXS  (≤ 4 significant digits × every exponent −330..310 × suffix) + hard family
//!  D  literal value unchanged in the emitted HLSL (thinned spellings, real compile())

use crate::engine::*;
use crate::json::{Json, obj};
use crate::util::*;
use rssl::text::tokens::{FollowedBy, Token};
use rssl::text::{FileName, Locate, LocateEnd, SourceManager};

const KEYWORDS: &[&str] = &[
    "if", "else", "for", "while", "do", "switch", "return", "break", "continue", "discard", "case", "default", "struct",
    "class", "enum", "typedef", "cbuffer", "register", "packoffset", "namespace", "true", "false", "in", "out", "inout",
    "const", "volatile", "row_major", "column_major", "unorm", "snorm", "extern", "static", "inline", "groupshared",
    "constexpr", "sizeof", "template", "typename", "decltype", "auto", "catch", "char", "const_cast", "delete",
    "dynamic_cast", "explicit", "friend", "goto", "long", "mutable", "new", "operator", "private", "protected", "public",
    "reinterpret_cast", "short", "signed", "static_cast", "this", "throw", "try", "union", "unsigned", "using", "virtual",
];
const PUNCT: &[&str] = &[
    "{", "}", "(", ")", "[", "]", "<", ">", ";", ",", "?", "+", "++", "+=", "-", "--", "-=", "/", "/=", "%", "%=", "*", "*=",
    "|", "||", "|=", "&", "&&", "&=", "^", "^=", "=", "==", "@", "!", "!=", "~", ".", ":", "::", "#", "##",
];
const WORDS: &[&str] = &["a", "_b1", "x", "e1", "f", "Texture2D", "float4"];
const LITS: &[&str] = &[
    "0", "12", "0x1F", "017", "09", "1u", "2UL", "3l", "7lu", "1.0", "1.5f", "2.h", "1e5", "3.25e-2L", "1.#INF", "\"s\"", "\"\"",
];
/// spellings that make the lexer fail somewhere inside the text (error position must stay inside the file)
const BAD: &[&str] = &["\"unterminated", "/*", "1.0p", "$", "`", "\u{a3}", "0.#INF", "'"];

const SEPS: &[&str] = &["", " ", "\t", "\n", "\r\n", "/*c*/", "//c\n", "\\\n", "\\\r\n"];
const SEPS5: &[&str] = &["", " ", "\n", "/*c*/", "\\\n"];

fn full_alphabet() -> Vec<&'static str> {
    let mut v: Vec<&'static str> = Vec::new();
    v.extend(WORDS);
    v.extend(LITS);
    v.extend(PUNCT);
    v.extend(KEYWORDS);
    v.extend(BAD);
    v
}

fn class_alphabet() -> Vec<&'static str> {
    vec![
        "a", "x", "e1", "if", "true", "unsigned", "0", "12", "0x1F", "017", "1u", "3l", "1.0", "1.5f", "2.h", "1e5", "\"s\"", "{", ")",
        "[", "<", ">", ";", ",", "+", "++", "+=", "-", "--", "/", "*", "|", "||", "&", "&&", "=", "==", "!", "!=", "~", ".", ":",
        "::", "?", "\"unterminated", "/*", "$", "#", "##",
    ]
}

fn norm_kind(t: &Token) -> Token {
    match t {
        Token::LeftAngleBracket(_) => Token::LeftAngleBracket(FollowedBy::Token),
        Token::RightAngleBracket(_) => Token::RightAngleBracket(FollowedBy::Token),
        t => t.clone(),
    }
}

struct Lexed {
    toks: Vec<(Token, u32, u32)>,
    unlexed: String,
}

/// Run the real lexer through the public preprocess_fragment and collect spans.
fn lex_real(text: &str) -> Result<Result<Lexed, (String, Option<u32>)>, PanicInfo> {
    guard(|| {
        let mut sm = SourceManager::new();
        match rssl::preprocess::preprocess_fragment(text, FileName("t.rssl".to_string()), &mut sm) {
            Ok(toks) => {
                let unlexed = rssl::preprocess::unlex(&toks, &sm);
                let toks = toks
                    .iter()
                    .map(|t| (t.0.clone(), t.get_location().get_raw(), t.get_end_location().get_raw()))
                    .collect();
                Ok(Lexed { toks, unlexed })
            }
            Err(e) => {
                use rssl::text::CompileErrorExt;
                let rendered = format!("{}", e.display(&sm));
                let pos = match &e {
                    rssl::preprocess::PreprocessError::LexerError(le) => Some(le.location.get_raw()),
                    _ => None,
                };
                Err((rendered, pos))
            }
        }
    })
}

fn viol(sig: &str, detail: String, text: &str) -> Violation {
    Violation { signature: sig.to_string(), detail, replay: format!("kind: text\n{}", text) }
}

/// reference maximal munch for punctuation-only strings; None if a comment/unknown starts
fn ref_punct(text: &str) -> Option<Vec<&'static str>> {
    let mut out = Vec::new();
    let mut rest = text;
    while !rest.is_empty() {
        if rest.starts_with("//") || rest.starts_with("/*") {
            return None;
        }
        let mut best: Option<&'static str> = None;
        for p in PUNCT {
            if rest.starts_with(p) && best.map(|b| b.len() < p.len()).unwrap_or(true) {
                best = Some(p);
            }
        }
        let b = best?;
        out.push(b);
        rest = &rest[b.len()..];
    }
    Some(out)
}

fn lex_alone(tok: &str) -> Option<Token> {
    match lex_real(tok) {
        Ok(Ok(l)) => {
            let non_ws: Vec<_> = l.toks.iter().filter(|t| !t.0.is_whitespace()).collect();
            if non_ws.len() == 1 { Some(norm_kind(&non_ws[0].0)) } else { None }
        }
        _ => None,
    }
}

/// Can a '#' of this text start a directive? Some(false): certainly not (every '#' follows another token on its logical
/// line); Some(true): yes; None: undecided (comments or strings present, where a plain scan is not exact).
fn hash_directive_possible(text: &str) -> Option<bool> {
    if !text.contains('#') {
        return Some(false);
    }
    if text.contains('/') || text.contains('"') {
        return None;
    }
    // a line splice separates tokens in rssl but does not end the logical line
    let logical = text.replace("\\\r\n", " ").replace("\\\n", " ");
    Some(logical.split('\n').any(|l| {
        let t = l.trim_start_matches([' ', '\t', '\r']);
        t.starts_with('#') && !t.starts_with("##")
    }))
}

pub fn check_text(text: &str, parts: Option<(&[&str], &[&str])>, acc: &mut Acc) {
    acc.evals += 1;
    let len = text.len() as u32;
    match lex_real(text) {
        Err(p) => {
            acc.violation(viol(&p.signature(), format!("lexing {:?} panicked: {}", text, p.message), text));
        }
        Ok(Err((rendered, pos))) => {
            acc.count("texts_rejected");
            // a '#' that is not the first token of a logical line is an ordinary token: the text must not be treated as
            // containing a directive
            if pos.is_none() && hash_directive_possible(text) == Some(false) {
                acc.violation(viol(
                    "span|hash-inside-a-line-treated-as-directive",
                    format!("text {:?} has no '#' at the start of a logical line but is rejected as a directive: {}", text, rendered.lines().next().unwrap_or("")),
                    text,
                ));
                return;
            }
            if let Some(p) = pos {
                if p > len {
                    acc.violation(viol(
                        "span|error-position-outside-file",
                        format!("lexer error position {} outside file of length {} for {:?}", p, len, text),
                        text,
                    ));
                }
            }
            if rendered.is_empty() {
                acc.violation(viol("span|empty-diagnostic", format!("empty diagnostic for {:?}", text), text));
            }
            acc.outcome(&("err", rendered.lines().next().unwrap_or("").to_string()));
        }
        Ok(Ok(l)) => {
            // directive lines are consumed by the preprocessor: their tokens are not in the output
            if hash_directive_possible(text) != Some(false) {
                acc.count("texts_with_a_possible_directive_not_checked_for_tiling");
                return;
            }
            // tiling
            let mut cur = 0u32;
            let mut expected_unlex = String::new();
            let bytes = text.as_bytes();
            for (i, (t, s, e)) in l.toks.iter().enumerate() {
                if *s != cur || *e < *s || *e > len {
                    acc.violation(viol(
                        "span|not-contiguous",
                        format!("token #{} {:?} has span {}..{} but previous token ended at {} (file length {}) in {:?}", i, t, s, e, cur, len, text),
                        text,
                    ));
                    return;
                }
                if *e == *s && !(matches!(t, Token::Endline) && *s == len && i + 1 == l.toks.len()) {
                    acc.violation(viol(
                        "span|empty-token",
                        format!("token #{} {:?} has empty span {}..{} in {:?}", i, t, s, e, text),
                        text,
                    ));
                    return;
                }
                let slice = &bytes[*s as usize..*e as usize];
                if matches!(t, Token::PhysicalEndline) {
                    expected_unlex.push_str(std::str::from_utf8(&slice[1..]).unwrap_or("?"));
                } else if *s == *e {
                    expected_unlex.push('\n');
                } else {
                    expected_unlex.push_str(&String::from_utf8_lossy(slice));
                }
                cur = *e;
            }
            if cur != len {
                acc.violation(viol(
                    "span|not-covering",
                    format!("tokens end at {} but file has {} bytes: {:?}", cur, len, text),
                    text,
                ));
                return;
            }
            if l.unlexed != expected_unlex {
                acc.violation(viol(
                    "span|unlex-mismatch",
                    format!("unlex gives {:?}, spans give {:?}", l.unlexed, expected_unlex),
                    text,
                ));
                return;
            }
            // an independent expectation of the un-spliced text when no comment/string can hide a splice
            if !text.contains('/') && !text.contains('"') {
                let mut indep = text.replace("\\\r\n", "\r\n").replace("\\\n", "\n");
                if !(text.ends_with('\n') && !text.ends_with("\\\n") && !text.ends_with("\\\r\n")) {
                    indep.push('\n');
                }
                if indep != l.unlexed {
                    acc.violation(viol(
                        "span|unlex-not-source",
                        format!("unlex gives {:?}, expected {:?} (source with splices removed)", l.unlexed, indep),
                        text,
                    ));
                    return;
                }
            }
            let kinds: Vec<Token> = l.toks.iter().filter(|t| !t.0.is_whitespace()).map(|t| norm_kind(&t.0)).collect();
            acc.outcome(&format!("{:?}", kinds));
            // token kinds
            if let Some((toks, seps)) = parts {
                // trivia that starts with '/' merges with a token that ends in '/' (forms // or /*): not "separated"
                let all_sep_ws = seps.iter().take(toks.len() - 1).all(|s| !s.is_empty())
                    && !seps.iter().zip(toks.iter()).any(|(s, t)| s.starts_with('/') && t.ends_with('/'));
                if all_sep_ws {
                    let exp: Option<Vec<Token>> = toks.iter().map(|t| lex_alone(t)).collect();
                    if let Some(exp) = exp {
                        if exp != kinds {
                            acc.violation(viol(
                                "kind|separated-tokens-change-kind",
                                format!("tokens {:?} separated by trivia lex as {:?}, alone as {:?}", toks, kinds, exp),
                                text,
                            ));
                        }
                    }
                } else if seps.iter().all(|s| s.is_empty()) && toks.iter().all(|t| PUNCT.contains(t)) {
                    if let Some(exp) = ref_punct(text) {
                        let expk: Option<Vec<Token>> = exp.iter().map(|t| lex_alone(t)).collect();
                        if let Some(expk) = expk {
                            if expk != kinds {
                                acc.violation(viol(
                                    "kind|maximal-munch",
                                    format!("{:?} lexes as {:?}, maximal munch gives {:?}", text, kinds, exp),
                                    text,
                                ));
                            }
                        }
                    }
                }
            }
        }
    }
}

/// `lines` good lines, then `col` spaces and an unlexable token, in the file at include depth `depth` (0 = entry file)
fn check_included_position(bad: (&str, usize), lines: usize, col: usize, crlf: bool, depth: usize, acc: &mut Acc) {
    acc.evals += 1;
    let nl = if crlf { "\r\n" } else { "\n" };
    let names = ["main.rssl", "first.h", "second.h"];
    let mut body = String::new();
    for i in 0..lines {
        body.push_str(&format!("int ok_{}_{};{}", depth, i, nl));
    }
    body.push_str(&" ".repeat(col));
    body.push_str(bad.0);
    body.push_str(nl);
    let mut files: Vec<(String, String)> = Vec::new();
    for dpt in 0..=depth {
        if dpt == depth {
            files.push((names[dpt].to_string(), body.clone()));
        } else {
            // two lines of its own before the include so that the global offset differs from the offset in the file
            files.push((names[dpt].to_string(), format!("int before_{};{}int more_{};{}#include \"{}\"{}", dpt, nl, dpt, nl, names[dpt + 1], nl)));
        }
    }
    let replay = format!("kind: included-position\n{}\n{}\n{}\n{}\n{}", bad.0, lines, col, crlf, depth);
    let r = guard(|| {
        use rssl::text::CompileErrorExt;
        let mut sm = SourceManager::new();
        let fs: Vec<(&str, &str)> = files.iter().map(|(a, b)| (a.as_str(), b.as_str())).collect();
        let mut inc = crate::util::MapIncludes(&fs);
        rssl::preprocess::preprocess("main.rssl", &mut sm, &mut inc, &[]).map(|_| ()).map_err(|e| format!("{}", e.display(&sm)))
    });
    match r {
        Err(p) => acc.violation(Violation { signature: p.signature(), detail: format!("preprocessing panicked: {}", p.message), replay }),
        Ok(Ok(())) => acc.count("included_position_cases_accepted(not judged)"),
        Ok(Err(msg)) => {
            let head = msg.lines().next().unwrap_or("");
            let want_file = names[depth];
            // where the reported position may lie: inside the offending token (its start is what rssl reports today)
            let line = lines + 1;
            let (c0, c1) = (col + 1, col + bad.0.len() + 1);
            let mut it = head.splitn(4, ':');
            let (f, l, c) = (it.next().unwrap_or(""), it.next().and_then(|x| x.trim().parse::<usize>().ok()), it.next().and_then(|x| x.trim().parse::<usize>().ok()));
            let line_len = col + bad.0.len() + 1;
            match (l, c) {
                (Some(l), Some(c)) if f == want_file && l == line && c >= c0 && c <= c1.max(c0) && c <= line_len + 1 => acc.outcome(&("included-position", depth, lines, col)),
                _ => acc.violation(Violation {
                    signature: format!("position|diagnostic-in-included-file|{}", if f != want_file { "file" } else if l != Some(line) { "line" } else { "column" }),
                    detail: format!("`{}` at {}:{}:{} (include depth {}, {}) is diagnosed as `{}`", bad.0, want_file, line, c0, depth, if crlf { "CRLF" } else { "LF" }, head),
                    replay,
                }),
            }
        }
    }
}

// ---------------------------------------------------------------------------------------------
// integers

const INT_SUFFIXES: &[&str] = &["", "u", "U", "l", "L", "ul", "uL", "Ul", "UL", "lu", "lU", "Lu", "LU"];

fn check_int(spelling: &str, digits: &str, radix: u32, suffix: &str, acc: &mut Acc) {
    acc.evals += 1;
    let value = u128::from_str_radix(digits, radix).ok();
    let fits = value.map(|v| v <= u64::MAX as u128).unwrap_or(false);
    let r = lex_real(spelling);
    let replay = format!("kind: int\n{}", spelling);
    match r {
        Err(p) => acc.violation(Violation {
            signature: if fits { p.signature() } else { format!("int-literal|overflow-panics|{}", p.signature()) },
            detail: format!("lexing integer literal {} panicked: {}", spelling, p.message),
            replay,
        }),
        Ok(Err(_)) => {
            if fits {
                acc.violation(Violation {
                    signature: "int-literal|representable-rejected".into(),
                    detail: format!("integer literal {} fits in 64 bits but is rejected", spelling),
                    replay,
                });
            } else {
                acc.count("int_overflow_rejected");
                acc.outcome(&("int-reject", digits.len()));
            }
        }
        Ok(Ok(l)) => {
            let non_ws: Vec<_> = l.toks.iter().filter(|t| !t.0.is_whitespace()).collect();
            if !fits {
                acc.violation(Violation {
                    signature: "int-literal|overflow-not-rejected".into(),
                    detail: format!("integer literal {} does not fit in 64 bits but lexes as {:?}", spelling, non_ws.iter().map(|t| &t.0).collect::<Vec<_>>()),
                    replay,
                });
                return;
            }
            let v = value.unwrap() as u64;
            let s = suffix.to_ascii_lowercase();
            let expected = match s.as_str() {
                "" => Token::LiteralInt(v),
                "u" => Token::LiteralIntUnsigned32(v),
                "l" => Token::LiteralIntSigned64(v as i64),
                _ => Token::LiteralIntUnsigned64(v),
            };
            if non_ws.len() != 1 || non_ws[0].0 != expected {
                acc.violation(Violation {
                    signature: "int-literal|wrong-value".into(),
                    detail: format!("integer literal {} lexes as {:?}, expected {:?}", spelling, non_ws.iter().map(|t| &t.0).collect::<Vec<_>>(), expected),
                    replay,
                });
            } else {
                acc.outcome(&format!("{:?}", expected));
            }
        }
    }
}

fn int_cases(quick: bool) -> Vec<(String, String, u32, &'static str)> {
    let mut out = Vec::new();
    let maxlen = if quick { 3 } else { 4 };
    let mut push = |prefix: &str, digits: String, radix: u32, sufs: &[&'static str]| {
        for s in sufs {
            out.push((format!("{}{}{}", prefix, digits, s), digits.clone(), radix, *s));
        }
    };
    // decimal: first digit non-zero (or the single digit 0), all strings up to maxlen
    for len in 1..=maxlen {
        let n = 10u32.pow(len);
        for v in 0..n {
            let d = format!("{:0width$}", v, width = len as usize);
            if d.len() > 1 && d.starts_with('0') {
                continue;
            }
            push("", d, 10, INT_SUFFIXES);
        }
    }
    // octal: 0 followed by octal digits
    for len in 1..=maxlen {
        let n = 8u32.pow(len);
        for v in 0..n {
            let d = format!("{:0width$o}", v, width = len as usize);
            push("0", d, 8, INT_SUFFIXES);
        }
    }
    // hex, both letter cases
    for len in 1..=(maxlen - 1) {
        let n = 16u32.pow(len);
        for v in 0..n {
            push("0x", format!("{:0width$x}", v, width = len as usize), 16, INT_SUFFIXES);
            let up = format!("{:0width$X}", v, width = len as usize);
            if up.chars().any(|c| c.is_ascii_uppercase()) {
                push("0x", up, 16, &["", "u", "UL"]);
            }
        }
    }
    // boundary families
    for k in 1..=66u32 {
        for delta in [-1i32, 0, 1] {
            let v: u128 = ((1u128 << k) as i128 + delta as i128) as u128;
            push("", format!("{}", v), 10, INT_SUFFIXES);
            push("0x", format!("{:x}", v), 16, INT_SUFFIXES);
            push("0", format!("{:o}", v), 8, INT_SUFFIXES);
        }
    }
    let mut p10: u128 = 1;
    for _k in 0..=25 {
        push("", format!("{}", p10), 10, INT_SUFFIXES);
        push("", format!("{}", p10 - 1 + (p10 == 1) as u128), 10, &["", "u"]);
        p10 *= 10;
    }
    for v in [u64::MAX as u128, u64::MAX as u128 + 1, 99999999999999999999u128, 18446744073709551625u128, 184467440737095516150u128] {
        push("", format!("{}", v), 10, INT_SUFFIXES);
        push("0x", format!("{:x}", v), 16, &["", "u"]);
        push("0x0000", format!("{:x}", v), 16, &[""]);
    }
    out
}

// ---------------------------------------------------------------------------------------------
// floats

const FLOAT_SUFFIXES: &[&str] = &["", "f", "h", "l", "F", "H", "L"];

/// what the property demands: nearest double of the decimal text, then one narrowing for f/h
fn check_float(spelling_no_suffix: &str, suffix: &str, acc: &mut Acc) {
    acc.evals += 1;
    let spelling = format!("{}{}", spelling_no_suffix, suffix);
    let want64: f64 = match spelling_no_suffix.parse::<f64>() {
        Ok(v) => v,
        Err(_) => {
            acc.count("float_reference_cannot_parse");
            return;
        }
    };
    let replay = format!("kind: float\n{}", spelling);
    match lex_real(&spelling) {
        Err(p) => acc.violation(Violation {
            signature: p.signature(),
            detail: format!("lexing float literal {} panicked: {}", spelling, p.message),
            replay,
        }),
        Ok(Err((msg, _))) => acc.violation(Violation {
            signature: "float-literal|rejected".into(),
            detail: format!("float literal {} rejected: {}", spelling, msg.lines().next().unwrap_or("")),
            replay,
        }),
        Ok(Ok(l)) => {
            let non_ws: Vec<_> = l.toks.iter().filter(|t| !t.0.is_whitespace()).collect();
            let expected = match suffix.to_ascii_lowercase().as_str() {
                "" => Token::LiteralFloat(want64),
                "f" => Token::LiteralFloat32(want64 as f32),
                "h" => Token::LiteralFloat16(want64 as f32),
                _ => Token::LiteralFloat64(want64),
            };
            let same = non_ws.len() == 1
                && match (&non_ws[0].0, &expected) {
                    (Token::LiteralFloat(a), Token::LiteralFloat(b)) => a.to_bits() == b.to_bits(),
                    (Token::LiteralFloat64(a), Token::LiteralFloat64(b)) => a.to_bits() == b.to_bits(),
                    (Token::LiteralFloat32(a), Token::LiteralFloat32(b)) => a.to_bits() == b.to_bits(),
                    (Token::LiteralFloat16(a), Token::LiteralFloat16(b)) => a.to_bits() == b.to_bits(),
                    _ => false,
                };
            if !same {
                let class = if non_ws.len() != 1 {
                    "not-one-token"
                } else if std::mem::discriminant(&non_ws[0].0) != std::mem::discriminant(&expected) {
                    "wrong-kind"
                } else {
                    "inexact"
                };
                acc.violation(Violation {
                    signature: format!("float-literal|{}", class),
                    detail: format!(
                        "float literal {} lexes as {:?}, nearest double is {:?} ({:e})",
                        spelling,
                        non_ws.iter().map(|t| &t.0).collect::<Vec<_>>(),
                        expected,
                        want64
                    ),
                    replay,
                });
            } else {
                acc.outcome(&(want64.to_bits(), suffix.to_ascii_lowercase()));
            }
        }
    }
}

/// all significand spellings with ≤ maxd digits, split at every position (integer part non-empty)
fn significands(maxd: u32) -> Vec<String> {
    let mut out = Vec::new();
    for len in 1..=maxd {
        let n = 10u32.pow(len);
        for v in 0..n {
            let d = format!("{:0width$}", v, width = len as usize);
            for p in 1..=d.len() {
                out.push(format!("{}.{}", &d[..p], &d[p..]));
            }
            out.push(d.clone()); // no '.', only valid with an exponent
        }
    }
    out
}

fn exponents(quick: bool) -> Vec<String> {
    let mut out = vec![String::new()];
    for x in -330i32..=310 {
        let keep = !quick || x % 7 == 0 || (-330..=-300).contains(&x) || (300..=310).contains(&x) || (-46..=-36).contains(&x) || (36..=40).contains(&x) || (-3..=3).contains(&x);
        if !keep {
            continue;
        }
        out.push(format!("e{}", x));
        if x >= 0 {
            out.push(format!("e+{}", x));
            if x % 5 == 0 {
                out.push(format!("E{}", x));
            }
        }
    }
    out
}

fn hard_family() -> Vec<String> {
    let mut out = Vec::new();
    // around every binade boundary: 2^e and its neighbours printed with 17 and 20 significant digits,
    // plus the same decimal strings with the last digit perturbed
    for e in -1074i32..=1023 {
        let x = if e >= -1022 { f64::from_bits(((e + 1023) as u64) << 52) } else { f64::from_bits(1u64 << (e + 1074)) };
        for y in [f64::from_bits(x.to_bits().wrapping_sub(1)), x, f64::from_bits(x.to_bits() + 1)] {
            if !y.is_finite() || y == 0.0 {
                continue;
            }
            for prec in [16usize, 19] {
                let s = format!("{:.*e}", prec, y);
                // s looks like d.ddddde-5 ; rssl needs the exponent without a bare '-'? e-5 is fine
                out.push(s.clone());
                if e % 8 == 0 {
                    // perturb last significand digit
                    let (m, ex) = s.split_once('e').unwrap();
                    let mut mb = m.as_bytes().to_vec();
                    let last = mb.len() - 1;
                    mb[last] = if mb[last] == b'9' { b'8' } else { mb[last] + 1 };
                    out.push(format!("{}e{}", String::from_utf8(mb).unwrap(), ex));
                }
            }
        }
    }
    // well-known constants from shader code
    for s in [
        "0.0031308", "0.055", "1.055", "0.04045", "12.92", "2.4", "0.41666", "3.14159265358979323846", "6.28318530717958647692",
        "0.1", "0.2", "0.3", "0.7", "1e23", "8.41e21", "2.2250738585072011e-308", "2.2250738585072014e-308", "4.9e-324",
        "1.7976931348623157e308", "9007199254740993.0", "9007199254740992.5", "0.000001", "123456789012345678901234567890.0",
        "3.4028235e38", "3.4028234663852886e38", "3.4028235677973366e38", "1.17549435e-38", "65504.0", "65520.0", "5.960464477539063e-8",
        "16777217.0", "1.00000017881393432617187499", "1.00000017881393432617187501",
    ] {
        out.push(s.to_string());
    }
    out
}

// ---------------------------------------------------------------------------------------------
// D: literal unchanged in the output

fn out_cases(quick: bool) -> Vec<(String, &'static str)> {
    let mut v = Vec::new();
    let sig: &[&str] = if quick {
        &["1.0", "2.5", "0.1", "0.0031308", "0.055", "3.0", "100.0", "1.5", "7.", "33.333", "0.7"]
    } else {
        &[
            "1.0", "2.5", "0.1", "0.0031308", "0.055", "3.0", "100.0", "1.5", "7.", "33.333", "0.7", "0.2", "0.3", "12.92", "2.4", "1.055",
            "0.04045", "6.25", "9.99", "0.001", "123.456", "4.0", "65504.0", "16777216.0", "16777217.0", "0.5", "0.25", "1234.5",
        ]
    };
    let exps: &[&str] = if quick { &["", "e3", "e-3", "e10", "e-10", "e30", "e-30"] } else { &["", "e1", "e3", "e-3", "e7", "e-7", "e10", "e-10", "e20", "e-20", "e22", "e30", "e-30", "e37", "e-37"] };
    for s in sig {
        for e in exps {
            for suf in ["", "f", "h", "L"] {
                v.push((format!("{}{}", s, e), suf));
            }
        }
    }
    v
}

fn literal_tokens(text: &str) -> Option<Vec<Token>> {
    match lex_real(text) {
        Ok(Ok(l)) => Some(
            l.toks
                .into_iter()
                .map(|t| t.0)
                .filter(|t| {
                    matches!(
                        t,
                        Token::LiteralFloat(_) | Token::LiteralFloat16(_) | Token::LiteralFloat32(_) | Token::LiteralFloat64(_) | Token::LiteralInt(_) | Token::LiteralIntUnsigned32(_) | Token::LiteralIntUnsigned64(_) | Token::LiteralIntSigned64(_)
                    )
                })
                .collect(),
        ),
        _ => None,
    }
}

fn check_output_literal(spelling: &str, suffix: &str, acc: &mut Acc) {
    acc.evals += 1;
    let lit = format!("{}{}", spelling, suffix);
    let ty = match suffix {
        "f" => "float",
        "h" => "half",
        "L" => "double",
        _ => "float",
    };
    // the literal is returned directly so no conversion is applied to typed literals
    let src = format!("{} f() {{ return {}; }}\n", ty, lit);
    let src_tok = match literal_tokens(&lit) {
        Some(t) if t.len() == 1 => t[0].clone(),
        _ => return,
    };
    let replay = format!("kind: out\n{}\n{}", spelling, suffix);
    let r = guard(|| compile1(&src, Cfg::Dx, Mode::NoPipeline));
    match r {
        Err(p) => acc.violation(Violation { signature: p.signature(), detail: format!("compile of {:?} panicked: {}", src, p.message), replay }),
        Ok(Err(_)) => acc.count("out_rejected"),
        Ok(Ok(ps)) => {
            let text = String::from_utf8_lossy(&ps[0].data).to_string();
            let body = text.split_once("return").map(|x| x.1).unwrap_or("");
            let toks = literal_tokens(body.split(';').next().unwrap_or(""));
            let val = |t: &Token| -> Option<f64> {
                match t {
                    Token::LiteralFloat(v) | Token::LiteralFloat64(v) => Some(*v),
                    Token::LiteralFloat16(v) | Token::LiteralFloat32(v) => Some(*v as f64),
                    Token::LiteralInt(v) | Token::LiteralIntUnsigned32(v) | Token::LiteralIntUnsigned64(v) => Some(*v as f64),
                    Token::LiteralIntSigned64(v) => Some(*v as f64),
                    _ => None,
                }
            };
            let want = val(&src_tok).unwrap();
            // for an untyped literal returned as float the exporter may narrow it: accept the f32 value
            let accept: Vec<f64> = if suffix.is_empty() { vec![want, want as f32 as f64] } else { vec![want] };
            let got = toks.as_ref().and_then(|t| if t.len() == 1 { val(&t[0]) } else { None });
            let kind_ok = match (&src_tok, toks.as_ref().and_then(|t| t.first())) {
                (Token::LiteralFloat16(_), Some(Token::LiteralFloat16(_))) => true,
                (Token::LiteralFloat32(_), Some(Token::LiteralFloat32(_))) => true,
                (Token::LiteralFloat64(_), Some(Token::LiteralFloat64(_))) => true,
                (Token::LiteralFloat(_), Some(_)) => true,
                _ => false,
            };
            match got {
                Some(g) if accept.iter().any(|a| a.to_bits() == g.to_bits()) && kind_ok => {
                    acc.outcome(&(g.to_bits(), suffix));
                }
                _ => {
                    let class = if got.is_some() && accept.iter().any(|a| a.to_bits() == got.unwrap().to_bits()) { "kind-changed" } else { "value-changed" };
                    acc.violation(Violation {
                        signature: format!("output-literal|{}|{}", class, if suffix.is_empty() { "untyped" } else { suffix }),
                        detail: format!("literal {} (value {:e}) is emitted as `{}` which re-reads as {:?}", lit, want, one_line(body.split(';').next().unwrap_or("").trim(), 60), toks),
                        replay,
                    });
                }
            }
        }
    }
}

// D2: integer literal unchanged in the output, in every context kind: kept untyped, converted to int / uint, converted to
// half / float / double (one rounding of the written value)

const INT_CONTEXTS: [&str; 8] = ["untyped", "int", "uint", "half", "float", "double", "negated-int", "negated-const"];

fn out_int_values(quick: bool) -> Vec<u64> {
    let mut v: Vec<u64> = vec![0, 1, 2, 7, 8, 9, 10, 15, 100, 255, 1000, 65504, 65535, 16777217, 1000000007, 123456789012345678, u64::MAX, u64::MAX - 1, u64::MAX - 1024, u64::MAX - 1025];
    let ks: Vec<u32> = if quick { vec![11, 24, 31, 32, 53, 63] } else { (4..64).collect() };
    for k in ks {
        let b = 1u64 << k;
        v.extend([b - 1, b, b + 1, b + (b >> 1), b + (b >> 1) + 1]);
    }
    v.sort();
    v.dedup();
    v
}

fn check_output_int(n: u64, radix: u32, context: &str, acc: &mut Acc) {
    acc.evals += 1;
    let lit = match radix {
        16 => format!("0x{:X}", n),
        8 => format!("0{:o}", n),
        _ => format!("{}", n),
    };
    let (src, want): (String, Vec<f64>) = match context {
        "untyped" => (format!("uint f() {{ return (uint)({} >> 40); }}\n", lit), vec![]),
        "int" if n <= i32::MAX as u64 => (format!("int f() {{ return {}; }}\n", lit), vec![]),
        "uint" if n <= u32::MAX as u64 => (format!("uint f() {{ return {}u; }}\n", lit), vec![]),
        "half" if n <= 2048 => (format!("half f() {{ return {}; }}\n", lit), vec![n as f64]),
        "float" => (format!("float f() {{ return {}; }}\n", lit), vec![n as f32 as f64, n as f64 as f32 as f64]),
        "double" => (format!("double f() {{ return {}; }}\n", lit), vec![n as f64]),
        // the negation of a literal folded into an int constant (INT_MIN is the value whose magnitude does not fit)
        "negated-int" if n <= 1 << 31 => (format!("int f() {{ return -{}; }}\n", lit), vec![-(n as f64)]),
        "negated-const" if n <= 1 << 31 => (format!("static const int k = -{};\nint f() {{ return k; }}\n", lit), vec![-(n as f64)]),
        _ => return,
    };
    let replay = format!("kind: out-int\n{}\n{}\n{}", n, radix, context);
    match guard(|| compile1(&src, Cfg::Dx, Mode::NoPipeline)) {
        Err(p) => acc.violation(Violation { signature: p.signature(), detail: format!("compile of {:?} panicked: {}", src, p.message), replay }),
        Ok(Err(_)) => acc.count("out_int_rejected"),
        Ok(Ok(ps)) => {
            let text = String::from_utf8_lossy(&ps[0].data).to_string();
            let key = if context == "negated-const" { "k =" } else { "return" };
            let body = text.split_once(key).map(|x| x.1).unwrap_or("").split(';').next().unwrap_or("").to_string();
            let toks = literal_tokens(&body).unwrap_or_default();
            let first = toks.first();
            let ok = if context.starts_with("negated") {
                // `-N` (or `N` for zero), possibly behind a cast to int
                let b: String = body.chars().filter(|c| !c.is_whitespace() && *c != '(' && *c != ')').collect();
                let b = b.strip_prefix("int").unwrap_or(&b);
                let (neg, digits) = match b.strip_prefix('-') {
                    Some(r) => (true, r),
                    None => (false, b),
                };
                let digits = digits.trim_end_matches(|c| c == 'u' || c == 'U' || c == 'l' || c == 'L');
                match digits.parse::<i128>() {
                    Ok(v) => (if neg { -v } else { v }) == -(n as i128),
                    Err(_) => false,
                }
            } else if want.is_empty() {
                // the first literal of the returned expression is the written one, as an integer of the same value
                matches!(first, Some(Token::LiteralInt(v) | Token::LiteralIntUnsigned32(v) | Token::LiteralIntUnsigned64(v)) if *v == n)
            } else {
                let got = match first {
                    Some(Token::LiteralFloat(v) | Token::LiteralFloat64(v)) => Some(*v),
                    Some(Token::LiteralFloat16(v) | Token::LiteralFloat32(v)) => Some(*v as f64),
                    _ => None,
                };
                let narrow = context != "double";
                toks.len() == 1 && got.map(|g| want.iter().any(|w| if narrow { (*w as f32).to_bits() == (g as f32).to_bits() } else { w.to_bits() == g.to_bits() })).unwrap_or(false)
            };
            if ok {
                acc.outcome(&("out-int", n, context));
            } else {
                acc.violation(Violation {
                    signature: format!("output-int-literal|value-changed|{}", context),
                    detail: format!("integer literal {} (= {}) used as {} is emitted as `{}`, which re-reads as {:?}", lit, n, context, one_line(body.trim(), 80), toks),
                    replay,
                });
            }
        }
    }
}

// ---------------------------------------------------------------------------------------------

pub fn run(ctx: &Ctx) -> i32 {
    let mut rep = Report::new("exploration");
    rep.rule = "every generated text/spelling is run through the real lexer (rssl_preprocess::preprocess_fragment + unlex); non-trivial = accepted by the lexer, distinct = different token-kind sequence (tiling) or different (value bits, suffix class) (literals)".into();

    // A: tiling
    let full = full_alphabet();
    let cls = class_alphabet();
    let nf = full.len() as u64;
    let ns = SEPS.len() as u64;
    // length 1 and 2 over the full alphabet × all separators (s0 before, s1 between, s2 after)
    let total2 = nf * nf * ns * ns * 2;
    let r = run_par(ctx, total2, 4096, |idx, acc| {
        let mut d = Vec::new();
        decode(idx, &[nf, nf, ns, ns, 2], &mut d);
        let toks = [full[d[0] as usize], full[d[1] as usize]];
        let seps = [SEPS[d[2] as usize], SEPS[d[3] as usize]];
        let text = if d[4] == 0 { format!("{}{}{}{}", toks[0], seps[0], toks[1], seps[1]) } else { format!("{}{}{}{}", seps[1], toks[0], seps[0], toks[1]) };
        check_text(&text, if d[4] == 0 { Some((&toks, &seps)) } else { None }, acc);
        if idx % 100003 == 0 {
            acc.sample(obj(vec![("space", "tiling-2".into()), ("text", text.into())]));
        }
    });
    rep.absorb("tiling_len2", r);
    let cl: Vec<&str> = if ctx.quick() { cls.iter().copied().step_by(2).collect() } else { cls.clone() };
    let nc = cl.len() as u64;
    let n5 = SEPS5.len() as u64;
    let total3 = nc * nc * nc * n5 * n5 * 2;
    let r = run_par(ctx, total3, 4096, |idx, acc| {
        let mut d = Vec::new();
        decode(idx, &[nc, nc, nc, n5, n5, 2], &mut d);
        let toks = [cl[d[0] as usize], cl[d[1] as usize], cl[d[2] as usize]];
        let seps = [SEPS5[d[3] as usize], SEPS5[d[4] as usize], if d[5] == 0 { "" } else { "\n" }];
        let text = format!("{}{}{}{}{}{}", toks[0], seps[0], toks[1], seps[1], toks[2], seps[2]);
        check_text(&text, Some((&toks, &seps)), acc);
        if idx % 300007 == 0 {
            acc.sample(obj(vec![("space", "tiling-3".into()), ("text", text.into())]));
        }
    });
    rep.absorb("tiling_len3", r);

    // A2: comment bodies — a comment is one piece of trivia whatever it contains
    {
        const BODY: &[char] = &['/', '*', 'c', ' ', '"', '\'', '#', '\\', '\n'];
        let nb = BODY.len() as u64;
        let maxlen = ctx.pick(4u32, 5u32);
        let total: u64 = (0..=maxlen).map(|l| nb.pow(l)).sum();
        let r = run_par(ctx, total * 3, 1024, |idx, acc| {
            let form = idx % 3;
            let mut k = idx / 3;
            let mut len = 0u32;
            while k >= nb.pow(len) {
                k -= nb.pow(len);
                len += 1;
            }
            let mut d = Vec::new();
            decode(k, &vec![nb; len as usize], &mut d);
            let body: String = d.iter().map(|i| BODY[*i as usize]).collect();
            let sep = match form {
                // block comment: the body must not close it early
                0 | 1 => {
                    if body.contains("*/") {
                        return;
                    }
                    if form == 0 { format!(" /*{}*/ ", body) } else { format!("/*{}*/", body) }
                }
                // line comment: one line, not continued by a splice
                _ => {
                    if body.contains('\n') || body.ends_with('\\') {
                        return;
                    }
                    format!(" //{}\n", body)
                }
            };
            let text = format!("x{}y", sep);
            check_text(&text, Some((&["x", "y"], &[sep.as_str(), ""])), acc);
        });
        rep.absorb("comment_bodies", r);
    }

    // A3: a diagnostic inside an included file names that file and a position inside it
    {
        let bads: [(&str, usize); 4] = [("`", 0), ("1.0p", 3), ("\"abc", 0), ("99999999999999999999999", 0)];
        let r = run_par(ctx, (bads.len() * 4 * 4 * 2 * 3) as u64, 8, |idx, acc| {
            let mut d = Vec::new();
            decode(idx, &[3, 2, 4, 4, bads.len() as u64], &mut d);
            check_included_position(bads[d[4] as usize], d[3] as usize, d[2] as usize, d[1] == 1, d[0] as usize, acc);
        });
        rep.absorb("diagnostic_positions_in_included_files", r);
    }

    // B: integers
    let ints = int_cases(ctx.quick());
    let r = run_par(ctx, ints.len() as u64, 512, |idx, acc| {
        let (sp, digits, radix, suf) = &ints[idx as usize];
        check_int(sp, digits, *radix, suf, acc);
        if idx % 20011 == 0 {
            acc.sample(obj(vec![("space", "int".into()), ("spelling", sp.as_str().into())]));
        }
    });
    rep.absorb("int_spellings", r);

    // C: floats
    // quick: every ≤ 3-digit significand × the thinned exponent list, plus every 4-digit significand × 13 chosen exponents;
    // thorough: every ≤ 4-digit significand × every exponent
    let sigs = significands(ctx.pick(3, 4));
    let exps = exponents(ctx.quick());
    if ctx.quick() {
        let sig4: Vec<String> = significands(4).into_iter().filter(|s| s.chars().filter(|c| c.is_ascii_digit()).count() == 4).collect();
        let exps4: Vec<&str> = vec!["", "e0", "e-3", "e3", "e10", "e-10", "e22", "e23", "e38", "e-38", "e-45", "e305", "e-320"];
        let n4 = exps4.len() as u64;
        let r = run_par(ctx, sig4.len() as u64 * n4, 256, |idx, acc| {
            let sg = &sig4[(idx / n4) as usize];
            let ex = exps4[(idx % n4) as usize];
            if !sg.contains('.') && ex.is_empty() {
                return;
            }
            let base = format!("{}{}", sg, ex);
            for s in FLOAT_SUFFIXES {
                check_float(&base, s, acc);
            }
        });
        rep.absorb("float_grid_4_digits_chosen_exponents", r);
    }
    let nsig = sigs.len() as u64;
    let nexp = exps.len() as u64;
    let nsuf = FLOAT_SUFFIXES.len() as u64;
    let r = run_par(ctx, nsig * nexp, 256, |idx, acc| {
        let sg = &sigs[(idx / nexp) as usize];
        let ex = &exps[(idx % nexp) as usize];
        if !sg.contains('.') && ex.is_empty() {
            return; // an integer, covered by B
        }
        let base = format!("{}{}", sg, ex);
        for s in FLOAT_SUFFIXES {
            check_float(&base, s, acc);
        }
        if idx % 500009 == 0 {
            acc.sample(obj(vec![("space", "float".into()), ("spelling", base.into())]));
        }
    });
    rep.cov("float_spellings", Json::Int((nsig * nexp * nsuf) as i64));
    rep.absorb("float_grid", r);
    let hard = hard_family();
    let r = run_par(ctx, hard.len() as u64, 64, |idx, acc| {
        let s = &hard[idx as usize];
        for suf in ["", "f", "L"] {
            check_float(s, suf, acc);
        }
        if idx % 3001 == 0 {
            acc.sample(obj(vec![("space", "float-hard".into()), ("spelling", s.as_str().into())]));
        }
    });
    rep.absorb("float_hard_family", r);

    // D: value in emitted HLSL
    let outs = out_cases(ctx.quick());
    let r = run_par(ctx, outs.len() as u64, 8, |idx, acc| {
        let (s, suf) = &outs[idx as usize];
        check_output_literal(s, suf, acc);
        if idx % 101 == 0 {
            acc.sample(obj(vec![("space", "output-literal".into()), ("spelling", format!("{}{}", s, suf).into())]));
        }
    });
    rep.absorb("output_literals", r);
    let ovals = out_int_values(ctx.quick());
    let nctx = INT_CONTEXTS.len() as u64;
    let r = run_par(ctx, ovals.len() as u64 * 3 * nctx, 8, |idx, acc| {
        let mut d = Vec::new();
        decode(idx, &[nctx, 3, ovals.len() as u64], &mut d);
        check_output_int(ovals[d[2] as usize], [10, 16, 8][d[1] as usize], INT_CONTEXTS[d[0] as usize], acc);
    });
    rep.cov("output_int_values", Json::Int(ovals.len() as i64));
    rep.absorb("output_int_literals", r);

    rep.assumptions = vec![
        "reference for float values is Rust's str::parse::<f64> (correctly rounded) followed by one `as f32` narrowing for f/h suffixes".into(),
        "reference for integers is u128::from_str_radix; a value >= 2^64 must be a lexer error".into(),
        "token kinds are compared only where no two generated tokens can merge (non-empty trivia) or for punctuation-only strings (maximal munch over the 1- and 2-character operator table)".into(),
        "spellings '.5' (no integer part) and octal-looking decimals with 8/9 digits are outside the enumerated space".into(),
        "float spellings with more than 4 significant digits are covered only by the hard family (binade boundaries at 17 and 20 digits, shader constants)".into(),
    ];
    finish(ctx, rep)
}

pub fn replay(ctx: &Ctx, body: &str) -> i32 {
    let mut acc = Acc::default();
    let (kind, rest) = body.split_once('\n').unwrap_or((body, ""));
    match kind.trim() {
        "kind: text" => check_text(rest, None, &mut acc),
        "kind: int" => {
            let sp = rest.trim();
            let (prefix, radix) = if sp.starts_with("0x") { (2, 16) } else if sp.len() > 1 && sp.starts_with('0') { (1, 8) } else { (0, 10) };
            let body = &sp[prefix..];
            let dlen = body.chars().take_while(|c| c.is_digit(radix)).count();
            check_int(sp, &body[..dlen], radix, &body[dlen..], &mut acc);
        }
        "kind: float" => {
            let sp = rest.trim();
            let cut = sp.trim_end_matches(|c: char| "fhlFHL".contains(c));
            check_float(cut, &sp[cut.len()..], &mut acc);
        }
        "kind: included-position" => {
            let l: Vec<&str> = rest.lines().collect();
            if l.len() < 5 {
                eprintln!("machinery error: included-position needs 5 lines");
                return 2;
            }
            check_included_position((l[0], 0), l[1].parse().unwrap_or(0), l[2].parse().unwrap_or(0), l[3] == "true", l[4].parse().unwrap_or(0), &mut acc);
        }
        "kind: out-int" => {
            let mut it = rest.lines();
            let n: u64 = it.next().unwrap_or("").trim().parse().unwrap_or(0);
            let radix: u32 = it.next().unwrap_or("").trim().parse().unwrap_or(10);
            let c = it.next().unwrap_or("").trim().to_string();
            match INT_CONTEXTS.iter().find(|x| **x == c) {
                Some(c) => check_output_int(n, radix, c, &mut acc),
                None => {
                    eprintln!("machinery error: unknown context {:?}", c);
                    return 2;
                }
            }
        }
        "kind: out" => {
            let mut it = rest.lines();
            let s = it.next().unwrap_or("");
            let suf = it.next().unwrap_or("");
            check_output_literal(s, suf, &mut acc);
        }
        k => {
            eprintln!("machinery error: unknown replay kind {:?}", k);
            return 2;
        }
    }
    let mut rep = Report::new("exploration");
    rep.rule = "replay of one recorded case".into();
    // a replay must not overwrite the evidence of a full run
    let n = acc.viol.len();
    for (sig, (_, _, v)) in &acc.viol {
        println!("VIOLATION property={} replay=(replayed) signature={}", ctx.prop, sig);
        println!("  detail: {}", one_line(&v.detail, 400));
    }
    let _ = rep;
    if n > 0 { 1 } else {
        println!("replay: property held on this case");
        0
    }
}

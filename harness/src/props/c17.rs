//! C17 — pipelines are selected and compiled independently.
//!
//! Space (E1, exhaustive): a fixed prelude (a cbuffer + 6 resources in 3 bind groups, 2 helper functions shared by
//! several entry points, 8 entry-point functions; a variant without the mesh/task entry points for Msl) plus EVERY sequence of pipeline definitions over an alphabet of
//! (shape × DefaultBindGroup × graphics-state block × pixel entry) elements, for several name families and two
//! placements of the definitions, on the 4 target configurations. For every file F:
//!   (1) compile(F, all)            -> one result per definition, in source order
//!   (2) compile(F, name X)         -> exactly X
//!   (3) compile(F, unknown name)   -> clean error; zero pipelines -> the documented error; no-pipeline mode -> one result
//!   (4) result(F, all)[X] == result(F, name X) == result(F with the other definitions deleted, all)[X]
//!       on data bytes, stages, metadata and graphics pipeline state (or the same back-end rejection).
//!   (5) result(F, no-pipeline mode) == result(F with ALL definitions deleted, no-pipeline mode): the pipelines a
//!       file defines (which, how many, in which order) do not reach the result of no-pipeline mode.
//! Files with two definitions of the same name are a sub-space of their own (must fail cleanly, never panic).
//!
//! Third prelude ("mesh-attr"): 6 mesh entry points (and their 6 payload-taking twins behind one task entry point) that
//! differ in WHICH of the two user attributes (TEXCOORD, MATERIAL) they emit per vertex and which per primitive — every
//! one of the 2x2 placements through struct members, plus each attribute alone through a directly annotated
//! `out primitives` parameter — and share the pixel entry points. Every sequence of mesh pipelines over these entry
//! points is a file: what a back-end derives from the mesh stage of one pipeline (per-primitive decorations on Vulkan) must not
//! reach the source of another one.

//!
//! Role dimension ("role shapes"): EVERY one of the 8 entry-point functions of the full prelude in EVERY one of the 5
//! stage roles (Compute, Vertex, Pixel, Mesh, Task; the other stages of the pipeline keep their classic function), 40
//! elements. Sequences over them put one function into different roles in different pipelines of one file: what one
//! pipeline resolved for a function (stage kind, compute-or-graphics) must not reach another pipeline.
//!
//! Placement dimension: every definition of a sequence is either at root level or inside a namespace block of its own
//! (`namespace Ns_<name> { Pipeline <name> {..} }`, thorough also nested two levels deep); every assignment of
//! placements to the positions of the sequence is a file. Source order counts definitions wherever they are declared.

use crate::engine::*;
use crate::json::{Json, obj};
use crate::util::*;
use std::cell::RefCell;
use std::collections::HashMap;

// ---------------------------------------------------------------------------------------------
// the generated files

/// resources (3 bind groups: default, space1, space2), a cbuffer, structs, two helpers shared by several entry points
const HEAD: &str = r#"cbuffer Globals
{
    float4 g_tint;
    uint g_count;
}
const Texture2D<float4> g_tex;
const ByteAddressBuffer g_bytes : register(space1);
const RWStructuredBuffer<uint> g_counter : register(space1);
const RWTexture2D<float4> g_out;
const BufferAddress g_addr;
const Texture2D<float4> g_unused : register(space2);
static uint s_scratch = 0;
static const uint kTaskGroup = 2 * 2;
groupshared uint gs_hist[64];

struct Payload
{
    uint base;
};

struct MeshVertex
{
    float4 position : SV_Position;
    float2 uv : TEXCOORD;
};

struct MeshPrim
{
    uint material : MATERIAL;
};

groupshared Payload gs_payload;

float4 shade(float2 uv) {
    return g_tex.Load(int3(0, 0, 0)) * g_tint + float4(uv, 0, 0);
}

uint fetch(uint i) {
    s_scratch = s_scratch + i;
    return g_bytes.Load(4 * i) + g_count;
}
"#;

/// entry points, in file order; the index is the "anchor" of the interleaved layout
const FUNCS: [&str; 8] = [
    // 0 CsA: only user of g_counter
    r#"
[numthreads(8, 8, 1)]
void CsA(uint3 dtid : SV_DispatchThreadID) {
    g_counter[dtid.x] = fetch(dtid.y);
}
"#,
    // 1 CsB: only user of g_out and gs_hist
    r#"
[numthreads(64, 1, 1)]
void CsB(uint3 dtid : SV_DispatchThreadID) {
    gs_hist[dtid.x] = dtid.x;
    g_out[dtid.xy] = shade(float2(0, 0));
}
"#,
    // 2 VsMain
    r#"
void VsMain(uint vid : SV_VertexID, out float4 o_pos : SV_Position, out float2 o_uv : TEXCOORD, out uint o_material : MATERIAL) {
    o_pos = float4(fetch(vid), 0, 0, 1);
    o_uv = float2(0, 0);
    o_material = vid;
}
"#,
    // 3 PsMain
    r#"
float4 PsMain(float2 uv : TEXCOORD) : SV_Target0 {
    return shade(uv);
}
"#,
    // 4 PsAlt: only user of g_addr; consumes the per-primitive attribute of the mesh shaders
    r#"
float4 PsAlt(float2 uv : TEXCOORD, uint material : MATERIAL) : SV_Target0 {
    return float4(uv, g_addr.Load<uint>(0), material);
}
"#,
    // 5 MsMain
    r#"
[numthreads(32, 1, 1)]
[outputtopology("triangle")]
void MsMain(uint3 dtid : SV_DispatchThreadID, out vertices MeshVertex o_verts[32], out primitives MeshPrim o_prims[16], out indices uint3 o_tris[16]) {
    SetMeshOutputCounts(32, 16);
    MeshVertex v;
    v.position = float4(fetch(dtid.x), 0, 0, 1);
    v.uv = float2(0, 0);
    o_verts[dtid.x] = v;
    MeshPrim p;
    p.material = dtid.x;
    o_prims[dtid.x / 2] = p;
    o_tris[dtid.x / 2] = uint3(0, 1, 2);
}
"#,
    // 6 MsPay
    r#"
[numthreads(16, 1, 1)]
[outputtopology("triangle")]
void MsPay(uint3 dtid : SV_DispatchThreadID, in payload Payload data, out vertices MeshVertex o_verts[16], out primitives MeshPrim o_prims[16], out indices uint3 o_tris[16]) {
    SetMeshOutputCounts(16, 16);
    MeshVertex v;
    v.position = float4(data.base, 0, 0, 1);
    v.uv = float2(0, 0);
    o_verts[dtid.x] = v;
    MeshPrim p;
    p.material = data.base;
    o_prims[dtid.x] = p;
    o_tris[dtid.x] = uint3(0, 1, 2);
}
"#,
    // 7 TsMain
    r#"
[numthreads(kTaskGroup, 1, 1)]
void TsMain(uint3 dtid : SV_DispatchThreadID) {
    gs_payload.base = dtid.x + g_count;
    DispatchMesh(2u, 1u, 1u, gs_payload);
}
"#,
];

pub const PRELUDE_NAMES: [&str; 3] = ["full", "no-mesh", "mesh-attr"];
pub const SHAPE_NAMES: [&str; 5] = ["computeA", "computeB", "vertex+pixel", "mesh+pixel", "task+mesh+pixel"];

/// graphics-state blocks (index 0 = none)
const STATES: [&str; 7] = [
    "",
    "    RenderTargetFormat0 = \"R8G8B8A8_UNORM\";\n",
    "    RenderTargetFormat0 = \"R16G16B16A16_FLOAT\";\n    RenderTargetFormat2 = \"R32G32_UINT\";\n    DepthTargetFormat = \"D32_FLOAT\";\n",
    "    CullMode = \"None\";\n    WindingOrder = \"Clockwise\";\n",
    "    CullMode = \"Front\";\n    DepthTargetFormat = \"D24_UNORM_S8_UINT\";\n",
    "    BlendState =\n    {\n        BlendEnabled = true;\n        SrcBlend = \"SrcAlpha\";\n        DstBlend = \"OneMinusSrcAlpha\";\n        WriteMask = 7;\n    }\n",
    "    RenderTargetFormat1 = \"R8_UNORM\";\n    BlendState1 =\n    {\n        BlendEnabled = true;\n        BlendOp = \"Max\";\n        SrcBlendAlpha = \"Zero\";\n        DstBlendAlpha = \"One\";\n        BlendOpAlpha = \"RevSubtract\";\n        WriteMask = 0xFu;\n    }\n    BlendState =\n    {\n        WriteMask = 1 + 2;\n    }\n",
];

/// DefaultBindGroup lines (index 0 = absent)
const DBGS: [&str; 4] = ["", "    DefaultBindGroup = 0;\n", "    DefaultBindGroup = 1;\n", "    DefaultBindGroup = 1 + 1;\n"];

const PIXELS: [&str; 2] = ["PsMain", "PsAlt"];

/// the entry points of the full prelude with their [numthreads] (index = index into FUNCS)
const ROLE_ENTRIES: [(&str, Option<(u32, u32, u32)>); 8] = [
    ("CsA", Some((8, 8, 1))),
    ("CsB", Some((64, 1, 1))),
    ("VsMain", None),
    ("PsMain", None),
    ("PsAlt", None),
    ("MsMain", Some((32, 1, 1))),
    ("MsPay", Some((16, 1, 1))),
    ("TsMain", Some((4, 1, 1))),
];
/// the roles an entry point can be given by a pipeline definition
const ROLE_NAMES: [&str; 5] = ["Compute", "Vertex", "Pixel", "Mesh", "Task"];
/// first shape number of the role shapes: shape = ROLE_BASE + 5 * entry + role
pub const ROLE_BASE: u8 = 5;
pub const SHAPE_COUNT: u8 = ROLE_BASE + 40;

/// placements of a definition: 0 = root level, 1 = inside a namespace block of its own, 2 = nested two levels deep
const NS_KINDS: u8 = 3;

/// name families, by position in the sequence
const NAME_SCHEMES: [[&str; 4]; 3] = [
    ["P0", "P1", "P2", "P3"],
    // every pair is a prefix pair in one direction or the other
    ["Pipe", "PipeX", "Pip", "PipeXY"],
    // differ only by case
    ["Main", "main", "MAIN", "mAIN"],
];

#[derive(Copy, Clone, PartialEq, Eq, Hash, Debug, PartialOrd, Ord)]
pub struct Elem {
    /// 0 compute A, 1 compute B, 2 vertex+pixel, 3 mesh+pixel, 4 task+mesh+pixel
    pub shape: u8,
    /// index into DBGS
    pub dbg: u8,
    /// index into STATES (graphics shapes only)
    pub state: u8,
    /// index into PIXELS (graphics shapes only)
    pub pixel: u8,
    /// mesh entry point of the mesh shapes: 0 = MsMain / MsPay of the full prelude; 1..=MESH_VARIANTS = attribute-placement
    /// variant MsA<k> / MsPayA<k> of the mesh-attr prelude (fnset 2), see `mesh_variant_text`
    pub mesh: u8,
}

/// where a mesh entry point emits a user attribute: member of the `vertices` struct, member of the `primitives`
/// struct, or an `out primitives` parameter of its own that carries the semantic directly
#[derive(Copy, Clone, PartialEq, Eq, Debug)]
enum Place {
    Vert,
    Prim,
    PrimParam,
}

/// (placement of TEXCOORD, placement of MATERIAL) of variant k = index + 1: all 2x2 assignments to {per vertex,
/// per primitive} through struct members, then each attribute alone through a directly annotated primitives parameter
const PLACEMENTS: [(Place, Place); 6] = [
    (Place::Vert, Place::Vert),
    (Place::Prim, Place::Vert),
    (Place::Vert, Place::Prim),
    (Place::Prim, Place::Prim),
    (Place::Vert, Place::PrimParam),
    (Place::PrimParam, Place::Vert),
];

/// number of attribute-placement variants of the mesh entry point
pub const MESH_VARIANTS: u8 = PLACEMENTS.len() as u8;

fn mesh_variant_placement(k: u8) -> (Place, Place) {
    PLACEMENTS[k as usize - 1]
}

fn mesh_variant_label(k: u8) -> String {
    if k == 0 {
        return "classic".into();
    }
    let (uv, mat) = mesh_variant_placement(k);
    let nm = |p: Place| match p {
        Place::Vert => "vert",
        Place::Prim => "prim",
        Place::PrimParam => "prim-param",
    };
    format!("uv:{},material:{}", nm(uv), nm(mat))
}

/// thread group size of the entry points of variant k: distinct per variant, so that the stage list identifies the
/// definition on every target (Msl renames the entry points)
fn mesh_variant_threads(k: u8, payload: bool) -> (u32, u32, u32) {
    (if payload { 16 } else { 32 }, k as u32, 1)
}

/// The structs of variant k (with the non-payload entry point) and the entry point itself.
fn mesh_variant_text(k: u8, payload: bool) -> String {
    let (uv, mat) = mesh_variant_placement(k);
    let attrs: [(Place, &str, &str, &str, &str); 2] =
        [(uv, "float2", "uv", "TEXCOORD", "float2(1, 1)"), (mat, "uint", "material", "MATERIAL", "dtid.x")];
    let mut s = String::new();
    let has_prim = attrs.iter().any(|a| a.0 == Place::Prim);
    if !payload {
        s.push_str(&format!("\nstruct VtxA{}\n{{\n    float4 position : SV_Position;\n", k));
        for (pl, ty, name, sem, _) in attrs {
            if pl == Place::Vert {
                s.push_str(&format!("    {} {} : {};\n", ty, name, sem));
            }
        }
        s.push_str("};\n");
        if has_prim {
            s.push_str(&format!("\nstruct PrimA{}\n{{\n", k));
            for (pl, ty, name, sem, _) in attrs {
                if pl == Place::Prim {
                    s.push_str(&format!("    {} {} : {};\n", ty, name, sem));
                }
            }
            s.push_str("};\n");
        }
    }
    let (x, y, z) = mesh_variant_threads(k, payload);
    s.push_str(&format!("\n[numthreads({}, {}, {})]\n[outputtopology(\"triangle\")]\n", x, y, z));
    let mut params = String::new();
    if payload {
        params.push_str("in payload Payload data, ");
    }
    params.push_str(&format!("out vertices VtxA{} o_verts[32], ", k));
    if has_prim {
        params.push_str(&format!("out primitives PrimA{} o_prims[16], ", k));
    }
    for (pl, ty, name, sem, _) in attrs {
        if pl == Place::PrimParam {
            params.push_str(&format!("out primitives {} o_{}[16] : {}, ", ty, name, sem));
        }
    }
    s.push_str(&format!("void {}A{}(uint3 dtid : SV_DispatchThreadID, {}out indices uint3 o_tris[16]) {{\n", if payload { "MsPay" } else { "Ms" }, k, params));
    let base = if payload { "data.base" } else { "fetch(dtid.x)" };
    s.push_str("    SetMeshOutputCounts(32, 16);\n");
    s.push_str(&format!("    VtxA{} v;\n    v.position = float4({}, 0, 0, 1);\n", k, base));
    for (pl, _, name, _, value) in attrs {
        if pl == Place::Vert {
            s.push_str(&format!("    v.{} = {};\n", name, value));
        }
    }
    s.push_str("    o_verts[dtid.x] = v;\n");
    if has_prim {
        s.push_str(&format!("    PrimA{} p;\n", k));
        for (pl, _, name, _, value) in attrs {
            if pl == Place::Prim {
                s.push_str(&format!("    p.{} = {};\n", name, value));
            }
        }
        s.push_str("    o_prims[dtid.x / 2] = p;\n");
    }
    for (pl, _, name, _, value) in attrs {
        if pl == Place::PrimParam {
            s.push_str(&format!("    o_{}[dtid.x / 2] = {};\n", name, value));
        }
    }
    s.push_str("    o_tris[dtid.x / 2] = uint3(0, 1, 2);\n}\n");
    s
}

/// the entry-point functions of a prelude, in file order. 0 = all 8 of FUNCS, 1 = without the mesh and task entry
/// points, 2 = mesh-attr: the two pixel entry points, the task entry point and MsA<k>, MsPayA<k> for k = 1..=MESH_VARIANTS
fn funcs(fnset: u8) -> Vec<String> {
    match fnset {
        0 => FUNCS.iter().map(|s| s.to_string()).collect(),
        1 => FUNCS[..5].iter().map(|s| s.to_string()).collect(),
        _ => {
            let mut v = vec![FUNCS[3].to_string(), FUNCS[4].to_string(), FUNCS[7].to_string()];
            for k in 1..=MESH_VARIANTS {
                v.push(mesh_variant_text(k, false));
                v.push(mesh_variant_text(k, true));
            }
            v
        }
    }
}

pub fn shape_name(shape: u8) -> String {
    if shape < ROLE_BASE {
        SHAPE_NAMES[shape as usize].to_string()
    } else {
        let r = shape - ROLE_BASE;
        format!("{}-as-{}", ROLE_ENTRIES[(r / 5) as usize].0, ROLE_NAMES[(r % 5) as usize])
    }
}

impl Elem {
    fn is_compute(self) -> bool {
        self.shape < 2 || (self.shape >= ROLE_BASE && (self.shape - ROLE_BASE) % 5 == 0)
    }
    /// role shape: (entry index into ROLE_ENTRIES / FUNCS, role index into ROLE_NAMES)
    fn role(self) -> Option<(usize, usize)> {
        if self.shape >= ROLE_BASE {
            let r = (self.shape - ROLE_BASE) as usize;
            Some((r / 5, r % 5))
        } else {
            None
        }
    }
    /// role shape: the (property, stage, function index) list in definition order; the stages other than the varied
    /// one keep their classic function (vertex VsMain, pixel = the element's pixel entry, mesh MsMain)
    fn role_stages(self) -> Vec<(&'static str, &'static str, usize)> {
        let (entry, role) = self.role().unwrap();
        let px = 3 + self.pixel as usize;
        match role {
            0 => vec![("ComputeShader", "Compute", entry)],
            1 => vec![("VertexShader", "Vertex", entry), ("PixelShader", "Pixel", px)],
            2 => vec![("VertexShader", "Vertex", 2), ("PixelShader", "Pixel", entry)],
            3 => vec![("MeshShader", "Mesh", entry), ("PixelShader", "Pixel", px)],
            _ => vec![("TaskShader", "Task", entry), ("MeshShader", "Mesh", 5), ("PixelShader", "Pixel", px)],
        }
    }
    fn code(self) -> String {
        format!("{}.{}.{}.{}.{}", self.shape, self.dbg, self.state, self.pixel, self.mesh)
    }
    fn parse(s: &str) -> Option<Elem> {
        let mut v: Vec<u8> = s.split('.').filter_map(|x| x.trim().parse().ok()).collect();
        if v.len() == 4 {
            v.push(0);
        }
        if v.len() != 5 || v[4] > MESH_VARIANTS || (v[4] != 0 && v[0] != 3 && v[0] != 4) || v[0] >= SHAPE_COUNT || v[1] as usize >= DBGS.len() || v[2] as usize >= STATES.len() || v[3] as usize >= PIXELS.len() {
            return None;
        }
        let e = Elem { shape: v[0], dbg: v[1], state: v[2], pixel: v[3], mesh: v[4] };
        if e.is_compute() && (v[2] != 0 || v[3] != 0) {
            return None;
        }
        Some(e)
    }
    /// the definition text
    fn text(self, name: &str, ns: u8) -> String {
        let mut s = match ns {
            0 => String::new(),
            1 => format!("\nnamespace Ns_{}\n{{\n", name),
            _ => format!("\nnamespace Outer\n{{\nnamespace In_{}\n{{\n", name),
        };
        s.push_str(&format!("\nPipeline {}\n{{\n", name));
        let px = PIXELS[self.pixel as usize];
        match self.shape {
            _ if self.shape >= ROLE_BASE => {
                for (prop, _, f) in self.role_stages() {
                    s.push_str(&format!("    {} = {};\n", prop, ROLE_ENTRIES[f].0));
                }
            }
            0 => s.push_str("    ComputeShader = CsA;\n"),
            1 => s.push_str("    ComputeShader = CsB;\n"),
            2 => s.push_str(&format!("    VertexShader = VsMain;\n    PixelShader = {};\n", px)),
            3 => s.push_str(&format!("    MeshShader = {};\n    PixelShader = {};\n", self.mesh_entry(), px)),
            _ => s.push_str(&format!("    TaskShader = TsMain;\n    MeshShader = {};\n    PixelShader = {};\n", self.mesh_entry(), px)),
        }
        s.push_str(DBGS[self.dbg as usize]);
        s.push_str(STATES[self.state as usize]);
        s.push_str("}\n");
        for _ in 0..ns {
            s.push_str("}\n");
        }
        s
    }
    /// the mesh entry point of a mesh shape
    fn mesh_entry(self) -> String {
        match (self.mesh, self.shape) {
            (0, 3) => "MsMain".to_string(),
            (0, _) => "MsPay".to_string(),
            (k, 3) => format!("MsA{}", k),
            (k, _) => format!("MsPayA{}", k),
        }
    }
    /// index (into `funcs(fnset)`) of the last function the definition refers to (placement in the interleaved layout)
    fn anchor(self, fnset: u8) -> usize {
        if fnset == 2 {
            // [PsMain, PsAlt, TsMain, MsA1, MsPayA1, MsA2, ...]
            return 3 + 2 * (self.mesh as usize - 1) + if self.shape == 3 { 0 } else { 1 };
        }
        if self.shape >= ROLE_BASE {
            return self.role_stages().iter().map(|x| x.2).max().unwrap();
        }
        match self.shape {
            0 => 0,
            1 => 1,
            2 => 3 + self.pixel as usize,
            3 => 5,
            _ => 7,
        }
    }
    /// may this element be defined in the prelude `fnset`?
    fn fits(self, fnset: u8) -> bool {
        match fnset {
            0 => self.mesh == 0,
            1 => self.mesh == 0 && self.shape <= 2,
            _ => (self.shape == 3 || self.shape == 4) && self.mesh >= 1,
        }
    }
    /// what the property lets us predict without running anything: the stage list (reference for "which definition is this")
    fn expected_stages(self, cfg: Cfg) -> String {
        let px = PIXELS[self.pixel as usize];
        let ms = self.mesh_entry();
        let list: Vec<(&str, &str, Option<(u32, u32, u32)>)> = match self.shape {
            _ if self.shape >= ROLE_BASE => self.role_stages().iter().map(|(_, stage, f)| (*stage, ROLE_ENTRIES[*f].0, ROLE_ENTRIES[*f].1)).collect(),
            0 => vec![("Compute", "CsA", Some((8, 8, 1)))],
            1 => vec![("Compute", "CsB", Some((64, 1, 1)))],
            2 => vec![("Vertex", "VsMain", None), ("Pixel", px, None)],
            3 if self.mesh == 0 => vec![("Mesh", "MsMain", Some((32, 1, 1))), ("Pixel", px, None)],
            3 => vec![("Mesh", ms.as_str(), Some(mesh_variant_threads(self.mesh, false))), ("Pixel", px, None)],
            _ if self.mesh == 0 => vec![("Task", "TsMain", Some((4, 1, 1))), ("Mesh", "MsPay", Some((16, 1, 1))), ("Pixel", px, None)],
            _ => vec![("Task", "TsMain", Some((4, 1, 1))), ("Mesh", ms.as_str(), Some(mesh_variant_threads(self.mesh, true))), ("Pixel", px, None)],
        };
        let mut s = String::new();
        for (stage, entry, tgs) in list {
            let entry = if cfg == Cfg::Msl { format!("{}ShaderEntry", stage) } else { entry.to_string() };
            s.push_str(&format!("{} {} {:?}\n", stage, entry, tgs));
        }
        s
    }
}

/// Build the file. `fnset` 0 = all 8 entry points, 1 = without the mesh and task entry points, 2 = the mesh-attr prelude (see `funcs`). `keep = Some(k)`: all definitions except the k-th (index into `defs`) are deleted.
/// Returns the source and the indices into `defs` in source order.
fn build_file(defs: &[(Elem, String, u8)], layout: u8, fnset: u8, keep: Option<usize>) -> (String, Vec<usize>) {
    let mut src = String::from(HEAD);
    let mut order = Vec::new();
    // fnset 1: prelude variant without mesh/task entry points (Msl rejects every non-mesh pipeline of a file that has one)
    for (fi, f) in funcs(fnset).iter().enumerate() {
        src.push_str(f);
        if layout == 1 {
            for (k, (e, name, ns)) in defs.iter().enumerate() {
                if e.anchor(fnset) == fi {
                    order.push(k);
                    if keep.is_none() || keep == Some(k) {
                        src.push_str(&e.text(name, *ns));
                    }
                }
            }
        }
    }
    if layout == 0 {
        for (k, (e, name, ns)) in defs.iter().enumerate() {
            order.push(k);
            if keep.is_none() || keep == Some(k) {
                src.push_str(&e.text(name, *ns));
            }
        }
    }
    (src, order)
}

// ---------------------------------------------------------------------------------------------
// observations

#[derive(Clone, PartialEq, Eq, Debug)]
struct Parts {
    data: String,
    stages: String,
    metadata: String,
    state: String,
}

fn parts_of(p: &rssl::CompiledPipeline) -> Parts {
    let mut stages = String::new();
    for st in &p.stages {
        stages.push_str(&format!("{:?} {} {:?}\n", st.stage, st.entry_point, st.thread_group_size));
    }
    Parts {
        data: String::from_utf8_lossy(&p.data).to_string(),
        stages,
        metadata: format!("{:#?}", p.metadata),
        state: format!("{:?}", p.graphics_pipeline_state),
    }
}

/// outcome of one compile call
#[derive(Clone, PartialEq, Eq, Debug)]
enum Out {
    Ok(Vec<Parts>),
    Err(String),
    Panic(String, String),
}

impl Out {
    fn brief(&self) -> String {
        match self {
            Out::Ok(v) => format!("Ok({} pipelines: {})", v.len(), v.iter().map(|p| one_line(p.stages.trim_end(), 80)).collect::<Vec<_>>().join(" | ")),
            Out::Err(e) => format!("Err({})", one_line(e, 160)),
            Out::Panic(_, m) => format!("PANIC({})", one_line(m, 160)),
        }
    }
}

fn panic_sig(p: &PanicInfo) -> String {
    // the worktree may live anywhere: keep the path below the repository root
    let file = match p.file.find("/repo/") {
        Some(i) => p.file[i + 6..].to_string(),
        None => p.file.clone(),
    };
    // the text after a colon carries pieces of the input (e.g. the pipeline name): keep the class only
    let message = p.message.lines().next().unwrap_or("").split(": ").next().unwrap_or("").to_string();
    PanicInfo { file, message }.signature()
}

fn compile_out(src: &str, cfg: Cfg, mode: Mode, acc: &mut Acc) -> Out {
    acc.count("compile_calls");
    match guard(|| compile1(src, cfg, mode).map(|v| v.iter().map(parts_of).collect::<Vec<_>>())) {
        Ok(Ok(v)) => Out::Ok(v),
        Ok(Err(e)) => Out::Err(e),
        Err(p) => Out::Panic(panic_sig(&p), p.message.clone()),
    }
}

thread_local! {
    /// result of compiling a definition alone: (element, name, layout, cfg) -> outcome. Pure memoisation.
    static ALONE: RefCell<HashMap<(Elem, String, u8, u8, u8, Cfg), Out>> = RefCell::new(HashMap::new());
}

thread_local! {
    /// no-pipeline mode result of the prelude with every Pipeline block deleted: (fnset, cfg) -> outcome. Pure memoisation.
    static BARE: RefCell<HashMap<(u8, Cfg), Out>> = RefCell::new(HashMap::new());
}

/// the reference of oracle (5): the same file with all definitions deleted (the text does not depend on the layout),
/// compiled in no-pipeline mode
fn bare_no_pipeline(fnset: u8, cfg: Cfg, acc: &mut Acc) -> Out {
    if let Some(o) = BARE.with(|c| c.borrow().get(&(fnset, cfg)).cloned()) {
        return o;
    }
    let (src, _) = build_file(&[], 0, fnset, None);
    let o = compile_out(&src, cfg, Mode::NoPipeline, acc);
    acc.count("bare_no_pipeline_compiles");
    BARE.with(|c| c.borrow_mut().insert((fnset, cfg), o.clone()));
    o
}

fn alone(e: Elem, name: &str, ns: u8, layout: u8, fnset: u8, cfg: Cfg, acc: &mut Acc) -> Out {
    let key = (e, name.to_string(), ns, layout, fnset, cfg);
    if let Some(o) = ALONE.with(|c| c.borrow().get(&key).cloned()) {
        return o;
    }
    let (src, _) = build_file(&[(e, name.to_string(), ns)], layout, fnset, None);
    let o = compile_out(&src, cfg, Mode::All, acc);
    acc.count("alone_compiles");
    ALONE.with(|c| {
        let mut c = c.borrow_mut();
        if c.len() > 6000 {
            c.clear();
        }
        c.insert(key, o.clone());
    });
    o
}

// ---------------------------------------------------------------------------------------------
// the oracle for one (file, configuration)

#[derive(Clone, Debug)]
pub struct Case {
    pub elems: Vec<Elem>,
    pub names: Vec<String>,
    pub layout: u8,
    /// 0 = prelude with all 8 entry points, 1 = prelude without mesh/task entry points
    pub fnset: u8,
    pub cfg: Cfg,
    pub undef: Vec<String>,
    /// placement of each definition: 0 root level, 1 in a namespace block of its own, 2 nested two levels deep
    pub ns: Vec<u8>,
}

impl Case {
    fn defs(&self) -> Vec<(Elem, String, u8)> {
        (0..self.elems.len()).map(|k| (self.elems[k], self.names[k].clone(), self.ns.get(k).copied().unwrap_or(0))).collect()
    }
    fn replay(&self, src: &str) -> String {
        format!(
            "kind: file\ncfg: {}\nlayout: {}\nfnset: {}\nns: {}\nelems: {}\nnames: {}\nundef: {}\nsource:\n{}",
            self.cfg.name(),
            self.layout,
            self.fnset,
            self.ns.iter().map(|x| x.to_string()).collect::<Vec<_>>().join(","),
            self.elems.iter().map(|e| e.code()).collect::<Vec<_>>().join(","),
            self.names.join(","),
            self.undef.join("|"),
            src
        )
    }
    fn describe(&self) -> String {
        let mut s = String::new();
        for (k, (e, n)) in self.elems.iter().zip(self.names.iter()).enumerate() {
            s.push_str(&format!(
                "{}{}:{}[dbg{} state{} {}{}] ",
                match self.ns.get(k).copied().unwrap_or(0) {
                    0 => "",
                    1 => "(in namespace)",
                    _ => "(in nested namespace)",
                },
                n,
                shape_name(e.shape),
                e.dbg,
                e.state,
                if e.is_compute() { "-" } else { PIXELS[e.pixel as usize] },
                if e.mesh == 0 { String::new() } else { format!(" {}({})", e.mesh_entry(), mesh_variant_label(e.mesh)) }
            ));
        }
        format!("{{{}}} layout={} prelude={} target={}", s.trim_end(), self.layout, PRELUDE_NAMES[self.fnset as usize], self.cfg.name())
    }
}

fn first_diff(a: &str, b: &str) -> String {
    let la: Vec<&str> = a.lines().collect();
    let lb: Vec<&str> = b.lines().collect();
    for i in 0..la.len().max(lb.len()) {
        let x = la.get(i).copied().unwrap_or("<end>");
        let y = lb.get(i).copied().unwrap_or("<end>");
        if x != y {
            return format!("line {}: `{}` vs `{}`", i + 1, one_line(x.trim(), 100), one_line(y.trim(), 100));
        }
    }
    "equal".into()
}

/// compare the four components the property lists; `what` names the relation in the signature
fn compare_parts(what: &str, ctx_a: &str, a: &Parts, ctx_b: &str, b: &Parts, case: &Case, which: &str, src: &str, acc: &mut Acc) {
    let comps: [(&str, &str, &str); 4] =
        [("data", &a.data, &b.data), ("stages", &a.stages, &b.stages), ("metadata", &a.metadata, &b.metadata), ("state", &a.state, &b.state)];
    for (comp, x, y) in comps {
        if x != y {
            acc.violation(Violation {
                signature: format!("pipeline|{}|{}|{}", what, comp, case.cfg.name()),
                detail: format!("{} of pipeline {} differs between {} and {}: {} in file {}", comp, which, ctx_a, ctx_b, first_diff(x, y), case.describe()),
                replay: case.replay(src),
            });
        }
    }
}

pub fn check_case(case: &Case, acc: &mut Acc) {
    acc.evals += 1;
    let n = case.elems.len();
    let cfg = case.cfg;
    let defs = case.defs();
    let (src, order) = build_file(&defs, case.layout, case.fnset, None);
    let tname = cfg.name();
    let dup = (0..n).any(|i| (0..i).any(|j| case.names[i] == case.names[j]));
    let v = |sig: String, detail: String| Violation { signature: sig, detail, replay: case.replay(&src) };

    // ---- no-pipeline mode: one result, no stages, no state, whatever the file defines
    let nop = compile_out(&src, cfg, Mode::NoPipeline, acc);
    // ---- (5) ... and the same result as for the file with every definition deleted. Files with duplicate names are
    // excluded (they may be rejected as a whole in every mode).
    if !dup && n > 0 {
        let bare = bare_no_pipeline(case.fnset, cfg, acc);
        let nv = |what: &str, detail: String| Violation {
            signature: format!("pipeline|no-pipeline-mode-depends-on-pipelines|{}|{}", what, tname),
            detail,
            replay: case.replay(&src),
        };
        match (&nop, &bare) {
            (Out::Ok(a), Out::Ok(b)) if a.len() == 1 && b.len() == 1 => {
                let comps: [(&str, &str, &str); 4] = [
                    ("data", &a[0].data, &b[0].data),
                    ("stages", &a[0].stages, &b[0].stages),
                    ("metadata", &a[0].metadata, &b[0].metadata),
                    ("state", &a[0].state, &b[0].state),
                ];
                let mut same = true;
                for (comp, x, y) in comps {
                    if x != y {
                        same = false;
                        acc.violation(nv(
                            comp,
                            format!("{} of the no-pipeline-mode result differs between the file and the same file with all Pipeline blocks deleted: {} in file {}", comp, first_diff(x, y), case.describe()),
                        ));
                    }
                }
                if same {
                    acc.count(&format!("no_pipeline_mode_same_as_without_definitions_{}", tname));
                }
            }
            // a wrong number of results is reported by the shape rule below (file) / is impossible to compare (reference)
            (Out::Ok(_), Out::Ok(_)) => {}
            (Out::Err(a), Out::Err(b)) => {
                if a != b {
                    acc.violation(nv(
                        "diagnostic",
                        format!("no-pipeline mode fails with `{}` but with all Pipeline blocks deleted with `{}`; {}", one_line(a, 160), one_line(b, 160), case.describe()),
                    ));
                } else {
                    acc.count(&format!("no_pipeline_mode_rejected_like_without_definitions_{}", tname));
                }
            }
            // panics are reported below (file) / by the zero-definition spaces (reference)
            (Out::Panic(..), _) | (_, Out::Panic(..)) => {}
            (a, b) => acc.violation(nv(
                "verdict",
                format!("no-pipeline mode gives {} but with all Pipeline blocks deleted {}; {}", a.brief(), b.brief(), case.describe()),
            )),
        }
    }
    match nop {
        Out::Ok(ps) => {
            if ps.len() != 1 || !ps[0].stages.is_empty() || ps[0].state != "None" {
                acc.violation(v(
                    "pipeline|no-pipeline-mode|shape".into(),
                    format!("no-pipeline mode returned {} for {}", Out::Ok(ps).brief(), case.describe()),
                ));
            } else {
                acc.count(&format!("no_pipeline_mode_ok_{}", tname));
            }
        }
        Out::Err(e) => {
            // a back-end may reject the file for its own reasons (Msl: mesh intrinsics without a mesh pipeline), but
            // never for the lack or the choice of pipelines
            if e.contains("does not contain") || e.trim().is_empty() {
                acc.violation(v(
                    "pipeline|no-pipeline-mode|rejected".into(),
                    format!("no-pipeline mode fails with `{}` for {}", one_line(&e, 200), case.describe()),
                ));
            } else {
                acc.count(&format!("no_pipeline_mode_backend_rejection_{}", tname));
            }
        }
        Out::Panic(sig, m) => acc.violation(v(
            if dup { "pipeline|duplicate-name|panic".into() } else { format!("pipeline|no-pipeline-mode|{}", sig) },
            format!("no-pipeline mode panicked: {} for {}", one_line(&m, 200), case.describe()),
        )),
    }

    // ---- unknown names
    for u in &case.undef {
        if case.names.iter().any(|x| x == u) {
            continue;
        }
        match compile_out(&src, cfg, Mode::Named(u.clone()), acc) {
            Out::Err(e) => {
                if e.contains("does not contain the pipeline") && e.contains(u.as_str()) {
                    acc.count("unknown_name_clean_errors");
                } else if dup && !e.trim().is_empty() {
                    // a file with duplicate names may be rejected as a whole with its own diagnostic
                    acc.count("duplicate_name_clean_errors");
                } else {
                    acc.violation(v(
                        "pipeline|unknown-name|unrelated-diagnostic".into(),
                        format!("selecting the undefined pipeline {:?} fails with `{}` which does not say that the pipeline is missing; {}", u, one_line(&e, 200), case.describe()),
                    ));
                }
            }
            Out::Ok(ps) => acc.violation(v(
                "pipeline|unknown-name".into(),
                format!("selecting the undefined pipeline {:?} returns {} instead of an error; {}", u, Out::Ok(ps).brief(), case.describe()),
            )),
            Out::Panic(sig, m) => acc.violation(v(
                if dup { "pipeline|duplicate-name|panic".into() } else { format!("pipeline|unknown-name|{}", sig) },
                format!("selecting the undefined pipeline {:?} panicked: {}; {}", u, one_line(&m, 200), case.describe()),
            )),
        }
    }

    let all = compile_out(&src, cfg, Mode::All, acc);

    // ---- zero pipelines
    if n == 0 {
        match &all {
            Out::Err(e) if e.contains("does not contain a single pipeline") => acc.count("zero_pipelines_clean_error"),
            Out::Panic(sig, m) => acc.violation(v(format!("pipeline|zero-pipelines|{}", sig), format!("file without pipelines panicked: {}", one_line(m, 200)))),
            o => acc.violation(v(
                "pipeline|zero-pipelines".into(),
                format!("file without pipelines (not in no-pipeline mode) gives {} instead of the documented error", o.brief()),
            )),
        }
        acc.outcome(&("zero", tname, all.brief()));
        return;
    }

    // ---- duplicate names: the only demand is a clean outcome
    if dup {
        let mut modes: Vec<(String, Mode)> = vec![("all".into(), Mode::All)];
        let mut seen: Vec<&String> = Vec::new();
        for nm in &case.names {
            if !seen.contains(&nm) {
                seen.push(nm);
                modes.push((format!("name {}", nm), Mode::Named(nm.clone())));
            }
        }
        for (label, mode) in modes {
            let o = if mode == Mode::All { all.clone() } else { compile_out(&src, cfg, mode.clone(), acc) };
            acc.outcome(&("dup", tname, label.starts_with("all"), o.brief()));
            match &o {
                Out::Panic(_, m) => acc.violation(v(
                    "pipeline|duplicate-name|panic".into(),
                    format!("file with two pipelines of the same name, selection {}: panic `{}`; {}", label, one_line(m, 160), case.describe()),
                )),
                Out::Err(e) => {
                    acc.count("duplicate_name_clean_errors");
                    if e.trim().is_empty() {
                        acc.violation(v("pipeline|duplicate-name|empty-diagnostic".into(), format!("empty diagnostic; {}", case.describe())));
                    }
                }
                Out::Ok(ps) => {
                    // accepted: then the count/identity rules still apply
                    let candidates: Vec<usize> = match &mode {
                        Mode::All => order.clone(),
                        Mode::Named(nm) => order.iter().copied().filter(|k| &case.names[*k] == nm).collect(),
                        Mode::NoPipeline => Vec::new(),
                    };
                    let ok = match &mode {
                        Mode::All => ps.len() == n && ps.iter().zip(order.iter()).all(|(p, k)| p.stages == case.elems[*k].expected_stages(cfg)),
                        _ => ps.len() == 1 && candidates.iter().any(|k| ps[0].stages == case.elems[*k].expected_stages(cfg)),
                    };
                    if !ok {
                        acc.violation(v(
                            "pipeline|duplicate-name|wrong-selection".into(),
                            format!("file with duplicate names, selection {}: {}; {}", label, o.brief(), case.describe()),
                        ));
                    }
                }
            }
        }
        return;
    }

    // ---- reference: every definition compiled with the others deleted
    let alones: Vec<Out> = (0..n).map(|k| alone(case.elems[k], &case.names[k], defs[k].2, case.layout, case.fnset, cfg, acc)).collect();
    for (k, a) in alones.iter().enumerate() {
        match a {
            Out::Ok(ps) if ps.len() == 1 => {
                if ps[0].stages != case.elems[k].expected_stages(cfg) {
                    acc.violation(v(
                        "pipeline|count-or-order|alone".into(),
                        format!("a file with the single definition {} reports stages `{}`, expected `{}`", case.names[k], one_line(&ps[0].stages, 120), one_line(&case.elems[k].expected_stages(cfg), 120)),
                    ));
                }
            }
            Out::Ok(ps) => acc.violation(v(
                "pipeline|count-or-order|alone".into(),
                format!("a file with one definition returned {} results; {}", ps.len(), case.describe()),
            )),
            Out::Err(_) => acc.count(&format!("alone_rejected_{}", tname)),
            Out::Panic(sig, m) => acc.violation(v(format!("pipeline|alone|{}", sig), format!("single-definition file panicked: {}; {}", one_line(m, 200), case.describe()))),
        }
    }
    let first_rejected = order.iter().copied().find(|k| matches!(alones[*k], Out::Err(_)));

    // ---- (1) all pipelines
    match &all {
        Out::Panic(sig, m) => acc.violation(v(format!("pipeline|all|{}", sig), format!("compiling all pipelines panicked: {}; {}", one_line(m, 200), case.describe()))),
        Out::Err(e) => match first_rejected {
            Some(k) => {
                if alones[k] != Out::Err(e.clone()) {
                    acc.violation(v(
                        format!("pipeline|verdict-depends-on-others|{}", tname),
                        format!("all pipelines: error `{}` but the first rejected definition {} alone gives {}; {}", one_line(e, 160), case.names[k], alones[k].brief(), case.describe()),
                    ));
                } else {
                    acc.count("all_rejected_like_alone");
                    acc.outcome(&("err", tname, e.clone()));
                }
            }
            None => acc.violation(v(
                format!("pipeline|verdict-depends-on-others|{}", tname),
                format!("every definition compiles alone but the whole file fails with `{}`; {}", one_line(e, 200), case.describe()),
            )),
        },
        Out::Ok(ps) => {
            if let Some(k) = first_rejected {
                acc.violation(v(
                    format!("pipeline|verdict-depends-on-others|{}", tname),
                    format!("definition {} alone is rejected ({}) but the whole file compiles; {}", case.names[k], alones[k].brief(), case.describe()),
                ));
            } else if ps.len() != n || ps.iter().zip(order.iter()).any(|(p, k)| p.stages != case.elems[*k].expected_stages(cfg)) {
                let want: Vec<String> = order.iter().map(|k| one_line(case.elems[*k].expected_stages(cfg).trim_end(), 80)).collect();
                acc.violation(v(
                    "pipeline|count-or-order".into(),
                    format!("pipeline_name=None returned {}, expected {} results in source order [{}]; {}", all.brief(), n, want.join(" | "), case.describe()),
                ));
            } else {
                acc.count("all_ok");
                let mut differing = [false; 3];
                for (i, k) in order.iter().enumerate() {
                    if let Out::Ok(a) = &alones[*k] {
                        if a.len() == 1 {
                            compare_parts("alone-vs-together", "the whole file (pipeline_name=None)", &ps[i], "the file with the other definitions deleted", &a[0], case, &case.names[*k], &src, acc);
                        }
                    }
                    acc.outcome(&(tname, &ps[i].data, &ps[i].stages, &ps[i].metadata, &ps[i].state));
                    if i > 0 {
                        differing[0] |= ps[i].data != ps[0].data;
                        differing[1] |= ps[i].metadata != ps[0].metadata;
                        differing[2] |= ps[i].state != ps[0].state;
                    }
                }
                for (f, nm) in differing.iter().zip(["data", "metadata", "state"]) {
                    if *f {
                        acc.count(&format!("files_whose_pipelines_differ_in_{}", nm));
                    }
                }
            }
        }
    }

    // ---- (2) each name
    for k in order.iter().copied() {
        let nm = &case.names[k];
        let named = compile_out(&src, cfg, Mode::Named(nm.clone()), acc);
        match (&named, &alones[k]) {
            (Out::Panic(sig, m), _) => acc.violation(v(format!("pipeline|named|{}", sig), format!("selecting {} panicked: {}; {}", nm, one_line(m, 200), case.describe()))),
            (Out::Ok(ps), Out::Ok(a)) => {
                if ps.len() != 1 || ps[0].stages != case.elems[k].expected_stages(cfg) {
                    acc.violation(v(
                        "pipeline|named-selection".into(),
                        format!("pipeline_name={} returned {}, expected exactly `{}`; {}", nm, named.brief(), one_line(case.elems[k].expected_stages(cfg).trim_end(), 80), case.describe()),
                    ));
                } else {
                    acc.count("named_ok");
                    if a.len() == 1 {
                        compare_parts("named-vs-alone", "selection by name in the whole file", &ps[0], "the file with the other definitions deleted", &a[0], case, nm, &src, acc);
                    }
                }
            }
            (Out::Err(e), Out::Err(ea)) => {
                if e != ea {
                    acc.violation(v(
                        format!("pipeline|verdict-depends-on-others|{}", tname),
                        format!("pipeline_name={}: error `{}`, alone: `{}`; {}", nm, one_line(e, 160), one_line(ea, 160), case.describe()),
                    ));
                } else {
                    acc.count("named_rejected_like_alone");
                }
            }
            (o, a) => {
                let sig = match o {
                    Out::Err(e) if e.contains("does not contain the pipeline") => "pipeline|named-selection".to_string(),
                    _ => format!("pipeline|verdict-depends-on-others|{}", tname),
                };
                acc.violation(v(sig, format!("pipeline_name={}: {} but alone: {}; {}", nm, o.brief(), a.brief(), case.describe())));
            }
        }
    }
}

// ---------------------------------------------------------------------------------------------
// alphabets

fn alphabet(dbgs: &[u8], states: &[u8], pixels: &[u8]) -> Vec<Elem> {
    let mut v = Vec::new();
    for shape in 0..5u8 {
        for &dbg in dbgs {
            if shape < 2 {
                v.push(Elem { shape, dbg, state: 0, pixel: 0, mesh: 0 });
            } else {
                for &state in states {
                    for &pixel in pixels {
                        v.push(Elem { shape, dbg, state, pixel, mesh: 0 });
                    }
                }
            }
        }
    }
    v
}

/// shape × a short list of joint decorations (dbg, state, pixel); compute shapes keep only the distinct dbg values
fn alphabet_joint(decor: &[(u8, u8, u8)]) -> Vec<Elem> {
    let mut v: Vec<Elem> = Vec::new();
    for shape in 0..5u8 {
        for &(dbg, state, pixel) in decor {
            let e = if shape < 2 { Elem { shape, dbg, state: 0, pixel: 0, mesh: 0 } } else { Elem { shape, dbg, state, pixel, mesh: 0 } };
            if !v.contains(&e) {
                v.push(e);
            }
        }
    }
    v
}

/// mesh-attr alphabet: {mesh+pixel, task+mesh+pixel} x the 4 attribute placements of the mesh entry point x pixel
/// entries x a short list of (DefaultBindGroup, state) decorations
fn alphabet_mesh_attr(shapes: &[u8], pixels: &[u8], decor: &[(u8, u8)]) -> Vec<Elem> {
    let mut v = Vec::new();
    for &shape in shapes {
        for mesh in 1..=MESH_VARIANTS {
            for &pixel in pixels {
                for &(dbg, state) in decor {
                    v.push(Elem { shape, dbg, state, pixel, mesh });
                }
            }
        }
    }
    v
}

/// role alphabet: the given entry points (indices into ROLE_ENTRIES) x the given roles (indices into ROLE_NAMES) x a
/// short list of joint (DefaultBindGroup, state, pixel) decorations (compute pipelines keep the DefaultBindGroup only)
fn alphabet_roles(groups: &[(&[usize], &[usize])], decor: &[(u8, u8, u8)]) -> Vec<Elem> {
    let mut v: Vec<Elem> = Vec::new();
    for &(dbg, state, pixel) in decor {
        for (entries, roles) in groups {
            for &entry in entries.iter() {
                for &role in roles.iter() {
                    let shape = ROLE_BASE + 5 * entry as u8 + role as u8;
                    let e = if role == 0 { Elem { shape, dbg, state: 0, pixel: 0, mesh: 0 } } else { Elem { shape, dbg, state, pixel, mesh: 0 } };
                    if !v.contains(&e) {
                        v.push(e);
                    }
                }
            }
        }
    }
    v
}

/// names that no definition of the file carries: a proper prefix of the first name, an extension of it, the name of
/// an entry-point function; in the "many" spaces also the empty name, an unrelated name and a respelling
fn undef_names(names: &[String], many: bool, rot: u64) -> Vec<String> {
    let first = names.first().cloned().unwrap_or_else(|| "P0".to_string());
    let three = [first[..first.len() - 1].to_string(), format!("{}0", first), "CsA".to_string()];
    if many {
        let mut v = three.to_vec();
        v.push(String::new());
        v.push("Nope".to_string());
        v.push(first.to_ascii_lowercase().replace('p', "q"));
        v
    } else {
        // one of the three per case, rotating with the case index (every file sees all three over its 4 targets or neighbours)
        vec![three[(rot % 3) as usize].clone()]
    }
}

struct Space {
    name: String,
    alpha: Vec<Elem>,
    len: usize,
    schemes: Vec<usize>,
    layouts: Vec<u8>,
    many_undef: bool,
    fnset: u8,
    cfgs: Vec<Cfg>,
    /// placements every definition ranges over (all assignments to the positions are enumerated)
    ns_kinds: Vec<u8>,
}

impl Space {
    fn files(&self) -> u64 {
        (self.alpha.len() as u64).pow(self.len as u32) * self.schemes.len() as u64 * self.layouts.len() as u64 * (self.ns_kinds.len() as u64).pow(self.len as u32)
    }
    fn total(&self) -> u64 {
        self.files() * self.cfgs.len() as u64
    }
    fn case(&self, idx: u64) -> Case {
        // least significant: target, then layout, scheme, then the sequence (first element most significant)
        let mut radices = vec![self.cfgs.len() as u64, self.layouts.len() as u64, self.schemes.len() as u64];
        for _ in 0..self.len {
            radices.push(self.alpha.len() as u64);
        }
        // most significant: the placements (all at root level first)
        for _ in 0..self.len {
            radices.push(self.ns_kinds.len() as u64);
        }
        let mut d = Vec::new();
        decode(idx, &radices, &mut d);
        let cfg = self.cfgs[d[0] as usize];
        let layout = self.layouts[d[1] as usize];
        let scheme = self.schemes[d[2] as usize];
        let mut elems = Vec::new();
        for p in 0..self.len {
            elems.push(self.alpha[d[3 + self.len - 1 - p] as usize]);
        }
        let names: Vec<String> = (0..self.len).map(|p| NAME_SCHEMES[scheme][p].to_string()).collect();
        let undef = undef_names(&names, self.many_undef, d.iter().sum::<u64>());
        let ns: Vec<u8> = (0..self.len).map(|p| self.ns_kinds[d[3 + 2 * self.len - 1 - p] as usize]).collect();
        Case { elems, names, layout, fnset: self.fnset, cfg, undef, ns }
    }
}

const ALPHABETS_DOC: &str = "full = 5 shapes x DefaultBindGroup{absent,0,1,1+1} x 7 state blocks x 2 pixel entries (graphics) (176 elements); mid = DefaultBindGroup{absent,1,1+1} x state{none,#2,#5} x 2 pixel entries (60); forty = DefaultBindGroup{absent,1+1} x state{none,#2,#5} x 2 pixel entries (40); twenty = 5 joint (DefaultBindGroup,state,pixel) decorations (21); small = 3 joint decorations (15); tiny = 2 joint decorations (10); *_nomesh = the same restricted to the compute and vertex+pixel shapes in the prelude variant without mesh/task entry points (run on Msl, which rejects those shapes in the full prelude); *_meshattr = mesh-attr prelude: {mesh+pixel, task+mesh+pixel} x 6 mesh entry points (every placement of TEXCOORD and MATERIAL per vertex / per primitive through struct members = 4, plus each attribute alone through a directly annotated `out primitives` parameter = 2) x 2 pixel entries (24 elements); len1_meshattr additionally x 3 (DefaultBindGroup,state) decorations (72), len2_meshattr_decorated x 2 decorations (48); psalt = pixel entry PsAlt only (12); meshonly = mesh+pixel with PsAlt only (6); meshonly_struct = the 4 struct-member placements of it (4); roles_all = 8 entry points x 5 roles (40); roles_family = the 5 [numthreads] kernels x {Compute, Mesh, Task} + the 3 others x {Vertex, Pixel} (21); roles_family_decorated = x {plain, DefaultBindGroup 1+1 + state #5 + PsAlt} (42); base = the 5 classic shapes undecorated (5); three = computeA, vertex+pixel, task+mesh+pixel (3); *_placements = every definition x {root level, own namespace block[, nested namespace blocks]}";

fn spaces(ctx: &Ctx) -> Vec<Space> {
    let full = alphabet(&[0, 1, 2, 3], &[0, 1, 2, 3, 4, 5, 6], &[0, 1]);
    let mid = alphabet(&[0, 2, 3], &[0, 2, 5], &[0, 1]);
    let forty = alphabet(&[0, 3], &[0, 5], &[0, 1]);
    let small = alphabet_joint(&[(0, 0, 0), (2, 2, 1), (3, 5, 0)]);
    let tiny = alphabet_joint(&[(0, 0, 0), (2, 2, 1)]);
    let twenty = alphabet_joint(&[(0, 0, 0), (2, 2, 1), (3, 5, 0), (0, 6, 1), (2, 3, 0)]);
    let nomesh = |a: &Vec<Elem>| -> Vec<Elem> { a.iter().copied().filter(|e| e.shape <= 2).collect() };
    let mut v = Vec::new();
    let sp = |name: &str, alpha: &Vec<Elem>, len: usize, schemes: &[usize], layouts: &[u8], many: bool| Space {
        name: name.to_string(),
        alpha: alpha.clone(),
        len,
        schemes: schemes.to_vec(),
        layouts: layouts.to_vec(),
        many_undef: many,
        fnset: 0,
        cfgs: ALL_CFGS.to_vec(),
        ns_kinds: vec![0],
    };
    let msl_only = |mut s: Space| -> Space {
        s.alpha = nomesh(&s.alpha);
        s.fnset = 1;
        s.cfgs = vec![Cfg::Msl];
        s.name = format!("{}_nomesh_msl", s.name);
        s
    };
    v.push(sp("len0", &full, 0, &[0], &[0], true));
    let mut z = msl_only(sp("len0", &full, 0, &[0], &[0], true));
    z.cfgs = ALL_CFGS.to_vec();
    z.name = "len0_nomesh".into();
    v.push(z);
    let (sch, lay): (&[usize], &[u8]) = if ctx.quick() { (&[1], &[0]) } else { (&[0, 1, 2], &[0, 1]) };
    v.push(sp("len1_full", &full, 1, sch, &[0, 1], false));
    v.push(sp("len1_small_many_unknown_names", &small, 1, &[0, 1, 2], &[0, 1], true));
    let mut z = msl_only(sp("len1_full", &full, 1, sch, lay, false));
    z.cfgs = ALL_CFGS.to_vec();
    z.name = "len1_full_nomesh".into();
    v.push(z);
    // mesh-attr prelude: every sequence of mesh pipelines over the 4 attribute placements
    let attr = alphabet_mesh_attr(&[3, 4], &[0, 1], &[(0, 0)]);
    let attr_decor = alphabet_mesh_attr(&[3, 4], &[0, 1], &[(0, 0), (2, 2), (3, 5)]);
    let attr_decor2 = alphabet_mesh_attr(&[3, 4], &[0, 1], &[(0, 0), (3, 5)]);
    // both attributes consumed by the pixel stage
    let attr_alt = alphabet_mesh_attr(&[3, 4], &[1], &[(0, 0)]);
    let attr_mesh_only = alphabet_mesh_attr(&[3], &[1], &[(0, 0)]);
    // ... restricted to the placements through struct members (variants 1..=4)
    let attr_mesh_only_struct: Vec<Elem> = attr_mesh_only.iter().copied().filter(|e| e.mesh <= 4).collect();
    let attr_sp = |name: &str, alpha: &Vec<Elem>, len: usize, schemes: &[usize], layouts: &[u8]| -> Space {
        let mut s = sp(name, alpha, len, schemes, layouts, false);
        s.fnset = 2;
        s
    };
    v.push(attr_sp("len0_meshattr", &attr, 0, &[0], &[0]));
    v.push(attr_sp("len1_meshattr", &attr_decor, 1, &[1], &[0, 1]));
    if ctx.quick() {
        v.push(attr_sp("len2_meshattr", &attr, 2, &[1], &[0]));
        v.push(attr_sp("len3_meshattr_meshonly_struct", &attr_mesh_only_struct, 3, &[1], &[0]));
    } else {
        v.push(attr_sp("len2_meshattr", &attr, 2, &[0, 1], &[0, 1]));
        v.push(attr_sp("len2_meshattr_decorated", &attr_decor2, 2, &[1], &[0]));
        v.push(attr_sp("len3_meshattr_psalt", &attr_alt, 3, &[1], &[0]));
        v.push(attr_sp("len4_meshattr_meshonly", &attr_mesh_only, 4, &[1], &[0]));
    }
    // role shapes: every entry point in every role / the kernels in the three kernel roles and the others in the two others
    let all_entries: &[usize] = &[0, 1, 2, 3, 4, 5, 6, 7];
    let roles_all = alphabet_roles(&[(all_entries, &[0, 1, 2, 3, 4])], &[(0, 0, 0)]);
    let family: &[(&[usize], &[usize])] = &[(&[0, 1, 5, 6, 7], &[0, 3, 4]), (&[2, 3, 4], &[1, 2])];
    let roles_family = alphabet_roles(family, &[(0, 0, 0)]);
    let roles_family_decorated = alphabet_roles(family, &[(0, 0, 0), (3, 5, 1)]);
    v.push(sp("len1_roles_all", &roles_all, 1, &[1], &[0, 1], false));
    if ctx.quick() {
        v.push(sp("len2_roles_family", &roles_family, 2, &[1], &[0], false));
    } else {
        v.push(sp("len2_roles_all", &roles_all, 2, &[1], &[0], false));
        v.push(sp("len2_roles_family_decorated_layout1", &roles_family_decorated, 2, &[0], &[1], false));
        v.push(sp("len3_roles_family", &roles_family, 3, &[1], &[0], false));
    }
    // placements: every definition at root level or inside a namespace block, every assignment over the positions
    let base = alphabet_joint(&[(0, 0, 0)]);
    let three: Vec<Elem> = base.iter().copied().filter(|e| e.shape == 0 || e.shape == 2 || e.shape == 4).collect();
    let placed = |mut s: Space, kinds: &[u8]| -> Space {
        s.ns_kinds = kinds.to_vec();
        s.name = format!("{}_placements", s.name);
        s
    };
    v.push(placed(sp("len1_small", &small, 1, &[0, 1], &[0, 1], false), &[0, 1, 2]));
    v.push(placed(msl_only(sp("len1_small", &small, 1, &[0, 1], &[0, 1], false)), &[0, 1, 2]));
    if ctx.quick() {
        v.push(placed(sp("len2_tiny", &tiny, 2, &[1], &[0], false), &[0, 1]));
        v.push(placed(msl_only(sp("len2_small", &small, 2, &[1], &[0], false)), &[0, 1]));
        v.push(placed(sp("len3_three", &three, 3, &[1], &[0], false), &[0, 1]));
    } else {
        v.push(placed(sp("len2_tiny_layouts", &tiny, 2, &[1], &[0, 1], false), &[0, 1, 2]));
        v.push(placed(msl_only(sp("len2_small_layouts", &small, 2, &[1], &[0, 1], false)), &[0, 1, 2]));
        v.push(placed(sp("len2_roles_family", &roles_family, 2, &[1], &[0], false), &[0, 1]));
        v.push(placed(sp("len3_base", &base, 3, &[1], &[0], false), &[0, 1]));
        v.push(placed(msl_only(sp("len3_small", &small, 3, &[1], &[0], false)), &[0, 1]));
        v.push(placed(sp("len4_three", &three, 4, &[1], &[0], false), &[0, 1]));
    }
    if ctx.quick() {
        v.push(sp("len2_forty", &forty, 2, &[1], &[0], false));
        v.push(msl_only(sp("len2_mid", &mid, 2, &[1], &[0], false)));
        v.push(sp("len2_tiny_names_layouts", &tiny, 2, &[0, 1, 2], &[0, 1], true));
        v.push(sp("len3_tiny", &tiny, 3, &[1], &[0], false));
        v.push(msl_only(sp("len3_small", &small, 3, &[1], &[0], false)));
    } else {
        v.push(sp("len2_full", &full, 2, &[1], &[0], false));
        v.push(msl_only(sp("len2_full", &full, 2, &[1], &[0], false)));
        v.push(sp("len2_mid_names_layouts", &mid, 2, &[0, 2], &[0, 1], false));
        v.push(sp("len2_mid_layout1", &mid, 2, &[1], &[1], false));
        v.push(sp("len2_small_many_unknown_names", &small, 2, &[0, 1, 2], &[0, 1], true));
        v.push(sp("len3_twenty", &twenty, 3, &[1], &[0], false));
        v.push(sp("len3_small_layout1", &small, 3, &[0], &[1], false));
        v.push(msl_only(sp("len3_twenty", &twenty, 3, &[1], &[0], false)));
        v.push(sp("len4_tiny", &tiny, 4, &[1], &[0], false));
        v.push(msl_only(sp("len4_small", &small, 4, &[1], &[0], false)));
    }
    v
}

/// files in which two definitions carry the same name
fn duplicate_cases(ctx: &Ctx) -> Vec<Case> {
    let base: Vec<Elem> = alphabet_joint(&[(0, 0, 0)]);
    let decorated: Vec<Elem> = alphabet_joint(&[(2, 2, 1)]);
    let patterns2: &[&[&str]] = &[&["A", "A"]];
    let patterns3: &[&[&str]] = &[&["A", "A", "B"], &["A", "B", "A"], &["B", "A", "A"], &["A", "A", "A"]];
    let mut out = Vec::new();
    let mut push = |elems: Vec<Elem>, pat: &[&str], layout: u8| {
        let fnset = if elems.iter().all(|e| e.shape <= 2) { 1 } else { 0 };
        for cfg in ALL_CFGS {
            let names: Vec<String> = pat.iter().map(|s| s.to_string()).collect();
            out.push(Case { ns: vec![0; elems.len()], elems: elems.clone(), names, layout, fnset, cfg, undef: vec!["C".into(), "".into()] });
        }
    };
    for a in 0..5 {
        for b in 0..5 {
            for pat in patterns2 {
                push(vec![base[a], base[b]], pat, 0);
                push(vec![base[a], decorated[b]], pat, 1);
            }
            if !ctx.quick() || a == b {
                for c in 0..5 {
                    for pat in patterns3 {
                        push(vec![base[a], decorated[b], base[c]], pat, 0);
                    }
                }
            }
        }
    }
    out
}

// ---------------------------------------------------------------------------------------------

/// the generated files must be accepted where the space claims they are, otherwise the exploration is vacuous
fn sanity(rep: &mut Report) -> Result<(), String> {
    let mut acc = Acc::default();
    let mut msl = Vec::new();
    for fnset in 0..2u8 {
        for cfg in ALL_CFGS {
            for shape in 0..5u8 {
                for pixel in 0..2u8 {
                    if (shape < 2 && pixel > 0) || (fnset == 1 && shape > 2) {
                        continue;
                    }
                    let e = Elem { shape, dbg: 0, state: 0, pixel, mesh: 0 };
                    let (src, _) = build_file(&[(e, "P0".to_string(), 0)], 0, fnset, None);
                    let o = compile_out(&src, cfg, Mode::All, &mut acc);
                    let ok = matches!(&o, Out::Ok(ps) if ps.len() == 1);
                    let label = format!("{} prelude, {}/{}", PRELUDE_NAMES[fnset as usize], SHAPE_NAMES[shape as usize], PIXELS[pixel as usize]);
                    if cfg == Cfg::Msl {
                        msl.push(format!("{}: {}", label, if ok { "ok".to_string() } else { o.brief() }));
                    }
                    // Msl rejects non-mesh pipelines when the file contains a mesh entry point (InvalidPipelineForMeshIntrinsic)
                    let must = cfg != Cfg::Msl || fnset == 1 || shape > 2;
                    if must && !ok {
                        return Err(format!("generated file ({}) is not accepted on {}: {}", label, cfg.name(), o.brief()));
                    }
                }
            }
        }
    }
    // mesh-attr prelude: every mesh shape over every attribute placement is accepted on every target, and on Vulkan the
    // per-primitive decoration (SPIR-V decoration 5271) appears exactly for the placements with a per-primitive attribute
    let mut placements = Vec::new();
    for cfg in ALL_CFGS {
        for shape in 3..5u8 {
            for mesh in 1..=MESH_VARIANTS {
                for pixel in 0..2u8 {
                    let e = Elem { shape, dbg: 0, state: 0, pixel, mesh };
                    let (src, _) = build_file(&[(e, "P0".to_string(), 0)], 0, 2, None);
                    let o = compile_out(&src, cfg, Mode::All, &mut acc);
                    let label = format!("mesh-attr prelude, {}/{}/{}", SHAPE_NAMES[shape as usize], e.mesh_entry(), PIXELS[pixel as usize]);
                    let (uv, mat) = mesh_variant_placement(mesh);
                    let ps = match &o {
                        Out::Ok(ps) if ps.len() == 1 => ps,
                        // the Metal back-end does not collect attributes from directly annotated primitives parameters
                        // (the pixel stage then misses its interpolator): a back-end rejection, handled like the others
                        Out::Err(e) if cfg == Cfg::Msl && (uv == Place::PrimParam || mat == Place::PrimParam) => {
                            msl.push(format!("{}: {}", label, one_line(e, 120)));
                            continue;
                        }
                        _ => return Err(format!("generated file ({}) is not accepted on {}: {}", label, cfg.name(), o.brief())),
                    };
                    if ps[0].stages != e.expected_stages(cfg) {
                        return Err(format!("generated file ({}) on {}: stages `{}`", label, cfg.name(), one_line(&ps[0].stages, 120)));
                    }
                    if cfg == Cfg::Vk {
                        let decorated = ps[0].data.matches("5271").count();
                        if (decorated > 0) != (uv != Place::Vert || mat != Place::Vert) {
                            return Err(format!("generated file ({}): {} per-primitive decorations on Vulkan, placement {}", label, decorated, mesh_variant_label(mesh)));
                        }
                        if shape == 3 {
                            placements.push(format!("{} + {}: {} per-primitive decorations", e.mesh_entry(), PIXELS[pixel as usize], decorated));
                        }
                    }
                }
            }
        }
    }
    // role shapes: which (entry point, role) uses each target accepts alone (the type checker accepts every one; the
    // back-ends reject some). The two uses the classic shapes do not have but real files do (a [numthreads] kernel as
    // task shader, the task kernel as compute shader) must be accepted by the HLSL targets.
    let mut roles = Vec::new();
    for cfg in ALL_CFGS {
        let mut accepted = Vec::new();
        let mut rejected = Vec::new();
        for shape in ROLE_BASE..SHAPE_COUNT {
            let e = Elem { shape, dbg: 0, state: 0, pixel: 0, mesh: 0 };
            let (src, _) = build_file(&[(e, "P0".to_string(), 1)], 0, 0, None);
            let o = compile_out(&src, cfg, Mode::All, &mut acc);
            match &o {
                Out::Ok(ps) if ps.len() == 1 && ps[0].stages == e.expected_stages(cfg) => accepted.push(shape_name(shape)),
                Out::Err(_) => rejected.push(shape_name(shape)),
                _ => return Err(format!("generated file (role shape {}) on {}: {}", shape_name(shape), cfg.name(), o.brief())),
            }
        }
        if cfg != Cfg::Msl {
            for must in ["CsA-as-Task", "TsMain-as-Compute", "CsB-as-Task", "PsMain-as-Vertex"] {
                if !accepted.iter().any(|x| x == must) {
                    return Err(format!("role shape {} is not accepted on {}", must, cfg.name()));
                }
            }
        }
        roles.push(format!("{}: {} accepted, rejected by the back-end: [{}]", cfg.name(), accepted.len(), rejected.join(", ")));
    }
    rep.cov("role_shapes_accepted_alone", roles.into());
    rep.cov("vulkan_per_primitive_decorations_per_mesh_entry", placements.into());
    rep.cov("msl_verdict_per_shape", msl.into());
    Ok(())
}

pub fn run(ctx: &Ctx) -> i32 {
    let mut rep = Report::new("exploration");
    rep.rule = "every generated (file, target configuration) is compiled with the real rssl::compile in every selection mode (all, each defined name, unknown names, no-pipeline) and each definition once more with the other definitions deleted, and the no-pipeline result is compared with the one of the file with all definitions deleted; non-trivial = a pipeline result returned by pipeline_name=None that passed the count/order rule; distinct = different (target, data bytes, stages, metadata, pipeline state) tuple, plus distinct rejection messages and distinct duplicate-name outcomes".into();
    if let Err(e) = sanity(&mut rep) {
        eprintln!("machinery error: {}", e);
        return 2;
    }
    let dups = duplicate_cases(ctx);
    let r = run_par(ctx, dups.len() as u64, 8, |idx, acc| {
        check_case(&dups[idx as usize], acc);
        if idx % 997 == 0 {
            acc.sample(obj(vec![("space", "duplicate_names".into()), ("case", dups[idx as usize].describe().into())]));
        }
    });
    rep.absorb("duplicate_names", r);
    let sps = spaces(ctx);
    let mut files_total = 0u64;
    let mut listing = Vec::new();
    for sp in &sps {
        files_total += sp.files();
        listing.push(format!(
            "{}: {} definitions over {} elements x {} name families x {} layouts x {} placements per definition = {} files x {} targets",
            sp.name,
            sp.len,
            sp.alpha.len(),
            sp.schemes.len(),
            sp.layouts.len(),
            sp.ns_kinds.len(),
            sp.files(),
            sp.cfgs.len()
        ));
        let r = run_par(ctx, sp.total(), 8, |idx, acc| {
            let case = sp.case(idx);
            check_case(&case, acc);
            if idx % 9973 == 0 {
                acc.sample(obj(vec![("space", sp.name.as_str().into()), ("case", case.describe().into())]));
            }
        });
        rep.absorb(&sp.name, r);
    }
    rep.cov("files", Json::Int(files_total as i64 + dups.len() as i64 / 4));
    rep.cov("max_pipelines_per_file", Json::Int(ctx.pick(3, 4)));
    rep.cov("mesh_attr_entry_points", (1..=MESH_VARIANTS).map(|k| format!("MsA{} / MsPayA{}: {}", k, k, mesh_variant_label(k))).collect::<Vec<_>>().into());
    rep.cov("spaces", listing.into());
    rep.cov("element_alphabets", ALPHABETS_DOC.into());
    rep.assumptions = vec![
        "one fixed prelude (cbuffer + 6 resources in groups default/1/2, a static and two groupshared globals, 2 shared helpers, 8 entry points), its variant without the mesh/task entry points, and the mesh-attr variant (same globals and helpers; 2 pixel, 1 task and 6+6 mesh entry points that differ in the per-vertex / per-primitive placement of the attributes TEXCOORD and MATERIAL, each with structs of its own); other programs are outside the space".into(),
        "mesh-attr prelude: only mesh+pixel and task+mesh+pixel pipelines are defined in it; at most one attribute goes through a directly annotated primitives parameter (the other one is then per vertex); Msl rejects the pipelines whose pixel entry reads such an attribute (missing interpolator) and that rejection must reproduce like every back-end rejection".into(),
        "sequences are complete over the stated alphabet per length (see coverage.spaces); longer sequences use smaller alphabets (thinned by alphabet, deterministically, never by sampling)".into(),
        "\"the same pipeline with the other definitions deleted\" keeps the definition's name, text and position relative to the functions; the functions themselves stay".into(),
        "a pipeline is identified independently of the comparison by its stage list (stage kinds, entry names on HLSL, numthreads), which differs between the 5 shapes and the 2 pixel entries".into(),
        "a back-end rejection of a definition (Msl) must reproduce identically for the whole file (first rejected definition in source order) and for selection by name".into(),
        "files with duplicate pipeline names: only a clean outcome is demanded (an error, or results obeying the count/identity rule), because the property does not say which of the two a name selects".into(),
        "no-pipeline mode: never a panic, never a 'does not contain' error; if accepted exactly one result without stages and without pipeline state; a back-end rejection for other reasons (Msl: mesh intrinsics need a mesh pipeline) is allowed. Its content (data, stages, metadata, state, or the diagnostic) must equal that of the same file with every Pipeline block deleted ('whether or not other pipelines are defined'); not compared for files with duplicate names".into(),
        "role shapes: each of the 8 entry points of the full prelude in each of the 5 roles, the other stages of the pipeline keep their classic function (vertex VsMain, pixel PsMain/PsAlt, mesh MsMain); the type checker does not tie a function to a role, a back-end may reject a use and that rejection must reproduce like every back-end rejection; pipelines with two varied roles at once are outside the space".into(),
        "placements: a definition inside a namespace block sits in a block of its own named after the pipeline (Ns_<name>, or Outer::In_<name> when nested) and refers to the root-level entry points by their plain names; several definitions in one block and entry points declared inside namespaces are outside the space. Source order and selection by (unqualified) name are demanded of namespaced definitions as of root-level ones".into(),
        "unknown name: must be Err mentioning `does not contain the pipeline` and the name (documented text of compile.rs); in the larger spaces one of three unknown names per case, rotating".into(),
    ];
    finish(ctx, rep)
}

pub fn replay(ctx: &Ctx, body: &str) -> i32 {
    let mut cfg = None;
    let mut layout = 0u8;
    let mut fnset = 0u8;
    let mut elems = Vec::new();
    let mut names: Vec<String> = Vec::new();
    let mut undef: Vec<String> = Vec::new();
    let mut ns: Vec<u8> = Vec::new();
    let mut lines = body.lines();
    match lines.next() {
        Some(l) if l.trim() == "kind: file" => {}
        other => {
            eprintln!("machinery error: unknown replay kind {:?}", other);
            return 2;
        }
    }
    for l in lines {
        if l.starts_with("source:") {
            break;
        }
        if let Some(x) = l.strip_prefix("cfg: ") {
            cfg = Cfg::from_name(x.trim());
        } else if let Some(x) = l.strip_prefix("layout: ") {
            layout = x.trim().parse().unwrap_or(0);
        } else if let Some(x) = l.strip_prefix("fnset: ") {
            fnset = x.trim().parse().unwrap_or(0);
        } else if let Some(x) = l.strip_prefix("ns: ") {
            ns = x.split(',').filter_map(|s| s.trim().parse().ok()).collect();
        } else if let Some(x) = l.strip_prefix("elems: ") {
            for e in x.split(',').filter(|s| !s.trim().is_empty()) {
                match Elem::parse(e) {
                    Some(e) => elems.push(e),
                    None => {
                        eprintln!("machinery error: bad element {:?}", e);
                        return 2;
                    }
                }
            }
        } else if let Some(x) = l.strip_prefix("names: ") {
            names = x.split(',').filter(|s| !s.trim().is_empty()).map(|s| s.trim().to_string()).collect();
        } else if let Some(x) = l.strip_prefix("undef: ") {
            undef = x.split('|').map(|s| s.to_string()).collect();
        } else if l.starts_with("undef:") {
            undef = vec![String::new()];
        }
    }
    let cfg = match cfg {
        Some(c) => c,
        None => {
            eprintln!("machinery error: replay has no cfg");
            return 2;
        }
    };
    if names.len() != elems.len() {
        eprintln!("machinery error: {} names for {} elements", names.len(), elems.len());
        return 2;
    }
    if fnset > 2 || elems.iter().any(|e| !e.fits(fnset)) {
        eprintln!("machinery error: an element does not fit prelude {}", fnset);
        return 2;
    }
    ns.resize(elems.len(), 0);
    if ns.iter().any(|x| *x >= NS_KINDS) {
        eprintln!("machinery error: bad placement");
        return 2;
    }
    let case = Case { elems, names, layout, fnset, cfg, undef, ns };
    if std::env::var("C17_DUMP").is_ok() {
        let defs = case.defs();
        let (src, _) = build_file(&defs, case.layout, case.fnset, None);
        println!("{}", src);
        let mut acc = Acc::default();
        let mut modes = vec![Mode::All, Mode::NoPipeline];
        for n in &case.names {
            modes.push(Mode::Named(n.clone()));
        }
        for m in modes {
            println!("######## mode {:?}", m);
            match compile_out(&src, cfg, m, &mut acc) {
                Out::Ok(ps) => {
                    for p in ps {
                        println!("== data ==\n{}\n== stages ==\n{}== metadata ==\n{}\n== state ==\n{}", p.data, p.stages, p.metadata, p.state);
                    }
                }
                o => println!("{}", o.brief()),
            }
        }
    }
    let mut acc = Acc::default();
    check_case(&case, &mut acc);
    finish_replay(ctx, &acc)
}

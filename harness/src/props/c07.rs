//! C07 — compilation is deterministic.  (E3: choice-point DFS with a deviation bound.)
//!
//! The only schedule in this single-threaded library is the iteration order of std HashMap/HashSet. Hook H2 replaces
//! those containers by ones whose every iterating operation asks an installed chooser for a permutation. The explorer
//! answers 0 (the fixed order) by default and explores every execution with ≤ 1 (quick) / ≤ 2 (thorough) deviating
//! choice points, each deviation ranging over all alternative orders (all n!−1 for n ≤ 4). Every execution runs to
//! completion and its complete result (sources, stages, metadata, pipeline state, or the diagnostic) must be
//! byte-identical to the default-order run.

use crate::engine::*;
use crate::json::{Json, obj};
use crate::util::*;
use rssl::text::verif_collections as vc;
use std::cell::RefCell;
use std::collections::BTreeMap;
use std::rc::Rc;

#[derive(Clone)]
pub struct Input {
    pub name: String,
    pub src: String,
    pub mode: Mode,
    /// compile with validate_layout_consistency(true)
    pub validate: bool,
    /// defines passed through CompileArgs
    pub defines: Vec<(String, String)>,
}

#[derive(Default)]
struct ExecState {
    prefix: Vec<usize>,
    /// (n elements, site) of every choice point reached, with the answer given
    points: Vec<(usize, String, usize)>,
    diverged: Option<String>,
    expected_sites: Vec<(usize, String)>,
}

pub struct Exec {
    pub points: Vec<(usize, String, usize)>,
    pub result: String,
}

/// Run one compile with the choices in `prefix` (then 0). `expected` = the choice points recorded when the prefix was
/// explored; a mismatch while replaying the prefix is a machinery error (uncontrolled nondeterminism).
pub fn run_exec(input: &Input, cfg: Cfg, prefix: &[usize], expected: &[(usize, String)]) -> Result<Exec, String> {
    let st = Rc::new(RefCell::new(ExecState { prefix: prefix.to_vec(), expected_sites: expected.to_vec(), ..Default::default() }));
    let st2 = st.clone();
    vc::set_chooser(Some(Box::new(move |n, loc| {
        let mut s = st2.borrow_mut();
        let i = s.points.len();
        let site = format!("{}:{}", loc.file().trim_start_matches("/repo/"), loc.line());
        let site = match site.find("/repo/") {
            Some(p) => site[p + 6..].to_string(),
            None => site,
        };
        // into_iter called from inside std (Vec::extend, HashSet::extend, collect): the std source line is not a stable name
        let site = if site.starts_with("/rustc/") { format!("std-internal:{}", site.rsplit('/').next().unwrap_or("").split(':').next().unwrap_or("")) } else { site };
        if i < s.expected_sites.len() && (s.expected_sites[i].0 != n || s.expected_sites[i].1 != site) && s.diverged.is_none() {
            s.diverged = Some(format!("choice point #{} is ({}, {}) but ({}, {}) was recorded for this prefix", i, n, site, s.expected_sites[i].0, s.expected_sites[i].1));
        }
        let mut a = if i < s.prefix.len() { s.prefix[i] } else { 0 };
        if a >= vc::order_count(n) {
            if s.diverged.is_none() {
                s.diverged = Some(format!("choice {} out of range at point #{} (n={})", a, i, n));
            }
            a = 0;
        }
        s.points.push((n, site, a));
        a
    })));
    let r = guard(|| {
        let files = [("main.rssl", input.src.as_str())];
        let defines: Vec<(&str, &str)> = input.defines.iter().map(|(k, v)| (k.as_str(), v.as_str())).collect();
        Job { files: &files, entry: "main.rssl", defines: &defines, cfg, mode: input.mode.clone(), validate_layout: input.validate }.run()
    });
    vc::set_chooser(None);
    let s = st.borrow();
    if let Some(d) = &s.diverged {
        return Err(d.clone());
    }
    if s.points.len() < prefix.len() {
        return Err(format!("only {} choice points reached while replaying a prefix of {}", s.points.len(), prefix.len()));
    }
    let result = match r {
        Ok(res) => render_result(&res),
        Err(p) => format!("PANIC {}", p.signature()),
    };
    Ok(Exec { points: s.points.clone(), result })
}

fn first_diff(a: &str, b: &str) -> String {
    for (la, lb) in a.lines().zip(b.lines()) {
        if la != lb {
            return format!("`{}` vs `{}`", one_line(la.trim(), 120), one_line(lb.trim(), 120));
        }
    }
    format!("lengths {} vs {}", a.len(), b.len())
}

struct Explorer<'a> {
    input: &'a Input,
    cfg: Cfg,
    reference: &'a str,
    bound: usize,
    ctx: &'a Ctx,
}

impl<'a> Explorer<'a> {
    /// explore the subtree below `prefix` (which already contains `used` deviations, the last at prefix.len()-1)
    fn explore(&self, prefix: Vec<usize>, expected: Vec<(usize, String)>, used: usize, acc: &mut Acc) {
        acc.evals += 1;
        let x = match run_exec(self.input, self.cfg, &prefix, &expected) {
            Ok(x) => x,
            Err(e) => {
                acc.violation(Violation {
                    signature: "nondeterministic|choice-points-differ-between-runs".into(),
                    detail: format!("{} [{}]: {}", self.input.name, self.cfg.name(), e),
                    replay: replay_text(self.input, self.cfg, &prefix),
                });
                return;
            }
        };
        for (n, site, a) in &x.points {
            acc.max(&format!("max_n {}", site), *n as u64);
            if *a != 0 {
                acc.count(&format!("deviations_at {}", site));
            }
        }
        acc.outcome(&(self.input.name.clone(), self.cfg, prefix.clone()));
        if x.result != self.reference {
            let devs: Vec<String> = x.points.iter().filter(|p| p.2 != 0).map(|p| p.1.clone()).collect();
            acc.violation(Violation {
                signature: format!("order-dependent|{}", devs.last().cloned().unwrap_or_default()),
                detail: format!(
                    "{} [{}]: iterating {} in another order changes the result: {}",
                    self.input.name,
                    self.cfg.name(),
                    devs.join(" and "),
                    first_diff(self.reference, &x.result)
                ),
                replay: replay_text(self.input, self.cfg, &prefix),
            });
            return;
        }
        if used >= self.bound || self.ctx.out_of_time() {
            if used < self.bound {
                acc.count("subtrees_cut_by_time_budget");
            }
            return;
        }
        for i in prefix.len()..x.points.len() {
            let n = x.points[i].0;
            for alt in 1..vc::order_count(n) {
                let mut p: Vec<usize> = x.points[..i].iter().map(|pt| pt.2).collect();
                p.push(alt);
                let exp: Vec<(usize, String)> = x.points[..=i].iter().map(|pt| (pt.0, pt.1.clone())).collect();
                self.explore(p, exp, used + 1, acc);
            }
        }
    }
}

fn replay_text(input: &Input, cfg: Cfg, prefix: &[usize]) -> String {
    format!(
        "kind: schedule\nvalidate: {}\ndefines: {}\ncfg: {}\nmode: {}\nchoices: {}\nname: {}\n=====\n{}",
        input.validate,
        input.defines.iter().map(|(k, v)| format!("{}\u{1}{}", k, v)).collect::<Vec<_>>().join("\u{2}"),
        cfg.name(),
        match &input.mode {
            Mode::All => "all".to_string(),
            Mode::NoPipeline => "nopipe".to_string(),
            Mode::Named(n) => format!("named {}", n),
        },
        prefix.iter().map(|c| c.to_string()).collect::<Vec<_>>().join(","),
        input.name,
        input.src
    )
}

// ---------------------------------------------------------------------------------------------
// inputs: chosen so that every hash container holds ≥ 2 elements somewhere

pub fn inputs() -> Vec<Input> {
    let mut v = Vec::new();
    let mut add = |name: &str, mode: Mode, src: &str| v.push(Input { name: name.to_string(), src: src.to_string(), mode, validate: name.starts_with("layout-"), defines: Vec::new() });
    add(
        "names-overloads-namespaces",
        Mode::NoPipeline,
        r#"
namespace A { float f(float x) { return x; } float f(int x) { return 1.0; } float g(float x) { return x + 1.0; } }
namespace B { float f(float x) { return x * 2.0; } float g(float x) { return x; } namespace A { float f(float x) { return x; } } }
float f(float x) { return A::f(x) + B::f(x) + B::A::f(x) + A::f(1) + A::g(x) + B::g(x); }
float f(int x) { return 2.0; }
float f(uint x) { return 3.0; }
struct S { float a; float f() { return a; } float g() { return a + 1.0; } };
struct T { float a; float f() { return a; } float g() { return a + 1.0; } };
float h(S s, T t) { float f_0 = s.f(); float f_1 = t.g(); float x = f_0; { float x = f_1; f_0 = x; } return f(f_0) + f(1u) + s.g() + t.f(); }
"#,
    );
    add(
        "locals-vs-globals-suffixes",
        Mode::NoPipeline,
        r#"
static float x = 1.0;
static float x_0 = 2.0;
static float y = 3.0;
float f(float y_0) { float x_1 = x + x_0; float z = y + y_0; { float z = x_1; x_1 = z; } return x_1 + z; }
float g(float x) { float y = x; return y + ::x + ::y; }
template<typename T> T id(T v) { return v; }
float h() { return id<float>(1.0) + id<int>(2) + id<uint>(3u) + id(4.0); }
enum E { A, B, C };
enum F { X = 2, Y, Z };
int k(E e, F f) { return (int)e + (int)f + (int)A + (int)Z; }
"#,
    );
    add(
        "statics-threading-chain",
        Mode::All,
        r#"
static float s_a = 1.0;
static float s_b = 2.0;
static float s_c = 3.0;
groupshared float gs_d[4];
groupshared float gs_e[4];
RWByteAddressBuffer g_out;
ByteAddressBuffer g_in;
StructuredBuffer<float> g_sb;
float leaf1() { s_a += 1.0; return s_a + gs_d[0]; }
float leaf2() { s_b += s_c; return s_b + g_in.Load<float>(0); }
float mid() { return leaf1() + leaf2() + gs_e[1] + g_sb[0]; }
float top() { s_c = mid(); return s_c + s_a; }
[numthreads(4, 1, 1)]
void CSMAIN(uint3 id : SV_DispatchThreadID) { gs_d[id.x] = 0.0; gs_e[id.x] = 1.0; g_out.Store<float>(0, top()); }
Pipeline P { ComputeShader = CSMAIN; }
"#,
    );
    add(
        "buffer-addresses-two-groups",
        Mode::All,
        r#"
const BufferAddress g_a0;
const BufferAddress g_a1;
const RWBufferAddress g_a2;
const BufferAddress g_b0 : register(space1);
const RWBufferAddress g_b1 : register(space1);
const BufferAddress g_c0 : register(space2);
const Texture2D g_t0;
const Texture2D g_t1 : register(space1);
RWByteAddressBuffer g_out : register(space2);
[numthreads(8, 1, 1)]
void CSMAIN(uint3 id : SV_DispatchThreadID) {
    uint v = g_a0.Load<uint>(0) + g_a1.Load<uint>(4) + g_b0.Load<uint>(0) + g_c0.Load<uint>(8);
    g_a2.Store<uint>(0, v); g_b1.Store<uint>(0, v); g_out.Store<uint>(0, v);
    g_t0; g_t1;
}
Pipeline P { ComputeShader = CSMAIN; }
"#,
    );
    add(
        "helpers-object-kinds",
        Mode::All,
        r#"
struct Data { float4 a; uint b; };
const ByteAddressBuffer g_bab;
const RWByteAddressBuffer g_rwbab;
const StructuredBuffer<Data> g_sb;
const RWStructuredBuffer<Data> g_rwsb;
const Buffer<float4> g_tb;
const RWBuffer<float4> g_rwtb;
const Texture2D<float4> g_tex;
const RWTexture2D<float4> g_rwtex;
const Texture2DArray<float4> g_texarr;
const Texture3D<float4> g_tex3;
[numthreads(8, 8, 1)]
void CSMAIN(uint3 id : SV_DispatchThreadID) {
    uint w; uint h; uint d; uint n;
    g_tex.GetDimensions(w, h);
    g_rwtex.GetDimensions(w, h);
    g_texarr.GetDimensions(w, h, d);
    g_tex3.GetDimensions(w, h, d);
    g_sb.GetDimensions(n, d);
    g_bab.GetDimensions(n);
    g_tb.GetDimensions(n);
    Data x = g_sb[id.x];
    Data y = g_bab.Load<Data>(0);
    uint2 u2 = g_bab.Load2(0); uint3 u3 = g_bab.Load3(0); uint4 u4 = g_bab.Load4(0);
    g_rwbab.Store<Data>(0, x); g_rwbab.Store2(0, u2); g_rwbab.Store3(0, u3); g_rwbab.Store4(0, u4);
    g_rwsb[id.x] = y;
    g_rwtb[id.x] = g_tb[id.x] + g_tb.Load(id.x);
    g_rwtex[id.xy] = g_tex.Load(int3(id.xy, 0)) + g_texarr.Load(int4(id.xy, 0, 0)) + g_tex3.Load(int4(id.xyz, 0));
    uint orig;
    g_rwbab.InterlockedAdd(0, 1u, orig);
    g_rwbab.InterlockedOr(0, 1u, orig);
    g_rwbab.InterlockedMax(0, 1u, orig);
}
Pipeline P { ComputeShader = CSMAIN; }
"#,
    );
    add(
        "vertex-pixel-interpolators",
        Mode::All,
        r#"
const Texture2D g_input;
const SamplerState g_sampler = StaticSampler { Filter = MIN_MAG_MIP_LINEAR; AddressU = Clamp; AddressV = Clamp; };
const SamplerState g_sampler2 = StaticSampler { Filter = MIN_MAG_MIP_POINT; AddressU = Wrap; AddressV = Wrap; };
cbuffer Constants { float4x4 g_mvp; float4 g_tint; }
cbuffer Other : register(space1) { float4 g_other; float g_scale; }
struct VA { float wet : WETNESS; uint mat : MATERIAL; float3 nrm : NORMAL; };
void VSMAIN(uint vid : SV_VertexID, float3 pos : POSITION, out float4 o_pos : SV_Position, out float2 o_uv : TEXCOORD, out float4 o_col : COLOR, out VA o_v) {
    o_pos = mul(g_mvp, float4(pos, 1.0)); o_uv = pos.xy * g_scale; o_col = g_tint + g_other; o_v.wet = 0; o_v.mat = vid; o_v.nrm = pos;
}
float4 PSMAIN(float4 pos : SV_Position, float2 uv : TEXCOORD, float4 col : COLOR, VA v) : SV_Target0 {
    return g_input.Sample(g_sampler, uv) + g_input.Sample(g_sampler2, uv) * col * v.wet + float4(v.nrm, 1.0);
}
Pipeline G { VertexShader = VSMAIN; PixelShader = PSMAIN; RenderTargetFormat0 = "R8G8B8A8_UNORM"; }
"#,
    );
    add(
        "two-pipelines-shared-resources",
        Mode::All,
        r#"
const Texture2D g_a;
const Texture2D g_b : register(space1);
const RWTexture2D<float4> g_o;
const RWTexture2D<float4> g_p : register(space1);
static uint s_n = 0;
static uint s_m = 1;
void bump() { s_n += s_m; }
[numthreads(8, 8, 1)] void CS1(uint3 id : SV_DispatchThreadID) { bump(); g_o[id.xy] = g_a.Load(int3(id.xy, 0)) * s_n; }
[numthreads(4, 4, 4)] void CS2(uint3 id : SV_DispatchThreadID) { bump(); bump(); g_p[id.xy] = g_b.Load(int3(id.xy, 0)) * s_m; g_o[id.xy] = float4(0, 0, 0, 0); }
Pipeline P1 { ComputeShader = CS1; }
Pipeline P2 { ComputeShader = CS2; DefaultBindGroup = 1; }
"#,
    );
    add(
        "struct-methods-templates",
        Mode::NoPipeline,
        r#"
struct V { float x; float y; float len2() { return x * x + y * y; } float dot(V o) { return x * o.x + y * o.y; } void scale(float s) { x *= s; y *= s; } };
template<typename T> T add(T a, T b) { return a + b; }
template<typename T> T mul2(T a) { return add(a, a); }
float use(V a, V b) { a.scale(2.0); return a.len2() + a.dot(b) + add(1.0, 2.0) + (float)add(1, 2) + (float)mul2(3u) + mul2(0.5) + (float)mul2(2); }
void outs(in float a, out float b, inout float c) { b = a; c += a; }
float callouts() { float p = 1.0; float q; float r = 2.0; outs(p, q, r); outs(q, p, r); return p + q + r; }
"#,
    );
    // user names that a backend must rename (reserved there) next to user names that look like generated ones
    add(
        "reserved-names-next-to-suffixed-names",
        Mode::All,
        r#"
float main(float x) { return x + 1.0; }
float main_0(float x) { return x + 2.0; }
float and(float x) { return x + 3.0; }
float and_0(float x) { return x + 4.0; }
float kernel(float x) { return x + 5.0; }
float kernel_0(float x) { return x + 6.0; }
float kernel_1(float x) { return x + 7.0; }
static float vertex = 1.0;
static float vertex_0 = 2.0;
struct fragment { float a; };
struct fragment_0 { float a; };
RWByteAddressBuffer g_output : register(u0);
[numthreads(1, 1, 1)]
void entry() {
    fragment f; f.a = vertex; fragment_0 g; g.a = vertex_0;
    g_output.Store(0, asuint(main(1.0) + main_0(1.0) + and(1.0) + and_0(1.0) + kernel(f.a) + kernel_0(g.a) + kernel_1(1.0)));
}
Pipeline Test { ComputeShader = entry; }
"#,
    );
    // layout validation with several failing element types: the diagnostic must not depend on iteration order
    add(
        "layout-several-mismatching-types",
        Mode::All,
        r#"
struct A { float3 v; float s; };
struct B { float3 v; uint s; };
struct C { half3 v; half s; };
struct D { float2 a; float b; };
struct E { D d; float c; };
StructuredBuffer<A> g_a;
RWStructuredBuffer<B> g_b;
StructuredBuffer<C> g_c;
StructuredBuffer<E> g_e;
ByteAddressBuffer g_raw;
[numthreads(1, 1, 1)]
void entry() { g_b[0].v = g_a[0].v + (float3)g_c[0].v + g_raw.Load<A>(0).v + g_raw.Load<E>(0).d.b; g_e[0]; }
Pipeline Test { ComputeShader = entry; }
"#,
    );
    add(
        "layout-all-consistent-types",
        Mode::All,
        r#"
struct A { float4 v; float2 s; float2 t; };
struct B { uint a; uint b; };
StructuredBuffer<A> g_a;
RWStructuredBuffer<B> g_b;
ByteAddressBuffer g_raw;
[numthreads(1, 1, 1)]
void entry() { g_b[0].a = (uint)g_a[0].v.x + g_raw.Load<B>(0).b; }
Pipeline Test { ComputeShader = entry; }
"#,
    );
    // rejected by a back end / late pass with several candidate culprits: the reported one must not depend on order
    add(
        "rejected-msl-several-unsupported-intrinsics",
        Mode::All,
        r#"
RWByteAddressBuffer g_out;
uint helper_a(uint v) { return WaveActiveCountBits(v > 1u) + WavePrefixCountBits(v > 2u); }
[numthreads(32, 1, 1)]
void CSMAIN(uint3 id : SV_DispatchThreadID) {
    bool e = WaveActiveAllEqual(id.x);
    uint4 b = WaveActiveBallot(id.x > 3u);
    uint s = WavePrefixSum(id.x) + WaveActiveSum(id.x) + WaveReadLaneFirst(id.x) + WaveActiveBitOr(id.x) + helper_a(id.x);
    double d = (double)id.x;
    g_out.Store(0, s + b.x + (e ? 1u : 0u) + (uint)d);
}
Pipeline P { ComputeShader = CSMAIN; }
"#,
    );
    add(
        "rejected-enum-range-several-outliers",
        Mode::NoPipeline,
        "enum E { A = 4294967296, B = 12884901888, C = -21474836480, D = 5, F = 8589934592 };\nint f(E e) { return (int)e; }\n",
    );
    add(
        "rejected-several-undefined-names-and-types",
        Mode::NoPipeline,
        "struct S { float a; };\nfloat f(S s) { return s.b + s.c + undefined_one + undefined_two; }\nUnknownType g(OtherUnknown x) { return x; }\n",
    );
    // names that look like the generators' own temporaries / internal prefixes, with out / inout parameters (the MSL
    // generator synthesises wrapper parameters and locals for them): repeated compilation must not number them anew
    add(
        "generator-internal-looking-names",
        Mode::All,
        r#"
static float s_acc = 0.0;
void whole(out float p, float __p, inout float q, float __q) { p = __p + s_acc; q += __q; s_acc += 1.0; }
void part(inout float3 v, float __v, out float2 __w, float __whole) { v.x += __v; __w = v.xy * __whole; }
float __tmp(float __x) { float __y = __x; float _0 = __y; float x_0 = _0; return x_0; }
RWByteAddressBuffer g_out;
[numthreads(1, 1, 1)]
void CSMAIN() {
    float a; float b = 1.0; float3 c = float3(1.0, 2.0, 3.0); float2 d;
    whole(a, 2.0, b, 3.0); whole(b, a, a, b); part(c, a, d, b); part(c, c.x, c.xy, c.z);
    g_out.Store(0, asuint(a + b + c.x + d.y + __tmp(1.0)));
}
Pipeline P { ComputeShader = CSMAIN; }
"#,
    );
    for (name, src) in [
        ("rejected-undefined-name", "static float a = 1.0;\nstatic float b = 2.0;\nfloat f() { return a + b + c; }\n"),
        ("rejected-no-matching-overload", "float f(float a, int b) { return a; }\nfloat f(int a, float b) { return b; }\nfloat f(bool3 a, bool3 b) { return 0.0; }\nfloat g() { return f(1, 1); }\n"),
        ("rejected-ambiguous-overload-2", "float pick(int a, int b) { return 1.0; }\nfloat pick(uint a, uint b) { return 2.0; }\nfloat g() { return pick(0.0, 0.0); }\n"),
        ("rejected-ambiguous-overload-3", "float pick(int a) { return 1.0; }\nfloat pick(uint a) { return 2.0; }\nfloat pick(bool a) { return 3.0; }\nfloat pick(half a) { return 4.0; }\nfloat g() { return pick(0.0L); }\n"),
        ("rejected-ambiguous-method", "struct S { float m(int a) { return 1.0; } float m(uint a) { return 2.0; } float m(half a) { return 3.0; } };\nfloat g(S s) { return s.m(0.0); }\n"),
        ("rejected-redefinition", "namespace N { float a; float b; }\nnamespace N { float c; float a; }\n"),
        ("rejected-const-write", "struct S { float a; float b; };\nvoid f(const S s) { s.a = 1.0; }\n"),
        ("rejected-parse", "float f() { return (1.0 + ; }\n"),
    ] {
        add(name, Mode::NoPipeline, src);
    }
    // diagnostics located inside pasted tokens / macro expansions / included text
    for (name, src) in [
        ("rejected-undeclared-pasted-identifier", "#define CAT(a, b) a ## b\nfloat f() { return CAT(un, known) + CAT(other, name); }\n"),
        ("rejected-bad-paste", "#define CAT(a, b) a ## b\nfloat f() { return CAT(+, ;) 1.0; }\n"),
        ("rejected-in-second-paste", "#define CAT(a, b) a ## b\nfloat CAT(g, 1)() { return 1.0; }\nfloat f() { return CAT(g, 1)() + CAT(g, 2)(); }\n"),
    ] {
        add(name, Mode::NoPipeline, src);
    }
    // the same user semantic spelled with different case in two stages (keys of the interpolator maps)
    add(
        "interpolator-semantics-differing-in-case",
        Mode::All,
        r#"
void VSMAIN(uint vid : SV_VertexID, out float4 o_pos : SV_Position, out float2 o_uv : TexCoord, out float4 o_colour : Colour, out float o_n : NORMAL) {
    o_pos = float4(0, 0, 0, 1); o_uv = float2(0.5f, 0.5f); o_colour = float4(1, 1, 1, 1); o_n = 1.0;
}
float4 PSMAIN(float2 i_uv : TEXCOORD, float4 i_colour : COLOUR, float i_n : Normal) : SV_Target0 { return float4(i_uv, 0, 0) + i_colour + i_n; }
Pipeline P { VertexShader = VSMAIN; PixelShader = PSMAIN; }
"#,
    );
    // a call chain of eight functions between the entry point and the functions that touch the resources / statics
    // (a transitive closure computed in passes needs as many passes as the hash order makes it need)
    add(
        "deep-call-chain",
        Mode::All,
        r#"
RWByteAddressBuffer g_out;
ByteAddressBuffer g_in;
Texture2D<float4> g_tex;
static uint s_count = 0;
uint leaf_a(uint x) { s_count += 1; return g_in.Load(x); }
uint leaf_b(uint x) { return (uint)g_tex.Load(int3(0, 0, 0)).x + x; }
uint c7(uint x) { return leaf_a(x) + 7; }
uint c6(uint x) { return c7(x) + leaf_b(x); }
uint c5(uint x) { return c6(x) + 5; }
uint c4(uint x) { return c5(x) + 4; }
uint c3(uint x) { return c4(x) + 3; }
uint c2(uint x) { return c3(x) + 2; }
uint c1(uint x) { return c2(x) + 1; }
[numthreads(1, 1, 1)]
void CSMAIN(uint3 id : SV_DispatchThreadID) { g_out.Store(0, c1(id.x) + s_count); }
Pipeline P { ComputeShader = CSMAIN; }
"#,
    );
    // define lists handed to compile(): several entries, one name under two spellings, several invalid entries
    let prog = "#ifndef SCALE\n#define SCALE 1.0\n#endif\nfloat f(float x) { return x * SCALE + OFFSET + BIAS; }\n";
    let lists: [(&str, &[(&str, &str)]); 5] = [
        ("defines-three", &[("SCALE", "0.5"), ("OFFSET", "2.0"), ("BIAS", "3.0")]),
        ("defines-repeated-name", &[("SCALE", "0.5"), ("OFFSET", "2.0"), ("SCALE", "0.25"), ("BIAS", "1.0")]),
        ("defines-object-and-function-like-spelling", &[("SCALE", "0.5"), ("SCALE(x)", "(x*2.0)"), ("OFFSET", "2.0"), ("BIAS", "1.0")]),
        ("defines-two-invalid", &[("1BAD", "1"), ("OFFSET", "2.0"), ("2BAD(", "2"), ("BIAS", "1.0")]),
        ("defines-referring-to-each-other", &[("OFFSET", "BIAS"), ("BIAS", "SCALE"), ("SCALE", "4.0")]),
    ];
    for (name, l) in lists {
        v.push(Input { name: name.to_string(), src: prog.to_string(), mode: Mode::NoPipeline, validate: false, defines: l.iter().map(|(a, b)| (a.to_string(), b.to_string())).collect() });
    }
    // the repository's own basic inputs
    let dir = format!("{}/tests/basic", repo_root());
    if let Ok(rd) = std::fs::read_dir(&dir) {
        let mut files: Vec<_> = rd.flatten().map(|e| e.path()).filter(|p| p.extension().map(|e| e == "rssl").unwrap_or(false)).collect();
        files.sort();
        for p in files {
            if let Ok(src) = std::fs::read_to_string(&p) {
                let name = format!("tests/basic/{}", p.file_name().unwrap().to_string_lossy());
                v.push(Input { name: name.clone(), src: src.clone(), mode: Mode::All, validate: false, defines: Vec::new() });
                v.push(Input { name: format!("{}+layout-validation", name), src, mode: Mode::All, validate: true, defines: Vec::new() });
            }
        }
    }
    v
}

// ---------------------------------------------------------------------------------------------

pub fn run(ctx: &Ctx) -> i32 {
    let mut rep = Report::new("model_checking");
    let bound = ctx.pick(1usize, 2usize);
    rep.rule = format!(
        "E3: every execution with at most {} deviating hash-iteration choice points (each over all alternative orders) per (input, target); an execution is one complete compile under a controlled iteration order; distinct = distinct (input, target, choice list)",
        bound
    );
    let ins = inputs();
    let jobs: Vec<(usize, Cfg)> = (0..ins.len()).flat_map(|i| ALL_CFGS.iter().map(move |c| (i, *c))).collect();

    // reference runs (all choices 0), run twice to check that the harness owns every choice
    let refs = std::sync::Mutex::new(BTreeMap::<usize, (String, Vec<(usize, String, usize)>)>::new());
    let r = run_par(ctx, jobs.len() as u64, 1, |idx, acc| {
        let (i, cfg) = jobs[idx as usize];
        acc.evals += 2;
        let a = run_exec(&ins[i], cfg, &[], &[]);
        let b = run_exec(&ins[i], cfg, &[], &[]);
        match (a, b) {
            (Ok(a), Ok(b)) => {
                if a.result != b.result || a.points != b.points {
                    acc.violation(Violation {
                        signature: "nondeterministic|same-order-twice".into(),
                        detail: format!("{} [{}]: two runs with the same iteration order differ: {}", ins[i].name, cfg.name(), first_diff(&a.result, &b.result)),
                        replay: replay_text(&ins[i], cfg, &[]),
                    });
                }
                if a.result.starts_with("PANIC") {
                    acc.count("reference_runs_that_panic(reported under C08)");
                }
                refs.lock().unwrap().insert(idx as usize, (a.result, a.points));
            }
            (Err(e), _) | (_, Err(e)) => acc.violation(Violation {
                signature: "nondeterministic|choice-points-differ-between-runs".into(),
                detail: format!("{} [{}]: {}", ins[i].name, cfg.name(), e),
                replay: replay_text(&ins[i], cfg, &[]),
            }),
        }
    });
    rep.absorb("reference_runs", r);
    let refs = refs.into_inner().unwrap();

    // first-level tasks: (job, choice point, alternative)
    let mut tasks: Vec<(usize, usize, usize)> = Vec::new();
    let mut points_total = 0u64;
    let mut per_site: BTreeMap<String, (u64, u64)> = BTreeMap::new();
    for (j, (_res, points)) in &refs {
        for (i, (n, site, _)) in points.iter().enumerate() {
            points_total += 1;
            let e = per_site.entry(site.clone()).or_insert((0, 0));
            e.0 += 1;
            e.1 = e.1.max(*n as u64);
            for alt in 1..vc::order_count(*n) {
                tasks.push((*j, i, alt));
            }
        }
    }
    // simplest first: fewer elements, earlier points
    tasks.sort_by_key(|(j, i, alt)| (*i, *alt, *j));
    let r = run_par(ctx, tasks.len() as u64, 1, |idx, acc| {
        let (j, i, alt) = tasks[idx as usize];
        let (ii, cfg) = jobs[j];
        let (reference, points) = &refs[&j];
        let mut prefix: Vec<usize> = vec![0; i];
        prefix.push(alt);
        let exp: Vec<(usize, String)> = points[..=i].iter().map(|p| (p.0, p.1.clone())).collect();
        let ex = Explorer { input: &ins[ii], cfg, reference, bound, ctx };
        ex.explore(prefix, exp, 1, acc);
        if idx % 997 == 0 {
            acc.sample(obj(vec![
                ("input", ins[ii].name.as_str().into()),
                ("target", cfg.name().into()),
                ("deviation", format!("choice point #{} ({} elements at {}) takes order #{}", i, points[i].0, points[i].1, alt).into()),
            ]));
        }
    });
    let schedules = r.acc.evals;
    rep.absorb("deviation_subtrees", r);

    // ---- hash functions: the result does not depend on the hash function of the containers (lookups of key types
    // whose Hash disagrees with their Eq do; every iteration order also changes at once)
    {
        let r = run_par(ctx, jobs.len() as u64 * 2, 1, |idx, acc| {
            let (i, cfg) = jobs[(idx / 2) as usize];
            let mode = 1 + (idx % 2) as u8;
            let Some((reference, _)) = refs.get(&((idx / 2) as usize)) else { return };
            acc.evals += 1;
            vc::set_hash_mode(mode);
            let x = run_exec(&ins[i], cfg, &[], &[]);
            vc::set_hash_mode(0);
            match x {
                Ok(x) => {
                    if &x.result != reference {
                        acc.violation(Violation {
                            signature: format!("hash-function-dependent|{}", if mode == 1 { "all-keys-collide" } else { "second-hash-function" }),
                            detail: format!("{} [{}]: with {} the result differs from the default hash function: {}", ins[i].name, cfg.name(), if mode == 1 { "a hash function under which all keys collide (lookups rely on Eq alone)" } else { "a second hash function" }, first_diff(reference, &x.result)),
                            replay: format!("hashmode: {}\n{}", mode, replay_text(&ins[i], cfg, &[])),
                        });
                    } else {
                        acc.outcome(&("hash-mode", mode, ins[i].name.clone(), cfg));
                    }
                }
                Err(e) => acc.count(&format!("hash_mode_run_diverged|{}", one_line(&e, 40))),
            }
        });
        rep.absorb("hash_functions", r);
    }

    // ---- history: a compile is a pure function of its inputs, also after other compiles on the same thread
    {
        let hs = history_inputs();
        let reps: Vec<usize> = if ctx.quick() { vec![1, 40] } else { vec![1, 2, 3, 17, 40, 200] };
        let nh = hs.len() as u64;
        let nr = reps.len() as u64;
        let r = run_par(ctx, nh * nh * nr * 4, 4, |idx, acc| {
            let mut d = Vec::new();
            decode(idx, &[4, nr, nh, nh], &mut d);
            let cfg = ALL_CFGS[d[0] as usize];
            check_history(&hs[d[3] as usize], reps[d[1] as usize], &hs[d[2] as usize], cfg, acc);
        });
        rep.cov("history_inputs", Json::Int(hs.len() as i64));
        rep.cov("history_repetitions", Json::Arr(reps.iter().map(|n| Json::Int(*n as i64)).collect()));
        rep.absorb("history_A^n_then_B", r);
    }

    let sites: Vec<Json> = per_site
        .iter()
        .map(|(s, (reached, maxn))| obj(vec![("site", s.as_str().into()), ("times_reached_in_reference_runs", (*reached).into()), ("max_elements", (*maxn).into())]))
        .collect();
    rep.cov("choice_sites", Json::Arr(sites));
    rep.cov("inputs", Json::Int(ins.len() as i64));
    rep.cov("input_target_pairs", Json::Int(jobs.len() as i64));
    rep.cov("choice_points_in_reference_runs", Json::Int(points_total as i64));
    rep.cov("deviation_bound_completed", Json::Int(if rep.exhaustive && rep.acc.counters.get("subtrees_cut_by_time_budget").is_none() { bound as i64 } else { (bound - 1).max(1) as i64 }));
    rep.cov("states", Json::Int((schedules + jobs.len() as u64) as i64));
    rep.cov("transitions", Json::Int(rep.acc.counters.iter().filter(|(k, _)| k.starts_with("deviations_at")).map(|(_, v)| *v as i64).sum::<i64>().max(1)));
    rep.cov("traces_validated_against_impl", Json::Int((schedules + 2 * jobs.len() as u64) as i64));
    rep.cov("schedules_explored", Json::Int((schedules + jobs.len() as u64) as i64));
    if rep.acc.counters.contains_key("subtrees_cut_by_time_budget") {
        rep.exhaustive = false;
        rep.caps_hit.push("time budget: some bound-2 subtrees were cut; bound 1 is complete".into());
    }
    rep.assumptions = vec![
        "hash-container iteration order is the only nondeterminism (no clock, environment, address or thread use in rssl: checked by grep); every iterating operation of the containers is routed through the chooser (hook H2), lookups are not".into(),
        "for containers with more than 4 elements only the fixed order, adjacent transpositions, reversal and rotation are offered (all realisable by some hasher seed)".into(),
        "explored orders are realisable: std iterates buckets in index order and bucket = f(seeded hash), so for n ≤ 4 every order has positive probability".into(),
    ];
    finish(ctx, rep)
}

// ---------------------------------------------------------------------------------------------
// history: B compiled after n compiles of A (same thread) must equal B compiled on a fresh thread

pub struct HInput {
    name: &'static str,
    files: Vec<(&'static str, &'static str)>,
    mode: Mode,
}

fn history_inputs() -> Vec<HInput> {
    let ok_pipeline = "RWByteAddressBuffer g_out;\n[numthreads(1, 1, 1)]\nvoid CSMAIN() { g_out.Store(0, 1u); }\nPipeline P { ComputeShader = CSMAIN; }\n";
    let h = |name, files: Vec<(&'static str, &'static str)>, mode| HInput { name, files, mode };
    vec![
        h("ok-plain", vec![("main.rssl", "static float s = 1.0;\nfloat f(float a) { float vertex = a; return vertex + s; }\n")], Mode::NoPipeline),
        h("ok-pipeline", vec![("main.rssl", ok_pipeline)], Mode::All),
        h("ok-include", vec![("main.rssl", "#include \"a.rssl\"\nfloat f() { return A; }\n"), ("a.rssl", "#pragma once\n#define A 1.0\n")], Mode::NoPipeline),
        h("ok-include-depth-3", vec![("main.rssl", "#include \"a.rssl\"\nfloat f() { return C; }\n"), ("a.rssl", "#include \"b.rssl\"\n"), ("b.rssl", "#include \"c.rssl\"\n"), ("c.rssl", "#define C 3.0\n")], Mode::NoPipeline),
        h("ok-macros-and-conditions", vec![("main.rssl", "#define F(x) (x + 1)\n#if defined(F) && 1\nint f() { return F(2); }\n#else\nint f() { return 0; }\n#endif\n")], Mode::NoPipeline),
        h("ok-templates-and-renames", vec![("main.rssl", "template<typename T> T id(T a) { return a; }\nstruct kernel { float a; };\nfloat f(kernel k) { return id<float>(k.a) + id<int>(1); }\n")], Mode::NoPipeline),
        h("err-lexer", vec![("main.rssl", "float f() { return `1.0; }\n")], Mode::NoPipeline),
        h("err-preprocessor-unterminated-if", vec![("main.rssl", "#if 1\nfloat f() { return 1.0; }\n")], Mode::NoPipeline),
        h("err-preprocessor-missing-include", vec![("main.rssl", "#include \"nofile.rssl\"\n")], Mode::NoPipeline),
        h("err-parser", vec![("main.rssl", "float f() { return (1.0 + ; }\n")], Mode::NoPipeline),
        h("err-typer", vec![("main.rssl", "float f() { return undefined_name; }\n")], Mode::NoPipeline),
        h("err-typer-in-template", vec![("main.rssl", "template<typename T> T bad(T a) { return a.nothing; }\nfloat f() { return bad<float>(1.0); }\n")], Mode::NoPipeline),
        h("err-in-include-depth-1", vec![("main.rssl", "#include \"a.rssl\"\nfloat f() { return 1.0; }\n"), ("a.rssl", "#if 1\n")], Mode::NoPipeline),
        h("err-in-include-depth-2", vec![("main.rssl", "#include \"a.rssl\"\n"), ("a.rssl", "#include \"b.rssl\"\n"), ("b.rssl", "#define 1\n")], Mode::NoPipeline),
        h("err-in-include-depth-3-lexer", vec![("main.rssl", "#include \"a.rssl\"\n"), ("a.rssl", "#include \"b.rssl\"\n"), ("b.rssl", "#include \"c.rssl\"\n"), ("c.rssl", "float g() { return `; }\n")], Mode::NoPipeline),
        h("err-macro-arguments-never-end", vec![("main.rssl", "#define F(x) x\nint a = F(1;\n")], Mode::NoPipeline),
        h("err-backend-msl-double", vec![("main.rssl", "RWByteAddressBuffer g_out;\n[numthreads(1, 1, 1)]\nvoid CSMAIN() { double d = 1.0L; g_out.Store(0, (uint)d); }\nPipeline P { ComputeShader = CSMAIN; }\n")], Mode::All),
        h("err-undeclared-pasted-identifier", vec![("main.rssl", "#define CAT(a, b) a ## b\nfloat f() { return CAT(un, known); }\n")], Mode::NoPipeline),
        h("ok-pasted-identifiers", vec![("main.rssl", "#define CAT(a, b) a ## b\nfloat CAT(g, 1)() { return 1.0; }\nfloat f() { return CAT(g, 1)(); }\n")], Mode::NoPipeline),
        // the same raw byte offset of the diagnostic at different file / line / column positions
        h("err-at-offset-46-on-line-1", vec![("main.rssl", "float ffffffffffffffffffffffffffff() { return undefined_name; }\n")], Mode::NoPipeline),
        h("err-at-offset-46-on-line-3", vec![("main.rssl", "float a;\nfloat bbbbbbbbbb;\nfloat f() { return undefined_name; }\n")], Mode::NoPipeline),
        h("err-at-offset-46-on-line-2", vec![("main.rssl", "static const float kkkkkkkkk = 1;\nfloat f() { undefined_name; }\n")], Mode::NoPipeline),
        h("err-at-offset-46-of-an-included-file", vec![("main.rssl", "#include \"h.rssl\"\nfloat g() { return 1.0; }\n"), ("h.rssl", "float cccccccccccccccccccccccccccc() { return undefined_name; }\n")], Mode::NoPipeline),
        h("err-pipeline-unknown-entry", vec![("main.rssl", "Pipeline P { ComputeShader = nothing; }\n")], Mode::All),
    ]
}

fn hrun(i: &HInput, cfg: Cfg) -> String {
    match guard(|| Job { files: &i.files, entry: "main.rssl", defines: &[], cfg, mode: i.mode.clone(), validate_layout: false }.run()) {
        Ok(r) => render_result(&r),
        Err(p) => format!("PANIC {}", p.signature()),
    }
}

/// every sequence runs on its own fresh thread, so thread-local state starts empty
fn check_history(a: &HInput, n: usize, b: &HInput, cfg: Cfg, acc: &mut Acc) {
    acc.evals += 1;
    let run = |prefix: usize| -> String {
        std::thread::scope(|s| {
            s.spawn(|| {
                for _ in 0..prefix {
                    let _ = hrun(a, cfg);
                }
                hrun(b, cfg)
            })
            .join()
            .unwrap_or_else(|_| "PANIC (thread)".to_string())
        })
    };
    let fresh = run(0);
    let after = run(n);
    if fresh != after {
        acc.violation(Violation {
            signature: format!("history-dependent|after-{}|{}", if a.name.starts_with("err") { "rejected-compiles" } else { "accepted-compiles" }, if b.name.starts_with("err") { "diagnostic" } else { "output" }),
            detail: format!("[{}] `{}` compiled after {} compile(s) of `{}` on the same thread differs from its compile on a fresh thread: {}", cfg.name(), b.name, n, a.name, first_diff(&fresh, &after)),
            replay: format!("kind: history\ncfg: {}\na: {}\nn: {}\nb: {}\n=====\n", cfg.name(), a.name, n, b.name),
        });
    } else {
        acc.outcome(&("history", b.name, cfg, hash_of(&after)));
    }
}

pub fn replay(ctx: &Ctx, body: &str) -> i32 {
    if let Some(rest) = body.strip_prefix("hashmode: ") {
        let (m, rest) = rest.split_once('\n').unwrap_or(("1", ""));
        let mode: u8 = m.trim().parse().unwrap_or(1);
        let Some((head, src)) = rest.split_once("\n=====\n") else { return 2 };
        let get = |k: &str| head.lines().find_map(|l| l.strip_prefix(k)).unwrap_or("").trim().to_string();
        let defines: Vec<(String, String)> = get("defines: ").split('\u{2}').filter(|x| !x.is_empty()).filter_map(|x| x.split_once('\u{1}')).map(|(a, b)| (a.to_string(), b.to_string())).collect();
        let mode_s = get("mode: ");
        let input = Input {
            name: "replay".into(),
            src: src.to_string(),
            mode: match mode_s.as_str() { "all" => Mode::All, "nopipe" => Mode::NoPipeline, o => Mode::Named(o.trim_start_matches("named ").to_string()) },
            validate: get("validate: ") == "true",
            defines,
        };
        let cfg = Cfg::from_name(&get("cfg: ")).unwrap_or(Cfg::Dx);
        let mut acc = Acc::default();
        let a = run_exec(&input, cfg, &[], &[]);
        vc::set_hash_mode(mode);
        let b = run_exec(&input, cfg, &[], &[]);
        vc::set_hash_mode(0);
        if let (Ok(a), Ok(b)) = (a, b) {
            if a.result != b.result {
                acc.violation(Violation { signature: "hash-function-dependent".into(), detail: first_diff(&a.result, &b.result), replay: String::new() });
            }
        }
        return finish_replay(ctx, &acc);
    }
    if body.starts_with("kind: history") {
        let mut acc = Acc::default();
        let get = |k: &str| body.lines().find_map(|l| l.strip_prefix(k)).unwrap_or("").trim().to_string();
        let hs = history_inputs();
        let (a, b) = (hs.iter().find(|h| h.name == get("a: ")), hs.iter().find(|h| h.name == get("b: ")));
        let (Some(a), Some(b)) = (a, b) else {
            eprintln!("machinery error: unknown history input");
            return 2;
        };
        check_history(a, get("n: ").parse().unwrap_or(1), b, Cfg::from_name(&get("cfg: ")).unwrap_or(Cfg::Dx), &mut acc);
        return finish_replay(ctx, &acc);
    }
    let Some((head, src)) = body.split_once("\n=====\n") else {
        eprintln!("machinery error: bad replay file");
        return 2;
    };
    let mut cfg = Cfg::Dx;
    let mut mode = Mode::NoPipeline;
    let mut choices = Vec::new();
    let mut validate = false;
    let mut defines: Vec<(String, String)> = Vec::new();
    for l in head.lines() {
        if let Some(v) = l.strip_prefix("defines: ") {
            defines = v.split('\u{2}').filter(|x| !x.is_empty()).filter_map(|x| x.split_once('\u{1}')).map(|(a, b)| (a.to_string(), b.to_string())).collect();
        }
        if let Some(v) = l.strip_prefix("validate: ") {
            validate = v.trim() == "true";
        }
        if let Some(v) = l.strip_prefix("cfg: ") {
            cfg = Cfg::from_name(v.trim()).unwrap_or(Cfg::Dx);
        } else if let Some(v) = l.strip_prefix("mode: ") {
            mode = match v.trim() {
                "all" => Mode::All,
                "nopipe" => Mode::NoPipeline,
                o => Mode::Named(o.trim_start_matches("named ").to_string()),
            };
        } else if let Some(v) = l.strip_prefix("choices: ") {
            choices = v.split(',').filter_map(|c| c.trim().parse().ok()).collect();
        }
    }
    let input = Input { name: "replay".into(), src: src.to_string(), mode, validate, defines };
    let mut acc = Acc::default();
    let reference = run_exec(&input, cfg, &[], &[]);
    let a = run_exec(&input, cfg, &choices, &[]);
    let b = run_exec(&input, cfg, &choices, &[]);
    match (reference, a, b) {
        (Ok(r), Ok(a), Ok(b)) => {
            if a.result != b.result {
                // the harness controls every hash-iteration choice, so two results for one schedule mean state that
                // survives from one compile to the next (or another uncontrolled source): a violation of C07 itself
                acc.violation(Violation {
                    signature: "nondeterministic|same-schedule-twice".into(),
                    detail: format!("the same input compiled twice under the same iteration order gives two results: {}", first_diff(&a.result, &b.result)),
                    replay: String::new(),
                });
                return finish_replay(ctx, &acc);
            }
            if a.result != r.result {
                let devs: Vec<String> = a.points.iter().filter(|p| p.2 != 0).map(|p| p.1.clone()).collect();
                acc.violation(Violation {
                    signature: format!("order-dependent|{}", devs.last().cloned().unwrap_or_default()),
                    detail: format!("iterating {} in another order changes the result: {}", devs.join(" and "), first_diff(&r.result, &a.result)),
                    replay: String::new(),
                });
            }
        }
        _ => {
            eprintln!("machinery error: replay diverged");
            return 2;
        }
    }
    finish_replay(ctx, &acc)
}

use crate::engine::Ctx;

pub mod c01;
pub mod c02;
pub mod c03;
pub mod c04;
pub mod c05;
pub mod c06;
pub mod c07;
pub mod c08;
pub mod c09;
pub mod c10;
pub mod c11;
pub mod c12;
pub mod c13;
pub mod c14;
pub mod c15;
pub mod c16;
pub mod c17;
pub mod c18;
pub mod c19;

pub fn run(ctx: &Ctx) -> i32 {
    match ctx.prop.as_str() {
        "C01" => c01::run(ctx),
        "C02" => c02::run(ctx),
        "C03" => c03::run(ctx),
        "C04" => c04::run(ctx),
        "C05" => c05::run(ctx),
        "C06" => c06::run(ctx),
        "C07" => c07::run(ctx),
        "C08" => c08::run(ctx),
        "C09" => c09::run(ctx),
        "C10" => c10::run(ctx),
        "C11" => c11::run(ctx),
        "C12" => c12::run(ctx),
        "C13" => c13::run(ctx),
        "C14" => c14::run(ctx),
        "C15" => c15::run(ctx),
        "C16" => c16::run(ctx),
        "C17" => c17::run(ctx),
        "C18" => c18::run(ctx),
        "C19" => c19::run(ctx),
        _ => {
            eprintln!("machinery error: no check registered for {}", ctx.prop);
            2
        }
    }
}

pub fn replay(ctx: &Ctx, path: &str) -> i32 {
    let text = match std::fs::read_to_string(path) {
        Ok(t) => t,
        Err(e) => {
            eprintln!("machinery error: cannot read {}: {}", path, e);
            return 2;
        }
    };
    let body = match text.split_once("\n---\n") {
        Some((_, b)) => b.to_string(),
        None => text.clone(),
    };
    match ctx.prop.as_str() {
        "C01" => c01::replay(ctx, &body),
        "C02" => c02::replay(ctx, &body),
        "C03" => c03::replay(ctx, &body),
        "C04" => c04::replay(ctx, &body),
        "C05" => c05::replay(ctx, &body),
        "C06" => c06::replay(ctx, &body),
        "C07" => c07::replay(ctx, &body),
        "C08" => c08::replay(ctx, &body),
        "C09" => c09::replay(ctx, &body),
        "C10" => c10::replay(ctx, &body),
        "C11" => c11::replay(ctx, &body),
        "C12" => c12::replay(ctx, &body),
        "C13" => c13::replay(ctx, &body),
        "C14" => c14::replay(ctx, &body),
        "C15" => c15::replay(ctx, &body),
        "C16" => c16::replay(ctx, &body),
        "C17" => c17::replay(ctx, &body),
        "C18" => c18::replay(ctx, &body),
        "C19" => c19::replay(ctx, &body),
        _ => {
            eprintln!("machinery error: no replay registered for {}", ctx.prop);
            2
        }
    }
}

/// `vcheck --worker <prop> <space> <lo> <hi> <careful|fast> [extra...]` (child process of engine::run_isolated)
pub fn worker(args: &[String]) -> i32 {
    match args.first().map(|s| s.as_str()) {
        Some("C08") => {
            if args.get(1).map(|s| s.as_str()) == Some("@file") {
                c08::worker_file(args.get(2).map(|s| s.as_str()).unwrap_or(""))
            } else {
                c08::worker(&args[1..])
            }
        }
        Some("C12") => c12::worker(&args[1..]),
        _ => 2,
    }
}

//! C09 — printing a syntax tree and parsing it back are inverse.
//!
//! Spaces (all exhaustive within their bound):
//!  1  all expression trees of depth ≤ 2 over the full constructor alphabet, leaves a,b,c… in order
//!  1b the same trees with every leaf kind substituted uniformly and one position at a time
//!  2  all spine trees (one non-leaf child per level) of depth 3 over the full alphabet, depth 4/5 over classes
//!  6  every literal kind over a boundary value list
//!  8  trees the parser produces for the repository's .rssl inputs and for generated statements/declarations
//!     (double round trip: parse → print → parse)
//!  9  parser trees of every expression form (every binary operator / the conditional operator outermost, every operator
//!     pair one level deeper, unary-like wrappers) in every template argument position of calls and of types
//!  7  trees the HLSL exporter really builds (hook H1) for the repository inputs: print → parse → compare

use crate::ast_norm::{self, Norm};
use crate::engine::*;
use crate::json::{Json, obj};
use rssl::ast::*;
use rssl::text::Located;

// ---------------------------------------------------------------------------------------------
// constructors

#[derive(Clone, Debug, PartialEq)]
pub enum Ctor {
    Un(UnaryOp),
    Bin(BinOp),
    Ternary,
    Subscript,
    Member,
    Call0,
    Call1,
    Call2,
    CallT,
    Cast,
    CastT,
    CastConst,
    SizeofE,
    SizeofT,
    Braced,
}

pub const UNARY: &[UnaryOp] = &[
    UnaryOp::PrefixIncrement,
    UnaryOp::PrefixDecrement,
    UnaryOp::PostfixIncrement,
    UnaryOp::PostfixDecrement,
    UnaryOp::Plus,
    UnaryOp::Minus,
    UnaryOp::LogicalNot,
    UnaryOp::BitwiseNot,
    UnaryOp::Dereference,
    UnaryOp::AddressOf,
];
pub const BINARY: &[BinOp] = &[
    BinOp::Add,
    BinOp::Subtract,
    BinOp::Multiply,
    BinOp::Divide,
    BinOp::Modulus,
    BinOp::LeftShift,
    BinOp::RightShift,
    BinOp::BitwiseAnd,
    BinOp::BitwiseOr,
    BinOp::BitwiseXor,
    BinOp::BooleanAnd,
    BinOp::BooleanOr,
    BinOp::LessThan,
    BinOp::LessEqual,
    BinOp::GreaterThan,
    BinOp::GreaterEqual,
    BinOp::Equality,
    BinOp::Inequality,
    BinOp::Assignment,
    BinOp::SumAssignment,
    BinOp::DifferenceAssignment,
    BinOp::ProductAssignment,
    BinOp::QuotientAssignment,
    BinOp::RemainderAssignment,
    BinOp::LeftShiftAssignment,
    BinOp::RightShiftAssignment,
    BinOp::BitwiseAndAssignment,
    BinOp::BitwiseOrAssignment,
    BinOp::BitwiseXorAssignment,
    BinOp::Sequence,
];

pub fn full_ctors() -> Vec<Ctor> {
    let mut v = Vec::new();
    for u in UNARY {
        v.push(Ctor::Un(u.clone()));
    }
    for b in BINARY {
        v.push(Ctor::Bin(b.clone()));
    }
    // Ctor::Braced (`T { a }`) is a Metal-only node: the rssl parser has no such syntax and only the MSL exporter builds it,
    // so it is outside the Hlsl/Rssl print-parse round trip (kept for replay only)
    v.extend([Ctor::Ternary, Ctor::Subscript, Ctor::Member, Ctor::Call0, Ctor::Call1, Ctor::Call2, Ctor::CallT, Ctor::Cast, Ctor::CastT, Ctor::CastConst, Ctor::SizeofE, Ctor::SizeofT]);
    v
}

/// one representative per (precedence level, associativity, first/last printed character) class
pub fn class_ctors() -> Vec<Ctor> {
    vec![
        Ctor::Un(UnaryOp::PrefixIncrement),
        Ctor::Un(UnaryOp::PostfixDecrement),
        Ctor::Un(UnaryOp::Plus),
        Ctor::Un(UnaryOp::Minus),
        Ctor::Un(UnaryOp::LogicalNot),
        Ctor::Un(UnaryOp::AddressOf),
        Ctor::Bin(BinOp::Add),
        Ctor::Bin(BinOp::Subtract),
        Ctor::Bin(BinOp::Multiply),
        Ctor::Bin(BinOp::LeftShift),
        Ctor::Bin(BinOp::RightShift),
        Ctor::Bin(BinOp::BitwiseAnd),
        Ctor::Bin(BinOp::BooleanAnd),
        Ctor::Bin(BinOp::LessThan),
        Ctor::Bin(BinOp::GreaterThan),
        Ctor::Bin(BinOp::Equality),
        Ctor::Bin(BinOp::Assignment),
        Ctor::Bin(BinOp::DifferenceAssignment),
        Ctor::Bin(BinOp::Sequence),
        Ctor::Ternary,
        Ctor::Subscript,
        Ctor::Member,
        Ctor::Call1,
        Ctor::CallT,
        Ctor::Cast,
        Ctor::SizeofE,
    ]
}

impl Ctor {
    pub fn arity(&self) -> usize {
        match self {
            Ctor::Un(_) | Ctor::Member | Ctor::Call0 | Ctor::Cast | Ctor::CastT | Ctor::CastConst | Ctor::SizeofE | Ctor::Braced => 1,
            Ctor::Bin(_) | Ctor::Subscript | Ctor::Call1 | Ctor::CallT => 2,
            Ctor::Ternary | Ctor::Call2 => 3,
            Ctor::SizeofT => 0,
        }
    }
    pub fn name(&self) -> String {
        match self {
            Ctor::Un(u) => format!("{:?}", u),
            Ctor::Bin(b) => format!("{:?}", b),
            c => format!("{:?}", c),
        }
    }
    pub fn build(&self, mut ch: Vec<Expression>) -> Expression {
        let l = |e: Expression| Box::new(Located::none(e));
        let ty = |name: &str| TypeId { base: Type::trivial(name), abstract_declarator: Declarator::Empty };
        match self {
            Ctor::Un(u) => Expression::UnaryOperation(u.clone(), l(ch.remove(0))),
            Ctor::Bin(b) => {
                let a = ch.remove(0);
                Expression::BinaryOperation(b.clone(), l(a), l(ch.remove(0)))
            }
            Ctor::Ternary => {
                let a = ch.remove(0);
                let b = ch.remove(0);
                Expression::TernaryConditional(l(a), l(b), l(ch.remove(0)))
            }
            Ctor::Subscript => {
                let a = ch.remove(0);
                Expression::ArraySubscript(l(a), l(ch.remove(0)))
            }
            Ctor::Member => Expression::Member(l(ch.remove(0)), ScopedIdentifier::trivial("m")),
            Ctor::Call0 => Expression::Call(l(ch.remove(0)), vec![], vec![]),
            Ctor::Call1 => {
                let f = ch.remove(0);
                Expression::Call(l(f), vec![], vec![Located::none(ch.remove(0))])
            }
            Ctor::Call2 => {
                let f = ch.remove(0);
                let a = ch.remove(0);
                Expression::Call(l(f), vec![], vec![Located::none(a), Located::none(ch.remove(0))])
            }
            Ctor::CallT => {
                let f = ch.remove(0);
                Expression::Call(l(f), vec![ExpressionOrType::Type(ty("T"))], vec![Located::none(ch.remove(0))])
            }
            Ctor::Cast => Expression::Cast(Box::new(ty("T")), l(ch.remove(0))),
            Ctor::CastT => Expression::Cast(
                Box::new(TypeId {
                    base: Type::from_layout(TypeLayout(ScopedIdentifier::trivial("T"), vec![ExpressionOrType::Type(ty("U"))].into_boxed_slice())),
                    abstract_declarator: Declarator::Empty,
                }),
                l(ch.remove(0)),
            ),
            Ctor::CastConst => Expression::Cast(
                Box::new(TypeId { base: Type::trivial("T").with_modifiers(&[Located::none(TypeModifier::Const)]), abstract_declarator: Declarator::Empty }),
                l(ch.remove(0)),
            ),
            Ctor::SizeofE => Expression::SizeOf(Box::new(ExpressionOrType::Expression(Located::none(ch.remove(0))))),
            Ctor::SizeofT => Expression::SizeOf(Box::new(ExpressionOrType::Type(ty("T")))),
            Ctor::Braced => Expression::BracedInit(Box::new(ty("T")), vec![Initializer::Expression(Located::none(ch.remove(0)))]),
        }
    }
}

#[derive(Clone, Copy, Debug, PartialEq, Eq)]
pub enum LeafKind {
    Id,
    NsId,
    AbsId,
    Int,
    UInt,
    Float,
    Bool,
    Float32,
}
pub const LEAF_KINDS: &[LeafKind] = &[LeafKind::Id, LeafKind::NsId, LeafKind::AbsId, LeafKind::Int, LeafKind::UInt, LeafKind::Float, LeafKind::Bool, LeafKind::Float32];

fn leaf(kind: LeafKind, n: usize) -> Expression {
    let names = ["a", "b", "c", "d", "e", "g", "h", "i", "j", "k", "n", "o"];
    let name = names[n % names.len()];
    let lid = |s: &str| Located::none(s.to_string());
    match kind {
        LeafKind::Id => Expression::Identifier(ScopedIdentifier::trivial(name)),
        LeafKind::NsId => Expression::Identifier(ScopedIdentifier { base: ScopedIdentifierBase::Relative, identifiers: vec![lid("ns"), lid(name)] }),
        LeafKind::AbsId => Expression::Identifier(ScopedIdentifier { base: ScopedIdentifierBase::Absolute, identifiers: vec![lid(name)] }),
        LeafKind::Int => Expression::Literal(Literal::IntUntyped(1 + n as u64)),
        LeafKind::UInt => Expression::Literal(Literal::IntUnsigned32(1 + n as u64)),
        LeafKind::Float => Expression::Literal(Literal::FloatUntyped(1.5 + n as f64)),
        LeafKind::Bool => Expression::Literal(Literal::Bool(n % 2 == 0)),
        LeafKind::Float32 => Expression::Literal(Literal::Float32(2.0 + n as f32)),
    }
}

/// how leaves are filled in: all leaves of one kind, or only the first / last leaf (the others are identifiers)
#[derive(Clone, Copy, Debug, PartialEq)]
pub struct LeafMode {
    pub mode: u8, // 0 = all, 1 = first, 2 = last
    pub kind: LeafKind,
}

impl LeafMode {
    pub const PLAIN: LeafMode = LeafMode { mode: 0, kind: LeafKind::Id };
    fn at(&self, i: usize, n: usize) -> LeafKind {
        match self.mode {
            0 => self.kind,
            1 => {
                if i == 0 { self.kind } else { LeafKind::Id }
            }
            _ => {
                if i + 1 == n { self.kind } else { LeafKind::Id }
            }
        }
    }
    fn desc(&self) -> String {
        format!("{}:{:?}", ["all", "first", "last"][self.mode as usize], self.kind)
    }
    fn parse(s: &str) -> LeafMode {
        let (m, k) = s.split_once(':').unwrap_or(("all", s));
        let kind = LEAF_KINDS.iter().copied().find(|x| format!("{:?}", x) == k.trim()).unwrap_or(LeafKind::Id);
        LeafMode { mode: match m.trim() { "first" => 1, "last" => 2, _ => 0 }, kind }
    }
}

/// A tree shape: constructor + children (None = leaf)
#[derive(Clone, Debug, PartialEq)]
pub struct Shape {
    pub ctor: Ctor,
    pub children: Vec<Option<Shape>>,
}

impl Shape {
    fn build(&self, lm: &LeafMode) -> Expression {
        let n = self.leaves();
        let mut c = 0;
        self.build_rec(&mut c, n, lm)
    }
    fn build_rec(&self, counter: &mut usize, n: usize, lm: &LeafMode) -> Expression {
        let mut ch = Vec::new();
        for c in &self.children {
            match c {
                None => {
                    ch.push(leaf(lm.at(*counter, n), *counter));
                    *counter += 1;
                }
                Some(s) => ch.push(s.build_rec(counter, n, lm)),
            }
        }
        self.ctor.build(ch)
    }
    fn leaves(&self) -> usize {
        self.children.iter().map(|c| c.as_ref().map(|s| s.leaves()).unwrap_or(1)).sum()
    }
    fn describe(&self) -> String {
        let kids: Vec<String> = self.children.iter().map(|c| c.as_ref().map(|s| s.describe()).unwrap_or_else(|| "_".into())).collect();
        if kids.is_empty() { self.ctor.name() } else { format!("{}({})", self.ctor.name(), kids.join(",")) }
    }
    fn depth(&self) -> usize {
        1 + self.children.iter().map(|c| c.as_ref().map(|s| s.depth()).unwrap_or(0)).max().unwrap_or(0)
    }
}

// ---------------------------------------------------------------------------------------------
// the round trip

pub fn is_type_name(id: &ScopedIdentifier) -> bool {
    match id.try_trivial() {
        Some(n) => n.node == "T" || n.node == "U" || ast_norm::is_builtin_type_name(&n.node),
        None => false,
    }
}

thread_local! {
    static TEMPLATE: Module = crate::util::parse_src("void f() { return a; }\n").expect("template parses");
}

fn wrap(e: &Expression) -> Module {
    TEMPLATE.with(|t| {
        let mut m = t.clone();
        if let RootDefinition::Function(f) = &mut m.root_definitions[0] {
            let body = f.body.as_mut().unwrap();
            body[0].kind = StatementKind::Return(Some(Located::none(e.clone())));
        }
        m
    })
}

fn unwrap_expr(m: &Module) -> Option<Expression> {
    if m.root_definitions.len() != 1 {
        return None;
    }
    if let RootDefinition::Function(f) = &m.root_definitions[0] {
        let body = f.body.as_ref()?;
        if body.len() != 1 {
            return None;
        }
        if let StatementKind::Return(Some(e)) = &body[0].kind {
            return Some(e.node.clone());
        }
    }
    None
}

#[derive(Debug)]
pub enum Rt {
    Same,
    FormatError(String),
    ParseError(String, String),
    Different(String, String, String),
    Panic(PanicInfo),
}

pub fn roundtrip_expr(e: &Expression, target: rssl_formatter::Target) -> Rt {
    let m = wrap(e);
    let r = guard(|| {
        let text = match rssl_formatter::format(&m, target) {
            Ok(t) => t,
            Err(err) => return Rt::FormatError(format!("{:?}", err)),
        };
        let parsed = match crate::util::parse_src(&text) {
            Ok(p) => p,
            Err(err) => return Rt::ParseError(text, err),
        };
        let mut got = match unwrap_expr(&parsed) {
            Some(g) => g,
            None => return Rt::Different(text, "<not a single return statement>".into(), String::new()),
        };
        let mut want = e.clone();
        let mut n = Norm::new(&is_type_name);
        n.strip = true;
        n.expr(&mut got);
        n.expr(&mut want);
        // `==` on f32/f64 literals identifies 0.0 with -0.0: trees with float literals are also compared by rendering
        if got == want && (n.float_literals == 0 || ast_norm::dbg(&got) == ast_norm::dbg(&want)) {
            Rt::Same
        } else {
            Rt::Different(text, ast_norm::dbg(&got), ast_norm::dbg(&want))
        }
    });
    match r {
        Ok(r) => r,
        Err(p) => Rt::Panic(p),
    }
}

fn fails(shape: &Shape, lk: &LeafMode) -> bool {
    let e = shape.build(lk);
    !matches!(roundtrip_expr(&e, rssl_formatter::Target::Hlsl), Rt::Same)
}

/// smallest sub-shape that still fails: used as the violation class
fn signature_of(shape: &Shape, lk: &LeafMode) -> String {
    // 1. a failing proper subtree?
    for c in shape.children.iter().flatten() {
        if fails(c, lk) {
            return signature_of(c, lk);
        }
    }
    // 2. shrink anywhere in the tree while it still fails: replace a node by a leaf or by one of its children
    fn positions(s: &Shape, prefix: &mut Vec<usize>, out: &mut Vec<Vec<usize>>) {
        for (i, c) in s.children.iter().enumerate() {
            if let Some(c) = c {
                prefix.push(i);
                out.push(prefix.clone());
                positions(c, prefix, out);
                prefix.pop();
            }
        }
    }
    fn get_mut<'a>(s: &'a mut Shape, path: &[usize]) -> &'a mut Option<Shape> {
        if path.len() == 1 {
            &mut s.children[path[0]]
        } else {
            get_mut(s.children[path[0]].as_mut().unwrap(), &path[1..])
        }
    }
    let mut cur = shape.clone();
    loop {
        let mut changed = false;
        let mut pos = Vec::new();
        positions(&cur, &mut Vec::new(), &mut pos);
        'outer: for path in pos {
            let node = get_mut(&mut cur.clone(), &path).clone().unwrap();
            let mut candidates: Vec<Option<Shape>> = vec![None];
            for g in node.children.iter().flatten() {
                candidates.push(Some(g.clone()));
            }
            for cand in candidates {
                let mut t = cur.clone();
                *get_mut(&mut t, &path) = cand;
                if fails(&t, lk) {
                    cur = t;
                    changed = true;
                    break 'outer;
                }
            }
        }
        if !changed {
            break;
        }
    }
    // leaf kind matters?
    let leafpart = if fails(&cur, &LeafMode::PLAIN) { String::new() } else { format!("|leaf:{}", lk.desc()) };
    format!("roundtrip|{}{}", cur.describe(), leafpart)
}

fn check_shape(shape: &Shape, lk: &LeafMode, acc: &mut Acc) {
    acc.evals += 1;
    let lk_desc = &lk.desc();
    let e = shape.build(lk);
    for target in [rssl_formatter::Target::Hlsl, rssl_formatter::Target::Rssl] {
        let tname = format!("{:?}", target);
        match roundtrip_expr(&e, target) {
            Rt::Same => {
                if tname == "Hlsl" {
                    acc.outcome(&(shape.describe(), lk_desc.to_string()));
                }
            }
            Rt::FormatError(err) => {
                acc.violation(Violation {
                    signature: format!("roundtrip|format-error|{}", shape.ctor.name()),
                    detail: format!("tree {} cannot be printed: {}", shape.describe(), err),
                    replay: format!("kind: shape\nleaves: {}\n{}", lk_desc, shape.describe()),
                });
                return;
            }
            Rt::Panic(p) => {
                acc.violation(Violation {
                    signature: p.signature(),
                    detail: format!("tree {} panicked in print/parse: {}", shape.describe(), p.message),
                    replay: format!("kind: shape\nleaves: {}\n{}", lk_desc, shape.describe()),
                });
                return;
            }
            Rt::ParseError(text, err) => {
                let sig = signature_of(shape, lk);
                acc.violation(Violation {
                    signature: sig,
                    detail: format!("tree {} prints as `{}` which does not parse: {}", shape.describe(), body_of(&text), one_line(&err, 160)),
                    replay: format!("kind: shape\nleaves: {}\n{}", lk_desc, shape.describe()),
                });
                return;
            }
            Rt::Different(text, got, want) => {
                let sig = signature_of(shape, lk);
                acc.violation(Violation {
                    signature: sig,
                    detail: format!("tree {} prints as `{}` ({}) which reads back as {} instead of {}", shape.describe(), body_of(&text), tname, got, want),
                    replay: format!("kind: shape\nleaves: {}\n{}", lk_desc, shape.describe()),
                });
                return;
            }
        }
    }
}

fn body_of(text: &str) -> String {
    let t = text.split_once("return ").map(|x| x.1).unwrap_or(text);
    one_line(t.split(";\n").next().unwrap_or(t).trim(), 120)
}

// ---------------------------------------------------------------------------------------------
// shape spaces

/// all shapes of depth ≤ 2 with root `root`: each child is a leaf or a ctor with all-leaf children
fn depth2_count(root: &Ctor, n_inner: u64) -> u64 {
    (n_inner + 1).pow(root.arity() as u32)
}

fn depth2_shape(root: &Ctor, inner: &[Ctor], mut idx: u64) -> Shape {
    let base = inner.len() as u64 + 1;
    let mut children = Vec::new();
    for _ in 0..root.arity() {
        let d = idx % base;
        idx /= base;
        children.push(if d == 0 { None } else { Some(Shape { ctor: inner[(d - 1) as usize].clone(), children: vec![None; inner[(d - 1) as usize].arity()] }) });
    }
    Shape { ctor: root.clone(), children }
}

/// (ctor index, slot) pairs = the "spine alphabet"
fn spine_letters(ctors: &[Ctor]) -> Vec<(usize, usize)> {
    let mut v = Vec::new();
    for (i, c) in ctors.iter().enumerate() {
        for s in 0..c.arity() {
            v.push((i, s));
        }
    }
    v
}

fn spine_shape(ctors: &[Ctor], letters: &[(usize, usize)], last: &[Ctor], mut idx: u64, depth: usize) -> Shape {
    // digits: depth-1 letters (ctor, slot) then one final ctor (all leaves)
    let nl = letters.len() as u64;
    let mut path = Vec::new();
    for _ in 0..depth - 1 {
        path.push(letters[(idx % nl) as usize]);
        idx /= nl;
    }
    let fin = &last[(idx % last.len() as u64) as usize];
    let mut cur = Shape { ctor: fin.clone(), children: vec![None; fin.arity()] };
    for (ci, slot) in path.into_iter().rev() {
        let c = &ctors[ci];
        let mut children = vec![None; c.arity()];
        children[slot] = Some(cur);
        cur = Shape { ctor: c.clone(), children };
    }
    cur
}

// ---------------------------------------------------------------------------------------------
// literals

fn literal_values() -> Vec<Literal> {
    let mut v = Vec::new();
    let ints: Vec<u64> = vec![0, 1, 2, 7, 255, 256, 65535, 65536, (1 << 31) - 1, 1 << 31, (1u64 << 32) - 1, 1 << 32, (1u64 << 63) - 1, 1 << 63, u64::MAX];
    for i in &ints {
        v.push(Literal::IntUntyped(*i));
        v.push(Literal::IntUnsigned32(*i));
        v.push(Literal::IntUnsigned64(*i));
        if *i <= i64::MAX as u64 {
            v.push(Literal::IntSigned64(*i as i64));
        }
    }
    let f64s: Vec<f64> = vec![
        0.0, 1.0, 2.0, 0.5, 0.1, 1.5, 3.0, 100.0, 1e7, 1e15, 1e16, 1e17, 1e21, 1e22, 1e23, 1e30, 1e300, 1e-5, 1e-7, 1e-10, 1e-300, f64::MAX, f64::MIN_POSITIVE, 5e-324, f64::EPSILON, 1.0 + f64::EPSILON, 0.0031308, 0.055, 9007199254740992.0, 9007199254740994.0,
        9223372036854775808.0, 18446744073709551616.0, f64::INFINITY, 16777216.0, 16777217.0, 123456.789, 65504.0,
    ];
    for f in &f64s {
        v.push(Literal::FloatUntyped(*f));
        v.push(Literal::Float64(*f));
    }
    // values whose shortest spelling needs 15-17 significant digits: a grid over the mantissa in binades from 2^-20 to
    // 2^80 (plus the largest and smallest normal binade and the subnormals), and thirds / sevenths of small integers
    for exp in [1u64, 1003, 1013, 1022, 1023, 1024, 1030, 1050, 1075, 1076, 1103, 2046] {
        for m in 0..40u64 {
            let mant = m.wrapping_mul(0x0003_9E37_79B9_7F4B) & 0x000F_FFFF_FFFF_FFFF;
            let x = f64::from_bits((exp << 52) | mant);
            v.push(Literal::FloatUntyped(x));
            v.push(Literal::Float64(x));
        }
    }
    for m in 1..40u64 {
        let x = f64::from_bits(m.wrapping_mul(0x0003_9E37_79B9_7F4B) & 0x000F_FFFF_FFFF_FFFF);
        v.push(Literal::Float64(x));
    }
    for k in 1..60u32 {
        for x in [k as f64 / 3.0, k as f64 / 7.0, 228.0 + k as f64 / 13.0, (k as f64).sqrt() * 1e-6] {
            v.push(Literal::FloatUntyped(x));
            v.push(Literal::Float64(x));
        }
        for x in [k as f32 / 3.0, k as f32 / 7.0, (k as f32).sqrt() * 1e-6] {
            v.push(Literal::Float32(x));
        }
    }
    for exp in [1u32, 103, 117, 126, 127, 128, 140, 150, 151, 190, 254] {
        for m in 0..24u32 {
            let x = f32::from_bits((exp << 23) | (m.wrapping_mul(0x0009_E377) & 0x007F_FFFF));
            v.push(Literal::Float32(x));
        }
    }
    let f32s: Vec<f32> = vec![
        0.0, 1.0, 2.0, 0.5, 0.1, 1.5, 3.0, 100.0, 1e7, 1e15, 1e16, 1e20, 1e30, 1e38, 1e-5, 1e-7, 1e-10, 1e-38, 1e-45, f32::MAX, f32::MIN_POSITIVE, f32::EPSILON, 1.0 + f32::EPSILON, 0.0031308, 0.055, 16777216.0, 9223372036854775808.0, f32::INFINITY, 65504.0,
        123456.79,
    ];
    for f in &f32s {
        v.push(Literal::Float32(*f));
        v.push(Literal::Float16(*f));
    }
    v.push(Literal::Bool(true));
    v.push(Literal::Bool(false));
    v.push(Literal::String("s".into()));
    v.push(Literal::String(String::new()));
    v
}

/// literal nodes that carry a sign / NaN: no token denotes them, so the parser can never produce the same node
fn negative_literal_values() -> Vec<Literal> {
    vec![
        Literal::FloatUntyped(-1.5),
        Literal::FloatUntyped(-0.0),
        Literal::Float32(-1.5),
        Literal::Float32(-0.0),
        Literal::Float32(-2.0),
        Literal::Float16(-1.5),
        Literal::Float64(-1.5),
        Literal::Float64(-3.0),
        Literal::IntSigned64(-1),
        Literal::IntSigned64(i64::MIN),
        Literal::FloatUntyped(f64::NEG_INFINITY),
        Literal::Float32(f32::NEG_INFINITY),
        Literal::FloatUntyped(f64::NAN),
        Literal::Float32(f32::NAN),
        Literal::Float16(f32::NAN),
        Literal::Float64(f64::NAN),
    ]
}

fn lit_class(l: &Literal) -> &'static str {
    match l {
        Literal::Bool(_) => "Bool",
        Literal::IntUntyped(_) => "IntUntyped",
        Literal::IntUnsigned32(_) => "IntUnsigned32",
        Literal::IntUnsigned64(_) => "IntUnsigned64",
        Literal::IntSigned64(_) => "IntSigned64",
        Literal::FloatUntyped(_) => "FloatUntyped",
        Literal::Float16(_) => "Float16",
        Literal::Float32(_) => "Float32",
        Literal::Float64(_) => "Float64",
        Literal::String(_) => "String",
    }
}

/// value semantics of a literal expression, allowing `-x` spelled as unary minus on a positive literal
fn literal_value(e: &Expression) -> Option<(String, String)> {
    match e {
        Expression::Literal(l) => Some((
            lit_class(l).to_string(),
            match l {
                Literal::Bool(b) => format!("{}", b),
                Literal::IntUntyped(v) | Literal::IntUnsigned32(v) | Literal::IntUnsigned64(v) => format!("{}", v),
                Literal::IntSigned64(v) => format!("{}", v),
                Literal::FloatUntyped(v) | Literal::Float64(v) => format!("{:x}", v.to_bits()),
                Literal::Float16(v) | Literal::Float32(v) => format!("{:x}", v.to_bits()),
                Literal::String(s) => s.clone(),
            },
        )),
        Expression::UnaryOperation(UnaryOp::Minus, inner) => {
            let (c, _) = literal_value(&inner.node)?;
            let neg = match &inner.node {
                Expression::Literal(Literal::FloatUntyped(v)) | Expression::Literal(Literal::Float64(v)) => format!("{:x}", (-*v).to_bits()),
                Expression::Literal(Literal::Float16(v)) | Expression::Literal(Literal::Float32(v)) => format!("{:x}", (-*v).to_bits()),
                Expression::Literal(Literal::IntSigned64(v)) => format!("{}", v.wrapping_neg()),
                _ => return None,
            };
            Some((c, neg))
        }
        _ => None,
    }
}

fn check_literal(l: &Literal, negative: bool, acc: &mut Acc) {
    acc.evals += 1;
    let e = Expression::Literal(l.clone());
    let replay = format!("kind: literal\n{:?}", l);
    match roundtrip_expr(&e, rssl_formatter::Target::Hlsl) {
        Rt::Same => acc.outcome(&format!("{:?}", l)),
        Rt::Panic(p) => acc.violation(Violation { signature: p.signature(), detail: format!("literal {:?} panicked: {}", l, p.message), replay }),
        Rt::FormatError(err) => acc.violation(Violation { signature: format!("literal|format-error|{}", lit_class(l)), detail: format!("{:?}: {}", l, err), replay }),
        Rt::ParseError(text, err) => {
            let class = if matches!(l, Literal::FloatUntyped(v) | Literal::Float64(v) if v.is_nan()) || matches!(l, Literal::Float32(v) | Literal::Float16(v) if v.is_nan()) { "nan" } else if negative { "negative" } else { "positive" };
            acc.violation(Violation {
                signature: format!("literal|unparsable|{}|{}", lit_class(l), class),
                detail: format!("literal node {:?} prints as `{}` which does not parse: {}", l, body_of(&text), one_line(&err, 120)),
                replay,
            })
        }
        Rt::Different(text, got, _want) => {
            // a negative literal legitimately reads back as unary minus applied to the positive literal:
            // "every literal reads back with the same value and type" is then judged on value and type
            let parsed = crate::util::parse_src(&text).ok().and_then(|m| unwrap_expr(&m));
            let got_val = parsed.as_ref().and_then(literal_value);
            let want_val = literal_value(&e);
            if negative && got_val.is_some() && got_val == want_val {
                acc.count("negative_literals_read_back_as_unary_minus_same_value");
                acc.outcome(&format!("{:?}", l));
                return;
            }
            let is_nan = matches!(l, Literal::FloatUntyped(v) | Literal::Float64(v) if v.is_nan()) || matches!(l, Literal::Float32(v) | Literal::Float16(v) if v.is_nan());
            let class = if is_nan {
                "nan".to_string()
            } else if negative {
                match l {
                    Literal::FloatUntyped(v) | Literal::Float64(v) if *v == 0.0 => "negative-zero".to_string(),
                    Literal::Float32(v) | Literal::Float16(v) if *v == 0.0 => "negative-zero".to_string(),
                    _ => "negative".to_string(),
                }
            } else {
                "positive".to_string()
            };
            acc.violation(Violation {
                signature: format!("literal|value-or-type-changed|{}|{}", lit_class(l), class),
                detail: format!("literal node {:?} prints as `{}` which reads back as {}", l, body_of(&text), got),
                replay,
            });
        }
    }
}

// ---------------------------------------------------------------------------------------------
// parser-produced trees (double round trip) and exporter trees

fn corpus_files() -> Vec<(String, String)> {
    let mut v = Vec::new();
    let mut dirs = vec![std::path::PathBuf::from(crate::util::repo_root()).join("tests"), std::path::PathBuf::from(crate::util::repo_root()).join("hlsl"), std::path::PathBuf::from(crate::util::repo_root()).join("msl")];
    while let Some(d) = dirs.pop() {
        if let Ok(rd) = std::fs::read_dir(&d) {
            let mut entries: Vec<_> = rd.flatten().map(|e| e.path()).collect();
            entries.sort();
            for p in entries {
                if p.is_dir() {
                    dirs.push(p);
                } else if p.extension().map(|e| e == "rssl").unwrap_or(false) {
                    if let Ok(t) = std::fs::read_to_string(&p) {
                        v.push((p.to_string_lossy().to_string(), t));
                    }
                }
            }
        }
    }
    v.sort();
    v
}

/// statements and declarations that exercise every statement form, declarator and type syntax
fn statement_sources() -> Vec<String> {
    let stmts = [
        ";",
        "a;",
        "a = b;",
        "float x;",
        "float x = 1.0;",
        "float x = a, y = b, z;",
        "const float x = a;",
        "static const uint k = 3u;",
        "float arr[3];",
        "float arr[2][3];",
        "float arr[] = { 1.0, 2.0 };",
        "float2 v = float2(a, b);",
        "S s = { a, { b, c } };",
        "S s = (S)0;",
        "{ }",
        "{ a; b; }",
        "if (a) b;",
        "if (a) b; else c;",
        "if (a) { b; } else { c; }",
        "if (a) if (b) c; else d;",
        "if (a) { if (b) c; } else d;",
        "if (a) b; else if (c) d; else e;",
        "for (;;) a;",
        "for (int i = 0; i < n; ++i) a;",
        "for (i = 0; i < n; i++) { a; }",
        "for (int i = 0, j = 1; i < n; ++i, --j) a;",
        "while (a) b;",
        "while (a) { b; continue; }",
        "do a; while (b);",
        "do { a; break; } while (b);",
        "switch (a) { case 0: b; break; case 1: case 2: c; default: d; }",
        "switch (a) { default: break; }",
        "switch (a) { case 1 + 2: { b; } break; }",
        "return;",
        "return a;",
        "return (a, b);",
        "discard;",
        "[unroll] for (int i = 0; i < 4; ++i) a;",
        "[unroll(4)] for (int i = 0; i < 4; ++i) a;",
        "[loop] while (a) b;",
        "[branch] if (a) b;",
        "[flatten] if (a) b; else c;",
        "[[vk::foo]] if (a) b;",
        "[[vk::foo(1, 2)]] if (a) b;",
        "[forcecase] switch (a) { case 0: break; }",
        "T<U> t;",
        "T<U, 3> t = a;",
        "vector<float, 3> v;",
        "matrix<float, 3, 3> m;",
        "const T<const U> t;",
        "a.b.c = d[e][g];",
        "f(a)(b);",
        "f<T>(a);",
        "f<T, U>(a, b);",
        "f<3>(a);",
        "x = (T)a + (T)(a + b) * (T)-a;",
        "x = sizeof(T) + sizeof(a) + sizeof(T<U>);",
        "x = a ? b : c ? d : e;",
        "x = (a ? b : c) ? d : e;",
        "x = a < b == c > d;",
        "x = a << b >> c;",
        "x = -a - -b - (-c);",
        "x = !a && ~b || +c;",
        "x = a++ + ++b - c-- - --d;",
        "x += y -= z *= w /= v %= u;",
        "x <<= y >>= z &= w |= v ^= u;",
        "x = T { a, b };",
        "x = 1.0f + 2.0h + 3.0L + 4.0 + 5u + 6ul + 7l + 0x10 + 1e10 + 1.5e-3f;",
        "x = true ? false : true;",
        "x = ns::a + ::b + ns::inner::c;",
        "ns::T t = ns::f(a);",
    ];
    let mut out = Vec::new();
    for s in stmts {
        out.push(format!("void f() {{ {} }}\n", s));
    }
    for (i, s) in stmts.iter().enumerate() {
        // nested one level inside each compound form
        out.push(format!("void f() {{ if (q) {{ {} }} else {{ {} }} }}\n", s, stmts[(i + 7) % stmts.len()]));
        out.push(format!("void f() {{ for (;;) {{ {} }} while (q) {{ {} }} }}\n", s, stmts[(i + 13) % stmts.len()]));
    }
    let decls = [
        "struct S { float a; int b[2]; float4 c : COLOR; };",
        "struct S { float a, b; void m() { a = b; } float g(int x) const { return a; } };",
        "struct S : B { float a; };",
        "template<typename T> struct S { T a; };",
        "template<typename T, uint N> T f(T a) { return a; }",
        "template<typename T> void f(T a, T b);",
        "enum E { A, B = 2, C = B + 1 };",
        "enum class E { A, B };",
        "namespace n { float a; namespace m { float b; } }",
        "static const float a = 1.0;",
        "static const float a[2] = { 1.0, 2.0 };",
        "groupshared float a[64];",
        "extern float a;",
        "float a : register(b0);",
        "Texture2D t : register(t0, space1);",
        "Texture2D<float4> t : register(t3);",
        "RWStructuredBuffer<S> b : register(u1);",
        "SamplerState s : register(s0);",
        "cbuffer C : register(b1) { float a; float4 b; }",
        "cbuffer C { float a; }",
        "ConstantBuffer<S> c : register(b2, space3);",
        "[[rssl::bind_group(1)]] Texture2D t;",
        "[[vk::binding(1, 2)]] Texture2D t;",
        "float f(float a, in float b, out float c, inout float d);",
        "float f(float a = 1.0, int b = 2) { return a; }",
        "float f(float a : A, float b : SV_Position) : SV_Target0 { return a; }",
        "[numthreads(8, 8, 1)] void f(uint3 id : SV_DispatchThreadID) {}",
        "void f(float a[3], float b[2][2]) {}",
        "void f(const float a, const in float3 b) {}",
        "void f(row_major float3x3 m, column_major float3x3 n) {}",
        "void f(nointerpolation float a, linear float b, centroid float c, noperspective float d, sample float e) {}",
        "void f(precise float a) {}",
        "void f(unorm float a, snorm float b) {}",
        "void f(thread float& a, device float* b, constant float& c) {}",
        "void f(float* a, float** b, float& c, float*& d, float (*e)[3]) {}",
        "void f(const float* const a) {}",
        "inline float f() { return 1.0; }",
        "static float f() { return 1.0; }",
    ];
    for d in decls {
        out.push(format!("{}\n", d));
    }
    out.extend(declarator_sources());
    out.extend(context_sources());
    out
}

/// every expression form (by root operator class) in every syntactic position that takes an expression, an initialiser,
/// an argument, a constant or a template argument: the printer must keep the parentheses each position needs
fn context_sources() -> Vec<String> {
    let exprs = [
        "a", "(a, b)", "(a, b, c)", "a = b", "a = (b, c)", "(a = b, c)", "a ? b : c", "a ? (b, c) : d", "(a ? b : c) ? d : e", "a + b", "a < b", "a > b", "a >> b", "a >= b", "a || b", "a | b", "a & b", "-a", "!a", "a++", "(T)a", "(T)(a, b)",
        "f(a, b)", "f((a, b), c)", "a[b]", "a[(b, c)]", "a.b", "sizeof(a)", "sizeof(T)", "g<T>(a)", "1", "1.5", "true",
        // expressions that are token for token also declarations: written in parentheses they are expressions, and the
        // printed form (without the redundant parentheses) has to read back as the same expression
        "(a * b)", "(a & b)", "(a * b = c)", "(a & b = c)", "(a<b> c)", "(a * b, c)", "a * b", "a & b", "a * b = c",
    ];
    let contexts = [
        "void f() { int x = %; }",
        "void f() { int x = %, y = %; }",
        "void f() { int x[2] = { %, % }; }",
        "void f() { S s = { { % }, % }; }",
        "void f() { const int x = %; }",
        "void f() { h(%); }",
        "void f() { h(%, %); }",
        "void f() { x[%]; }",
        "void f() { x[%][%]; }",
        "void f() { return %; }",
        "void f() { %; }",
        "void f() { (%); }",
        "void f() { if (%) a; }",
        "void f() { if (%) a; else b; }",
        "void f() { while (%) a; }",
        "void f() { do a; while (%); }",
        "void f() { for (%; %; %) a; }",
        "void f() { for (int i = %; %; %) a; }",
        "void f() { for (int i = %, j = %; ; ) a; }",
        "void f() { switch (%) { case 1: break; } }",
        "void f() { switch (a) { case %: break; } }",
        "void f() { (T)(%); }",
        "void f() { sizeof(%); }",
        "void f() { h<%>(a); }",
        "void f() { T<%> t; }",
        "void f() { T<%, %> t; }",
        "void f() { float x[%]; }",
        "void f() { float x[%][%]; }",
        "void f() { x = % ? % : %; }",
        "void f() { x = %; }",
        "void f() { x += %; }",
        "void f() { x = -%; }",
        "void f() { x = (%).m; }",
        "void f() { x = (%)[0]; }",
        "void f() { x = (%)(); }",
        "void f() { [unroll(%)] for (;;) a; }",
        "void f() { [[vk::foo(%)]] if (a) b; }",
        "void f(int p = %) {}",
        "void f(int p = %, int q = %) {}",
        "static int g = %;",
        "static int g = %, k = %;",
        "static const int g[2] = { %, % };",
        "enum E { A = % };",
        "enum E { A = %, B = % };",
        "struct S { int m[%]; };",
        "[numthreads(%, 1, 1)] void f() {}",
        "float g[%];",
        "template<typename T, int N = %> void f() {}",
    ];
    let mut out = Vec::new();
    for c in contexts {
        for e in exprs {
            out.push(format!("{}\n", c.replace('%', e)));
        }
    }
    out
}

/// every declarator over {pointer (plain / const / volatile / const volatile), reference, pointer to pointer, reference to
/// pointer} x {no array, [2], [2][3]} plus the parenthesised pointer/reference-to-array forms, alone and in every ordered
/// pair inside one declaration (local variable, struct member, global), and alone as a parameter
fn declarator_forms() -> Vec<String> {
    let prefixes = ["", "*", "* const ", "* volatile ", "* const volatile ", "&", "**", "* const *", "** const ", "*&", "* const &"];
    let suffixes = ["", "[2]", "[2][3]"];
    let mut v = Vec::new();
    for p in prefixes {
        for s in suffixes {
            v.push(format!("{}N{}", p, s));
        }
    }
    for f in ["(*N)[2]", "(* const N)[2]", "(&N)[2]", "(*N[2])[3]"] {
        v.push(f.to_string());
    }
    v
}

fn declarator_sources() -> Vec<String> {
    let forms = declarator_forms();
    let mut out = Vec::new();
    for a in &forms {
        let da = a.replace('N', "a");
        for base in ["float", "const float", "S"] {
            out.push(format!("void f() {{ {} {}; }}\n", base, da));
            out.push(format!("void f({} {}) {{}}\n", base, da));
            out.push(format!("struct Q {{ {} {}; }};\n", base, da));
        }
        out.push(format!("void f() {{ float {} = x; }}\n", da));
        for b in &forms {
            let db = b.replace('N', "b");
            out.push(format!("void f() {{ float {}, {}; }}\n", da, db));
            out.push(format!("struct Q {{ float {}, {}; }};\n", da, db));
            out.push(format!("static float {}, {};\n", da, db));
        }
    }
    out
}

fn double_roundtrip(name: &str, src: &str, acc: &mut Acc) {
    double_roundtrip_sig(name, src, None, acc)
}

/// `sig`: signature class to report a failure under (generated spaces that know which dimension a source exercises);
/// None = class derived from the source text
fn double_roundtrip_sig(name: &str, src: &str, sig: Option<&str>, acc: &mut Acc) {
    // one evaluation = one (source, printer target) round trip; outcomes are recorded per target below
    acc.evals += 2;
    let r = guard(|| {
        let t1 = match crate::util::parse_src(src) {
            Ok(t) => t,
            Err(_) => return Ok(None), // not a tree the parser produces
        };
        let mut results = Vec::new();
        for target in [rssl_formatter::Target::Rssl, rssl_formatter::Target::Hlsl] {
            let tname = format!("{:?}", target);
            let text = match rssl_formatter::format(&t1, target) {
                Ok(t) => t,
                Err(e) => {
                    results.push((tname, Err(format!("{:?}", e))));
                    continue;
                }
            };
            let t2 = match crate::util::parse_src(&text) {
                Ok(t) => t,
                Err(e) => return Err((tname, text, format!("does not parse: {}", one_line(&e, 200)))),
            };
            let mut a = ast_norm::dbg(&t1);
            let mut b = ast_norm::dbg(&t2);
            if a != b {
                // dropping redundant parentheses can turn an expression statement into one the parser must leave
                // ambiguous (`(a & b);` -> `a & b;`): resolve ambiguity nodes of both trees by the type checker's rule
                let (mut n1, mut n2) = (t1.clone(), t2.clone());
                Norm::new(&is_type_name).module(&mut n1);
                Norm::new(&is_type_name).module(&mut n2);
                a = ast_norm::dbg(&n1);
                b = ast_norm::dbg(&n2);
            }
            if a != b {
                // first difference
                let pos = a.bytes().zip(b.bytes()).position(|(x, y)| x != y).unwrap_or(a.len().min(b.len()));
                let lo = pos.saturating_sub(60);
                return Err((tname, text, format!("tree differs at …{}… vs …{}…", safe_slice(&a, lo, pos + 60), safe_slice(&b, lo, pos + 60))));
            }
            results.push((tname, Ok(())));
        }
        Ok(Some(results))
    });
    match r {
        // node kinds the printer documents as unsupported (the property excludes them)
        Err(p) if p.message.contains("not supported in formatter") || p.message.contains("not supported for formatting") => acc.count("trees_with_node_kinds_the_printer_documents_as_unsupported"),
        Err(p) => acc.violation(Violation {
            signature: p.signature(),
            detail: format!("{}: print/parse panicked: {}", name, p.message),
            replay: format!("kind: source\n{}", src),
        }),
        Ok(Ok(None)) => acc.count("sources_not_parsable"),
        Ok(Ok(Some(results))) => {
            for (t, r) in results {
                match r {
                    Ok(()) => acc.outcome(&(name.to_string(), t)),
                    Err(_) => acc.count("trees_not_printable(ambiguous or unsupported)"),
                }
            }
        }
        Ok(Err((target, text, why))) => {
            acc.violation(Violation {
                signature: match sig {
                    Some(s) => s.to_string(),
                    None => format!("reparse|{}|{}", target, classify_source(src, &text)),
                },
                detail: format!("{}: parser tree of `{}` printed for {} as `{}` {}", name, one_line(src, 120), target, one_line(&text, 160), why),
                replay: match sig {
                    Some(s) => format!("kind: template-arg\n{}\n{}", s, src),
                    None => format!("kind: source\n{}", src),
                },
            });
        }
    }
}

fn safe_slice(s: &str, lo: usize, hi: usize) -> String {
    let hi = hi.min(s.len());
    let mut lo = lo.min(hi);
    while lo > 0 && !s.is_char_boundary(lo) {
        lo -= 1;
    }
    let mut hi2 = hi;
    while hi2 < s.len() && !s.is_char_boundary(hi2) {
        hi2 += 1;
    }
    s[lo..hi2].to_string()
}

/// a stable class for double-round-trip failures: the first line of the source that changes its printed form
fn classify_source(src: &str, _text: &str) -> String {
    // generated sources are one construct per file: use the construct's leading keyword/shape
    let t = src.trim();
    let t = t.strip_prefix("void f() { ").unwrap_or(t);
    let head: String = t.chars().take(28).collect();
    head.replace('\n', " ")
}

fn exporter_tree_check(name: &str, src: &str, acc: &mut Acc) {
    use crate::util::*;
    acc.evals += 1;
    let r = guard(|| {
        let _ = rssl::hlsl::verif::take_last_ast();
        let res = compile1(src, Cfg::Dx, Mode::NoPipeline);
        let tree = rssl::hlsl::verif::take_last_ast();
        (res, tree)
    });
    let (res, tree) = match r {
        Ok(x) => x,
        Err(_) => {
            acc.count("exporter_panics(reported under C08)");
            return;
        }
    };
    let (Ok(ps), Some(tree)) = (res, tree) else {
        acc.count("exporter_inputs_rejected");
        return;
    };
    let text = String::from_utf8_lossy(&ps[0].data).to_string();
    let parsed = match guard(|| crate::util::parse_src(&text)) {
        Ok(Ok(p)) => p,
        Ok(Err(e)) => {
            acc.violation(Violation {
                signature: "exporter-tree|unparsable".into(),
                detail: format!("{}: HLSL printed from the exporter's tree does not parse: {}", name, one_line(&e, 200)),
                replay: format!("kind: exporter\n{}", src),
            });
            return;
        }
        Err(p) => {
            acc.violation(Violation { signature: p.signature(), detail: format!("{}: parser panicked on emitted HLSL", name), replay: format!("kind: exporter\n{}", src) });
            return;
        }
    };
    // type environment: built-ins + every struct/enum/typedef name declared in the exporter's tree
    let mut names: Vec<String> = Vec::new();
    fn collect(defs: &[RootDefinition], names: &mut Vec<String>) {
        for d in defs {
            match d {
                RootDefinition::Struct(s) => names.push(s.name.node.clone()),
                RootDefinition::Enum(e) => names.push(e.name.node.clone()),
                RootDefinition::Namespace(_, inner) => collect(inner, names),
                _ => {}
            }
        }
    }
    collect(&tree.root_definitions, &mut names);
    let is_ty = move |id: &ScopedIdentifier| -> bool {
        let last = &id.identifiers.last().unwrap().node;
        ast_norm::is_builtin_type_name(last) || names.iter().any(|n| n == last)
    };
    let mut want = tree.clone();
    let mut got = parsed;
    let mut n = Norm::new(&is_ty);
    n.module(&mut want);
    n.module(&mut got);
    let a = ast_norm::dbg(&want);
    let b = ast_norm::dbg(&got);
    if a == b {
        acc.outcome(&name.to_string());
    } else {
        let pos = a.bytes().zip(b.bytes()).position(|(x, y)| x != y).unwrap_or(a.len().min(b.len()));
        let lo = pos.saturating_sub(80);
        let ctx = safe_slice(&a, lo, pos + 80);
        acc.violation(Violation {
            signature: format!("exporter-tree|differs|{}", exporter_diff_class(&ctx)),
            detail: format!("{}: exporter tree vs re-read tree differ at …{}… vs …{}…", name, ctx, safe_slice(&b, lo, pos + 80)),
            replay: format!("kind: exporter\n{}", src),
        });
    }
}

fn exporter_diff_class(ctx: &str) -> String {
    for k in ["Literal(Float", "Literal(Int", "UnaryOperation", "BinaryOperation", "Cast", "TernaryConditional", "Call", "AmbiguousParseBranch", "Either", "SizeOf", "Attribute", "Declarator", "Semantic", "Register"] {
        if ctx.contains(k) {
            return k.trim_start_matches("Literal(").to_string();
        }
    }
    "other".to_string()
}


// ---------------------------------------------------------------------------------------------
// space 9: expression-valued template arguments

/// operators with holes (`%`): every binary operator and the conditional operator
fn template_arg_operators() -> Vec<(&'static str, String)> {
    let table: &[(&str, &str)] = &[
        ("Add", "+"), ("Subtract", "-"), ("Multiply", "*"), ("Divide", "/"), ("Modulus", "%"), ("LeftShift", "<<"), ("RightShift", ">>"),
        ("BitwiseAnd", "&"), ("BitwiseOr", "|"), ("BitwiseXor", "^"), ("BooleanAnd", "&&"), ("BooleanOr", "||"),
        ("LessThan", "<"), ("LessEqual", "<="), ("GreaterThan", ">"), ("GreaterEqual", ">="), ("Equality", "=="), ("Inequality", "!="),
        ("Assignment", "="), ("SumAssignment", "+="), ("DifferenceAssignment", "-="), ("ProductAssignment", "*="), ("QuotientAssignment", "/="),
        ("RemainderAssignment", "%="), ("LeftShiftAssignment", "<<="), ("RightShiftAssignment", ">>="), ("BitwiseAndAssignment", "&="),
        ("BitwiseOrAssignment", "|="), ("BitwiseXorAssignment", "^="), ("Sequence", ","),
    ];
    assert_eq!(table.len(), BINARY.len());
    let mut v: Vec<(&'static str, String)> = table.iter().map(|(n, t)| (*n, format!("\u{1} {} \u{1}", t))).collect();
    v.push(("Ternary", "\u{1} ? \u{1} : \u{1}".to_string()));
    v
}

/// fill the holes of an operator pattern, in order
fn fill(pattern: &str, parts: &[String]) -> String {
    let mut out = String::new();
    let mut i = 0;
    for ch in pattern.chars() {
        if ch == '\u{1}' {
            out.push_str(&parts[i]);
            i += 1;
        } else {
            out.push(ch);
        }
    }
    out
}

/// (class of the outermost node, expression text): every expression form by outermost node over leaves, then every
/// operator pair (outer operator, operand position, inner operator) with and without parentheses around the inner
/// operation, then every unary-like wrapper over every operator; each written with and without parentheses around the
/// whole argument when the bare spelling contains no < or > (bare spellings the parser rejects are counted, not judged)
fn template_arg_expressions() -> Vec<(String, String)> {
    let ops = template_arg_operators();
    let names = ["a", "b", "c", "d", "e"];
    let mut inner: Vec<(String, String)> = Vec::new();
    // depth 1: operators over leaves
    for (n, pat) in &ops {
        let holes = pat.matches('\u{1}').count();
        let parts: Vec<String> = names[..holes].iter().map(|s| s.to_string()).collect();
        inner.push((n.to_string(), fill(pat, &parts)));
    }
    // depth 1: every other node kind
    for (n, t) in [
        ("Leaf", "a"), ("Leaf", "T"), ("Literal", "1"), ("Literal", "1u"), ("Literal", "1.5"), ("Literal", "true"), ("Literal", "-1"),
        ("Unary", "-a"), ("Unary", "+a"), ("Unary", "!a"), ("Unary", "~a"), ("Unary", "++a"), ("Unary", "--a"), ("Unary", "a++"), ("Unary", "a--"), ("Unary", "*a"), ("Unary", "&a"),
        ("Cast", "(T)a"), ("Cast", "(float)a"), ("Call", "k()"), ("Call", "k(a)"), ("Call", "k(a, b)"), ("Call", "k((a, b))"), ("CallT", "g<T>(a)"), ("CallT", "g<(a > b)>(c)"), ("CallT", "g<(a >> b)>(c)"),
        ("CallT", "g<a + b>(c)"), ("Subscript", "a[b]"), ("Subscript", "a[b > c]"), ("Subscript", "a[b >> c]"), ("Member", "a.b"), ("Sizeof", "sizeof(a)"), ("Sizeof", "sizeof(T)"), ("Sizeof", "sizeof(T<(a >> b)>)"),
    ] {
        inner.push((n.to_string(), t.to_string()));
    }
    // depth 2: outer operator x operand position x inner operator, inner operation parenthesised or bare
    for (on, opat) in &ops {
        let holes = opat.matches('\u{1}').count();
        for pos in 0..holes {
            for (_, ipat) in &ops {
                let ih = ipat.matches('\u{1}').count();
                for paren in [true, false] {
                    let mut k = 0;
                    let mut parts = Vec::new();
                    for h in 0..holes {
                        if h == pos {
                            let ip: Vec<String> = names[k..k + ih].iter().map(|s| s.to_string()).collect();
                            k += ih;
                            let t = fill(ipat, &ip);
                            parts.push(if paren { format!("({})", t) } else { t });
                        } else {
                            parts.push(names[k].to_string());
                            k += 1;
                        }
                    }
                    // without the inner parentheses precedence decides which operator ends up outermost
                    inner.push((if paren { on.to_string() } else { "UnparenthesisedPair".to_string() }, fill(opat, &parts)));
                }
            }
        }
    }
    // depth 2: unary-like wrappers over every operator
    for (wn, w) in [("Unary", "-(\u{1})"), ("Unary", "!(\u{1})"), ("Unary", "(\u{1})++"), ("Cast", "(T)(\u{1})"), ("Call", "k(\u{1})"), ("Call", "k(d, (\u{1}))"), ("Subscript", "d[\u{1}]"), ("Subscript", "(\u{1})[d]"), ("Member", "(\u{1}).m"), ("Sizeof", "sizeof(\u{1})")] {
        for (_, ipat) in &ops {
            let ih = ipat.matches('\u{1}').count();
            let ip: Vec<String> = names[..ih].iter().map(|s| s.to_string()).collect();
            inner.push((wn.to_string(), fill(w, &[fill(ipat, &ip)])));
        }
    }
    let mut out = Vec::new();
    for (n, t) in inner {
        // `(T)` would be the type name of the fixed type environment used as a value: only the bare spelling is a tree
        if t != "T" {
            out.push((n.clone(), format!("({})", t)));
        }
        // bare spellings containing < or > are not spellings of a template argument (the parser reads them as comparisons
        // of the surrounding names or rejects them); their parenthesised twins above build the intended trees
        if !t.contains('<') && !t.contains('>') {
            out.push((n, t));
        }
    }
    out
}

/// every syntactic position of a template argument list: on calls and on types, first / later / only argument, and
/// types in every place a type can be written (local, parameter, global, member, return type, cast, sizeof, nested)
fn template_arg_contexts() -> Vec<(&'static str, &'static str)> {
    vec![
        ("call", "void f() { h<\u{1}>(x); }"),
        ("call", "void f() { h<T, \u{1}>(x); }"),
        ("call", "void f() { h<\u{1}, T>(x); }"),
        ("call", "void f() { h<\u{1}, \u{1}>(x); }"),
        ("call", "void f() { x = h<\u{1}>(y) + 1; }"),
        ("call", "void f() { p.h<\u{1}>(x); }"),
        ("call", "void f() { h<T<\u{1}> >(x); }"),
        ("type", "void f() { T<\u{1}> t; }"),
        ("type", "void f() { T<float, \u{1}> t; }"),
        ("type", "void f() { T<\u{1}, float> t; }"),
        ("type", "void f() { T<\u{1}, \u{1}> t; }"),
        ("type", "void f() { T<U<\u{1}> > t; }"),
        ("type", "void f(vector<float, \u{1}> v) {}"),
        ("type", "static T<\u{1}> g;"),
        ("type", "struct S { T<\u{1}> m; };"),
        ("type", "T<\u{1}> f() { return x; }"),
        ("type", "void f() { x = (T<\u{1}>)y; }"),
        ("type", "void f() { x = sizeof(T<\u{1}>); }"),
    ]
}

fn template_arg_case(idx: u64) -> Option<(String, String)> {
    thread_local! {
        static EXPRS: Vec<(String, String)> = template_arg_expressions();
    }
    let ctxs = template_arg_contexts();
    EXPRS.with(|ex| {
        let ne = ex.len() as u64;
        // simplest first: expressions are ordered by depth, contexts vary fastest
        let (e, c) = ((idx / ctxs.len() as u64), (idx % ctxs.len() as u64) as usize);
        if e >= ne {
            return None;
        }
        let (class, text) = &ex[e as usize];
        let (cclass, pat) = ctxs[c];
        let holes = pat.matches('\u{1}').count();
        let parts: Vec<String> = (0..holes).map(|_| text.clone()).collect();
        Some((format!("template-arg|{}|{}", cclass, class), format!("{}\n", fill(pat, &parts))))
    })
}

fn template_arg_total() -> u64 {
    (template_arg_expressions().len() * template_arg_contexts().len()) as u64
}

// ---------------------------------------------------------------------------------------------

pub fn run(ctx: &Ctx) -> i32 {
    let mut rep = Report::new("exploration");
    rep.rule = "every enumerated syntax tree is printed by rssl_formatter::format and re-read by rssl_preprocess + rssl_parser; non-trivial = printable and re-parsable; distinct = different tree shape / literal / source".into();
    let full = full_ctors();
    let plain = LeafMode::PLAIN;

    // ---- space 6: literals
    let lits = literal_values();
    let negs = negative_literal_values();
    let r = run_par(ctx, (lits.len() + negs.len()) as u64, 8, |idx, acc| {
        let i = idx as usize;
        if i < lits.len() { check_literal(&lits[i], false, acc) } else { check_literal(&negs[i - lits.len()], true, acc) }
        if i % 37 == 0 {
            acc.sample(obj(vec![("space", "literal".into()), ("node", format!("{:?}", if i < lits.len() { &lits[i] } else { &negs[i - lits.len()] }).into())]));
        }
    });
    rep.absorb("literal_nodes", r);

    // ---- space 8: parser-produced trees (corpus + statement/declaration forms)
    let mut sources: Vec<(String, String)> = corpus_files();
    rep.cov("corpus_files", Json::Int(sources.len() as i64));
    for (i, s) in statement_sources().into_iter().enumerate() {
        sources.push((format!("generated-{}", i), s));
    }
    let r = run_par(ctx, sources.len() as u64, 4, |idx, acc| {
        let (n, s) = &sources[idx as usize];
        double_roundtrip(n, s, acc);
        if idx % 97 == 3 {
            acc.sample(obj(vec![("space", "parser-tree".into()), ("source", one_line(s, 100).into())]));
        }
    });
    rep.absorb("parser_trees", r);

    // ---- space 9: expression-valued template arguments (every outermost operator x every template argument position)
    let tot9 = template_arg_total();
    let r = run_par(ctx, tot9, 256, |idx, acc| {
        if let Some((sig, src)) = template_arg_case(idx) {
            double_roundtrip_sig(src.trim_end(), &src, Some(&sig), acc);
            if idx % 20_011 == 7 {
                acc.sample(obj(vec![("space", "template-arg".into()), ("source", one_line(&src, 100).into())]));
            }
        }
    });
    rep.absorb("template_argument_expressions", r);

    // ---- space 7: exporter trees
    let r = run_par(ctx, sources.len() as u64, 4, |idx, acc| {
        let (n, s) = &sources[idx as usize];
        exporter_tree_check(n, s, acc);
    });
    rep.absorb("exporter_trees", r);

    // ---- space 1: depth ≤ 2, full alphabet
    let nin = full.len() as u64;
    let mut offsets = Vec::new();
    let mut total = 0u64;
    for c in &full {
        offsets.push(total);
        total += depth2_count(c, nin);
    }
    let locate = |idx: u64| -> Shape {
        let k = match offsets.binary_search(&idx) {
            Ok(k) => k,
            Err(k) => k - 1,
        };
        depth2_shape(&full[k], &full, idx - offsets[k])
    };
    let r = run_par(ctx, total, 512, |idx, acc| {
        let s = locate(idx);
        check_shape(&s, &plain, acc);
        if idx % 50_021 == 11 {
            acc.sample(obj(vec![("space", "depth2".into()), ("tree", s.describe().into())]));
        }
    });
    rep.absorb("depth2_full_alphabet", r);

    // ---- space 1b: leaf kinds, uniformly and one position at a time
    let kinds: Vec<LeafKind> = LEAF_KINDS.iter().copied().filter(|k| *k != LeafKind::Id).collect();
    let nk = kinds.len() as u64;
    let thin: u64 = ctx.pick(25, 1);
    let r = run_par(ctx, (total / thin) * nk, 512, |idx, acc| {
        let k = kinds[(idx % nk) as usize];
        let s = locate((idx / nk) * thin);
        check_shape(&s, &LeafMode { mode: 0, kind: k }, acc);
        // one position at a time (first and last leaf)
        if s.leaves() >= 2 {
            check_shape(&s, &LeafMode { mode: 1, kind: k }, acc);
            check_shape(&s, &LeafMode { mode: 2, kind: k }, acc);
        }
    });
    if thin != 1 {
        rep.caps_hit.push(format!("quick tier: leaf-kind substitution applied to every {}th depth-2 shape (thorough: all)", thin));
    }
    rep.absorb("depth2_leaf_kinds", r);

    // ---- space 2: spines
    let letters = spine_letters(&full);
    let nl = letters.len() as u64;
    let total3 = nl * nl * full.len() as u64;
    let r = run_par(ctx, total3, 512, |idx, acc| {
        let s = spine_shape(&full, &letters, &full, idx, 3);
        check_shape(&s, &plain, acc);
        if idx % 90_001 == 5 {
            acc.sample(obj(vec![("space", "spine3".into()), ("tree", s.describe().into())]));
        }
    });
    rep.absorb("spine_depth3_full_alphabet", r);
    let cls = class_ctors();
    let cl = spine_letters(&cls);
    let ncl = cl.len() as u64;
    if !ctx.quick() {
        let tot = ncl.pow(3) * cls.len() as u64;
        let r = run_par(ctx, tot, 1024, |idx, acc| {
            let s = spine_shape(&cls, &cl, &cls, idx, 4);
            check_shape(&s, &plain, acc);
            if idx % 1_000_003 == 5 {
                acc.sample(obj(vec![("space", "spine4".into()), ("tree", s.describe().into())]));
            }
        });
        rep.absorb("spine_depth4_class_alphabet", r);
        // depth 5 over a coarser alphabet: one constructor per precedence level that has a distinct parenthesisation rule
        let coarse = vec![
            Ctor::Un(UnaryOp::Minus),
            Ctor::Un(UnaryOp::PostfixDecrement),
            Ctor::Bin(BinOp::Subtract),
            Ctor::Bin(BinOp::Multiply),
            Ctor::Bin(BinOp::LessThan),
            Ctor::Bin(BinOp::GreaterThan),
            Ctor::Bin(BinOp::Assignment),
            Ctor::Bin(BinOp::Sequence),
            Ctor::Ternary,
            Ctor::Subscript,
            Ctor::Call1,
            Ctor::Cast,
        ];
        let col = spine_letters(&coarse);
        let tot = (col.len() as u64).pow(4) * coarse.len() as u64;
        let r = run_par(ctx, tot, 1024, |idx, acc| {
            let s = spine_shape(&coarse, &col, &coarse, idx, 5);
            check_shape(&s, &plain, acc);
            if idx % 1_000_003 == 5 {
                acc.sample(obj(vec![("space", "spine5".into()), ("tree", s.describe().into())]));
            }
        });
        rep.absorb("spine_depth5_coarse_alphabet", r);
        // depth 6 (the property's bound) over the 8 constructors whose parenthesisation rules differ most
        let coarse6 = vec![
            Ctor::Un(UnaryOp::Minus),
            Ctor::Un(UnaryOp::PostfixDecrement),
            Ctor::Bin(BinOp::Subtract),
            Ctor::Bin(BinOp::GreaterThan),
            Ctor::Bin(BinOp::Assignment),
            Ctor::Ternary,
            Ctor::Call1,
            Ctor::Cast,
        ];
        let col6 = spine_letters(&coarse6);
        let tot = (col6.len() as u64).pow(5) * coarse6.len() as u64;
        let r = run_par(ctx, tot, 1024, |idx, acc| {
            let s = spine_shape(&coarse6, &col6, &coarse6, idx, 6);
            check_shape(&s, &plain, acc);
            if idx % 1_000_003 == 5 {
                acc.sample(obj(vec![("space", "spine6".into()), ("tree", s.describe().into())]));
            }
        });
        rep.absorb("spine_depth6_coarse_alphabet", r);
    } else {
        rep.caps_hit.push("quick tier: spine trees of depth 4 and 5 are explored in the thorough tier only".into());
    }

    rep.assumptions = vec![
        "ambiguity nodes the parser creates on purpose (AmbiguousParseBranch, Either, AmbiguousDeclarationOrExpression) are resolved in both trees with the type checker's rule against a fixed type environment (T, U, built-in type names, declared struct/enum names)".into(),
        "negative / NaN literal nodes have no token of their own; they are judged on value and type (reading back as unary minus on the positive literal with the same value is accepted)".into(),
        "trees the formatter reports as unprintable (FormatError) produced by the parser are outside the property; generated trees must be printable".into(),
        "depth bound: full alphabet to depth 2 (all trees) and 3 (spines); thorough adds spines of depth 4 over a 26-class alphabet, depth 5 over a 12-class alphabet and depth 6 over an 8-class alphabet; general (non-spine) trees stop at depth 2".into(),
        "MSL target printing is not re-read (no Metal parser); Rssl and Hlsl targets are".into(),
    ];
    finish(ctx, rep)
}

fn parse_shape(s: &str) -> Option<Shape> {
    // grammar: Name | Name(child,child,...) ; child = _ | shape
    fn p(b: &[u8], i: &mut usize) -> Option<Option<Shape>> {
        if b.get(*i) == Some(&b'_') {
            *i += 1;
            return Some(None);
        }
        let st = *i;
        while *i < b.len() && (b[*i].is_ascii_alphanumeric()) {
            *i += 1;
        }
        let name = std::str::from_utf8(&b[st..*i]).ok()?;
        let ctor = full_ctors().into_iter().find(|c| c.name() == name)?;
        let mut children = Vec::new();
        if b.get(*i) == Some(&b'(') {
            *i += 1;
            loop {
                children.push(p(b, i)?);
                match b.get(*i) {
                    Some(b',') => *i += 1,
                    Some(b')') => {
                        *i += 1;
                        break;
                    }
                    _ => return None,
                }
            }
        }
        Some(Some(Shape { ctor, children }))
    }
    let mut i = 0;
    p(s.as_bytes(), &mut i)?
}

pub fn replay(ctx: &Ctx, body: &str) -> i32 {
    let mut acc = Acc::default();
    let (kind, rest) = body.split_once('\n').unwrap_or((body, ""));
    match kind.trim() {
        "kind: shape" => {
            let mut lines = rest.lines();
            let lk_line = lines.next().unwrap_or("leaves: Id");
            let shape_line = lines.next().unwrap_or("");
            let Some(shape) = parse_shape(shape_line.trim()) else {
                eprintln!("machinery error: cannot parse shape {:?}", shape_line);
                return 2;
            };
            let lk = LeafMode::parse(lk_line.trim_start_matches("leaves:").trim());
            check_shape(&shape, &lk, &mut acc);
        }
        "kind: literal" => {
            let all: Vec<(Literal, bool)> = literal_values().into_iter().map(|l| (l, false)).chain(negative_literal_values().into_iter().map(|l| (l, true))).collect();
            let want = rest.trim();
            match all.into_iter().find(|(l, _)| format!("{:?}", l) == want) {
                Some((l, neg)) => check_literal(&l, neg, &mut acc),
                None => {
                    eprintln!("machinery error: unknown literal {:?}", want);
                    return 2;
                }
            }
        }
        "kind: source" => double_roundtrip("replay", rest, &mut acc),
        "kind: template-arg" => {
            let (sig, src) = rest.split_once('\n').unwrap_or((rest, ""));
            double_roundtrip_sig("replay", src, Some(sig.trim()), &mut acc)
        }
        "kind: exporter" => exporter_tree_check("replay", rest, &mut acc),
        k => {
            eprintln!("machinery error: unknown replay kind {:?}", k);
            return 2;
        }
    }
    finish_replay(ctx, &acc)
}

//! C12 — macro expansion and inclusion equal reference textual substitution.
//!
//! Spaces (all enumerated completely and deterministically, see DESIGN.md §5 C12):
//!  A  macro expansion: every ordered triple of the curated definition alphabet × every invocation form (× 2 whitespace
//!     styles), compared token by token with a reference C macro expander (Prosser hide sets, no `#`).
//!     A4 (thorough): a fourth definition from an 8-element sub-alphabet.
//!  P  operand spellings of `##`: every pair (P2, 7 routes of an operand to ##) and every triple (P3, chains `a ## b ## c`,
//!     3 routes) of a 21-element operand alphabet (identifiers, decimal / hexadecimal / octal / suffixed integer literals):
//!     the paste is the concatenation of the operand *spellings* re-read as one token (class `paste-operand-spelling`).
//!  B  `#undef` / redefinition between two uses ("take effect from their line onward").
//!  C  include graphs (3 files quick / 4 files thorough, ≤ 2 lines per file): preprocess(entry) == preprocess(pasted text).
//!  D  define placement: defines argument of preprocess()/compile() vs `#define` lines before the first line
//!     (D1 value classes × programs, D2 every movable object-like definition of every space-A program, D3 compile()).
//!
//! Every call of rssl's preprocess() runs in an isolated worker process (`vcheck --worker C12`) fed in batches, because
//! unbounded macro/include recursion overflows the stack and aborts the process; a dead worker is attributed to the case
//! it was running (signatures `...|stack-overflow|...`, `...|does-not-terminate|...`, `...|memory-exhausted|...`).
//!
//! Signature vocabulary:
//!   macro|expansion-differs|<class>      valid, non-recursive program expands to something else than the reference (or is
//!                                        rejected); classes: name-meets-parenthesis-after-empty-expansion,
//!                                        newline-before-argument-list, after-redefinition-or-undef (space B), paste, paste-operand-spelling (space P),
//!                                        args-from-following-text, unused-paste-in-table, plain
//!   macro|stack-overflow|recursive-macro    expansion of a self-referential macro does not terminate (worker died);
//!                                        also macro|does-not-terminate|.. (CPU limit) and ..|non-recursive
//!   include|paste-differs / include|valid-graph-rejected / include|missing-file-not-named / include|missing-file-accepted
//!   define-placement|differs|<value class>   tokens differ, or one placement is accepted and the other rejected
//!   define-placement|output-differs / define-placement|diagnostic-differs   (compile level)
//!   define-placement|panic|<file>|<message>   and panic|<file>|<message> for any other panic

use crate::engine::*;
use crate::json::{Json, obj};
use crate::util::*;
use rssl::text::tokens::{FollowedBy, Identifier, Token};
use rssl::text::{CompileErrorExt, Locate, SourceLocation, SourceManager};
use std::collections::VecDeque;

// ---------------------------------------------------------------------------------------------
// token programs

#[derive(Clone, Debug, PartialEq, Eq, Hash)]
pub struct DefSpec {
    pub name: String,
    pub params: Option<Vec<String>>,
    pub body: Vec<String>,
}

#[derive(Clone, Debug, PartialEq, Eq, Hash)]
pub enum Line {
    Define(DefSpec),
    Undef(String),
    /// tokens of one text line ("<NL>" inside = a further physical line break inside the same run)
    Text(Vec<String>),
}

const NL: &str = "<NL>";

/// `F(x,y) := x ## y` / `A := 1`
fn parse_def(s: &str) -> Result<DefSpec, String> {
    let (head, body) = s.split_once(":=").ok_or_else(|| format!("definition without := : {:?}", s))?;
    let head = head.trim();
    let body: Vec<String> = body.split_whitespace().map(|t| t.to_string()).collect();
    if let Some((name, rest)) = head.split_once('(') {
        let rest = rest.trim_end().strip_suffix(')').ok_or_else(|| format!("bad header {:?}", head))?;
        let params: Vec<String> = rest.split(',').map(|p| p.trim().to_string()).filter(|p| !p.is_empty()).collect();
        Ok(DefSpec { name: name.trim().to_string(), params: Some(params), body })
    } else {
        Ok(DefSpec { name: head.to_string(), params: None, body })
    }
}

fn def(s: &str) -> DefSpec {
    parse_def(s).unwrap()
}

fn toks(s: &str) -> Vec<String> {
    s.split_whitespace().map(|t| t.to_string()).collect()
}

fn def_to_string(d: &DefSpec) -> String {
    let mut s = d.name.clone();
    if let Some(p) = &d.params {
        s.push('(');
        s.push_str(&p.join(","));
        s.push(')');
    }
    s.push_str(" := ");
    s.push_str(&d.body.join(" "));
    s
}

fn is_word_char(c: char) -> bool {
    c.is_ascii_alphanumeric() || c == '_'
}

/// join tokens; style 0 = one space between all tokens, style 1 = no space next to ( ) , ; [ ], style 2 = a block
/// comment between all tokens
fn join_tokens(ts: &[String], style: u8, out: &mut String) {
    let mut prev: Option<&str> = None;
    for t in ts {
        if t == NL {
            out.push('\n');
            prev = None;
            continue;
        }
        if let Some(p) = prev {
            let tight = |x: &str| matches!(x, "(" | ")" | "," | ";" | "[" | "]");
            if style == 2 {
                // a comment is white space: between every two tokens
                out.push_str("/*c*/");
                out.push_str(t);
                prev = Some(t);
                continue;
            }
            let need = if style == 0 {
                true
            } else if tight(p) || tight(t) {
                false
            } else {
                // keep a space unless one side is a word and the other is punctuation that cannot merge
                let pw = p.chars().all(is_word_char);
                let tw = t.chars().all(is_word_char);
                pw == tw
            };
            if need {
                out.push(' ');
            }
        }
        out.push_str(t);
        prev = Some(t);
    }
}

pub fn render(lines: &[Line], style: u8) -> String {
    let mut s = String::new();
    for l in lines {
        match l {
            Line::Define(d) => {
                s.push_str("#define ");
                s.push_str(&d.name);
                if let Some(p) = &d.params {
                    s.push('(');
                    s.push_str(&p.join(if style == 0 { ", " } else { "," }));
                    s.push(')');
                }
                if !d.body.is_empty() {
                    s.push(' ');
                    join_tokens(&d.body, style, &mut s);
                }
            }
            Line::Undef(n) => {
                s.push_str("#undef ");
                s.push_str(n);
            }
            Line::Text(ts) => join_tokens(ts, style, &mut s),
        }
        s.push('\n');
    }
    s
}

fn prog_to_replay(kind: &str, lines: &[Line], style: u8) -> String {
    let mut s = format!("kind: {}\nstyle: {}\n", kind, style);
    for l in lines {
        match l {
            Line::Define(d) => s.push_str(&format!("D {}\n", def_to_string(d))),
            Line::Undef(n) => s.push_str(&format!("U {}\n", n)),
            Line::Text(ts) => s.push_str(&format!("T {}\n", ts.join(" "))),
        }
    }
    s
}

fn parse_prog(rest: &str) -> Result<(Vec<Line>, u8), String> {
    let mut style = 0;
    let mut lines = Vec::new();
    for l in rest.lines() {
        if let Some(v) = l.strip_prefix("style:") {
            style = v.trim().parse::<u8>().map_err(|e| e.to_string())?;
        } else if let Some(d) = l.strip_prefix("D ") {
            lines.push(Line::Define(parse_def(d)?));
        } else if let Some(n) = l.strip_prefix("U ") {
            lines.push(Line::Undef(n.trim().to_string()));
        } else if let Some(t) = l.strip_prefix("T") {
            lines.push(Line::Text(toks(t)));
        } else if !l.trim().is_empty() {
            return Err(format!("cannot parse replay line {:?}", l));
        }
    }
    Ok((lines, style))
}

// ---------------------------------------------------------------------------------------------
// reference model: C macro expansion (Prosser's hide-set algorithm, no `#`)

#[derive(Clone, Debug)]
struct RTok {
    sp: String,
    /// hide set: bit i = the macro at index i of the current table (`Expander::macros`)
    hs: u64,
}

#[derive(Clone, Debug, Default, PartialEq, Eq)]
pub struct RefFlags {
    /// an identifier was left alone because it was painted (in its own hide set): recursive macro set
    pub suppressed: bool,
    /// an operand of ## was a defined macro name (excluded by the property)
    pub paste_macro_operand: bool,
    /// ## produced something that is not one token of the reference token grammar (undefined in C)
    pub invalid_paste: bool,
    /// an operand of ## was an empty argument (placemarker corner, excluded)
    pub empty_paste_operand: bool,
    /// number of macro replacements performed
    pub replacements: u32,
    pub pastes: u32,
    /// a function-like name at the end of a replacement took its arguments from the following text
    pub args_from_following_text: bool,
    /// C emitted `name (` with a defined, unpainted function-like name: name and parenthesis became adjacent only after
    /// the tokens between them expanded to nothing (C does not invoke the macro then)
    pub name_met_paren_late: bool,
    /// an argument that C never expands (parameter unused or only next to ##) is itself ill-formed
    pub unexpanded_argument_ill_formed: bool,
}

#[derive(Clone, Debug, PartialEq, Eq)]
pub enum RefReject {
    Arity,
    Unterminated,
    Fuel,
}

struct Expander<'a> {
    macros: &'a [DefSpec],
    flags: RefFlags,
    fuel: u64,
}

impl<'a> Expander<'a> {
    fn lookup(&self, name: &str) -> Option<usize> {
        self.macros.iter().position(|m| m.name == name)
    }

    fn expand(&mut self, input: Vec<RTok>) -> Result<Vec<RTok>, RefReject> {
        let mut input: VecDeque<RTok> = input.into();
        let mut out = Vec::new();
        while let Some(t) = input.pop_front() {
            if self.fuel == 0 {
                return Err(RefReject::Fuel);
            }
            self.fuel -= 1;
            let mi = match self.lookup(&t.sp) {
                Some(mi) => mi,
                None => {
                    if t.sp == "(" {
                        if let Some(RTok { sp, hs }) = out.last() {
                            if let Some(pi) = self.lookup(sp) {
                                if self.macros[pi].params.is_some() && hs & (1 << pi) == 0 {
                                    self.flags.name_met_paren_late = true;
                                }
                            }
                        }
                    }
                    out.push(t);
                    continue;
                }
            };
            if t.hs & (1 << mi) != 0 {
                self.flags.suppressed = true;
                out.push(t);
                continue;
            }
            let m = &self.macros[mi];
            match &m.params {
                None => {
                    let hs = t.hs | (1 << mi);
                    let rep = self.subst(m, &[], hs)?;
                    self.flags.replacements += 1;
                    for r in rep.into_iter().rev() {
                        input.push_front(r);
                    }
                }
                Some(params) => {
                    if input.front().map(|n| n.sp != "(").unwrap_or(true) {
                        out.push(t);
                        continue;
                    }
                    // name produced by a replacement, parenthesis taken from the source text
                    if t.hs != 0 && input.front().map(|n| n.hs == 0).unwrap_or(false) {
                        self.flags.args_from_following_text = true;
                    }
                    input.pop_front();
                    let mut args: Vec<Vec<RTok>> = vec![Vec::new()];
                    let mut depth = 0;
                    let rparen_hs;
                    loop {
                        let n = match input.pop_front() {
                            Some(n) => n,
                            None => return Err(RefReject::Unterminated),
                        };
                        match n.sp.as_str() {
                            "(" => {
                                depth += 1;
                                args.last_mut().unwrap().push(n);
                            }
                            ")" if depth == 0 => {
                                rparen_hs = n.hs;
                                break;
                            }
                            ")" => {
                                depth -= 1;
                                args.last_mut().unwrap().push(n);
                            }
                            "," if depth == 0 => args.push(Vec::new()),
                            _ => args.last_mut().unwrap().push(n),
                        }
                    }
                    let np = params.len();
                    let ok = if np == 0 { args.len() == 1 && args[0].is_empty() } else { args.len() == np };
                    if !ok {
                        return Err(RefReject::Arity);
                    }
                    let hs = (t.hs & rparen_hs) | (1 << mi);
                    let rep = self.subst(m, &args, hs)?;
                    self.flags.replacements += 1;
                    for r in rep.into_iter().rev() {
                        input.push_front(r);
                    }
                }
            }
        }
        Ok(out)
    }

    fn glue(&mut self, os: &mut Vec<RTok>, r: &RTok) {
        let l = match os.pop() {
            Some(l) => l,
            None => {
                self.flags.empty_paste_operand = true;
                os.push(r.clone());
                return;
            }
        };
        for t in [&l, r] {
            if let Some(mi) = self.lookup(&t.sp) {
                self.flags.paste_macro_operand = true;
                if t.hs & (1 << mi) != 0 {
                    // a painted name disappears into the pasted token: the macro set is recursive all the same
                    self.flags.suppressed = true;
                }
            }
        }
        let sp = format!("{}{}", l.sp, r.sp);
        if expected_token(&sp).is_none() {
            self.flags.invalid_paste = true;
        }
        self.flags.pastes += 1;
        os.push(RTok { sp, hs: l.hs & r.hs });
    }

    fn subst(&mut self, m: &DefSpec, args: &[Vec<RTok>], hs: u64) -> Result<Vec<RTok>, RefReject> {
        let empty = Vec::new();
        let params = m.params.as_ref().unwrap_or(&empty);
        let param_of = |t: &str| params.iter().position(|p| p == t);
        let body = &m.body;
        let mut os: Vec<RTok> = Vec::new();
        let mut i = 0;
        while i < body.len() {
            let t = &body[i];
            if t == "##" && i + 1 < body.len() {
                let next = &body[i + 1];
                if let Some(j) = param_of(next) {
                    let actual = &args[j];
                    if actual.is_empty() {
                        self.flags.empty_paste_operand = true;
                    } else {
                        self.glue(&mut os, &actual[0]);
                        os.extend(actual[1..].iter().cloned());
                    }
                } else {
                    self.glue(&mut os, &RTok { sp: next.clone(), hs: 0 });
                }
                i += 2;
                continue;
            }
            if let Some(j) = param_of(t) {
                if i + 1 < body.len() && body[i + 1] == "##" {
                    if args[j].is_empty() {
                        self.flags.empty_paste_operand = true;
                    }
                    os.extend(args[j].iter().cloned());
                } else {
                    let exp = self.expand(args[j].clone())?;
                    os.extend(exp);
                }
                i += 1;
                continue;
            }
            os.push(RTok { sp: t.clone(), hs: 0 });
            i += 1;
        }
        // C never expands an argument whose parameter does not occur in the body or occurs only next to ##; rssl expands
        // every argument. Expand those on the side, only to learn whether they are recursive / ill-formed / an excluded corner
        for (j, p) in params.iter().enumerate() {
            let expanded_by_c = (0..body.len()).any(|i| body[i] == *p && !(i + 1 < body.len() && body[i + 1] == "##") && !(i > 0 && body[i - 1] == "##"));
            if j < args.len() && !expanded_by_c {
                let saved = (self.flags.replacements, self.flags.pastes, self.flags.args_from_following_text);
                if self.expand(args[j].clone()).is_err() {
                    self.flags.unexpanded_argument_ill_formed = true;
                }
                (self.flags.replacements, self.flags.pastes, self.flags.args_from_following_text) = saved;
            }
        }
        for t in &mut os {
            t.hs |= hs;
        }
        Ok(os)
    }
}

/// The rssl token a spelling of the reference token grammar must lex to; None = not a single token of that grammar
fn expected_token(sp: &str) -> Option<Token> {
    let first = sp.chars().next()?;
    if first.is_ascii_alphabetic() || first == '_' {
        if sp.chars().all(is_word_char) {
            return Some(Token::Id(Identifier(sp.to_string())));
        }
        return None;
    }
    if first.is_ascii_digit() {
        // integer literals: decimal without leading zero, hexadecimal `0x..`, octal `0` + octal digits, each with an optional
        // u / l / ul / lu suffix in either case (everything else, e.g. `08`, `0X1`, `1f`, `1.5`, is outside the reference grammar)
        let lower = sp.to_ascii_lowercase();
        let (digits, suffix) = ["ul", "lu", "u", "l"]
            .iter()
            .find(|s| lower.ends_with(**s))
            .map(|s| (&sp[..sp.len() - s.len()], *s))
            .unwrap_or((sp, ""));
        let value = if let Some(h) = digits.strip_prefix("0x") {
            if h.is_empty() || !h.chars().all(|c| c.is_ascii_hexdigit()) {
                return None;
            }
            u64::from_str_radix(h, 16).ok()?
        } else if digits.len() > 1 && first == '0' {
            if !digits.chars().all(|c| ('0'..='7').contains(&c)) {
                return None;
            }
            u64::from_str_radix(digits, 8).ok()?
        } else {
            if digits.is_empty() || !digits.chars().all(|c| c.is_ascii_digit()) {
                return None;
            }
            digits.parse::<u64>().ok()?
        };
        return Some(match suffix {
            "" => Token::LiteralInt(value),
            "u" => Token::LiteralIntUnsigned32(value),
            "l" => Token::LiteralIntSigned64(value as i64),
            _ => Token::LiteralIntUnsigned64(value),
        });
    }
    Some(match sp {
        "(" => Token::LeftParen,
        ")" => Token::RightParen,
        "[" => Token::LeftSquareBracket,
        "]" => Token::RightSquareBracket,
        "{" => Token::LeftBrace,
        "}" => Token::RightBrace,
        "," => Token::Comma,
        ";" => Token::Semicolon,
        "+" => Token::Plus,
        "++" => Token::PlusPlus,
        "+=" => Token::PlusEquals,
        "-" => Token::Minus,
        "--" => Token::MinusMinus,
        "*" => Token::Asterix,
        "=" => Token::Equals,
        "==" => Token::EqualsEquals,
        "&" => Token::Ampersand,
        "&&" => Token::AmpersandAmpersand,
        "|" => Token::VerticalBar,
        "||" => Token::VerticalBarVerticalBar,
        "<" => Token::LeftAngleBracket(FollowedBy::Token),
        ">" => Token::RightAngleBracket(FollowedBy::Token),
        "!" => Token::ExclamationPoint,
        "!=" => Token::ExclamationPointEquals,
        ":" => Token::Colon,
        "::" => Token::ScopeResolution,
        "." => Token::Period,
        "?" => Token::QuestionMark,
        _ => return None,
    })
}

fn norm_kind(t: &Token) -> Token {
    match t {
        Token::LeftAngleBracket(_) => Token::LeftAngleBracket(FollowedBy::Token),
        Token::RightAngleBracket(_) => Token::RightAngleBracket(FollowedBy::Token),
        t => t.clone(),
    }
}

pub struct RefOutcome {
    pub result: Result<Vec<String>, RefReject>,
    pub flags: RefFlags,
}

/// Reference semantics of a whole program: directives take effect from their line onward, maximal runs of
/// text lines are expanded with the table current at that point.
pub fn reference(lines: &[Line]) -> RefOutcome {
    let mut table: Vec<DefSpec> = Vec::new();
    let mut out: Vec<String> = Vec::new();
    let mut flags = RefFlags::default();
    let mut run: Vec<RTok> = Vec::new();
    fn flush(run: &mut Vec<RTok>, table: &[DefSpec], out: &mut Vec<String>, flags: &mut RefFlags) -> Result<(), RefReject> {
        if run.is_empty() {
            return Ok(());
        }
        let mut e = Expander { macros: table, flags: flags.clone(), fuel: 200_000 };
        let r = e.expand(std::mem::take(run));
        *flags = e.flags;
        out.extend(r?.into_iter().map(|t| t.sp));
        Ok(())
    }
    for l in lines {
        match l {
            Line::Text(ts) => run.extend(ts.iter().filter(|t| *t != NL).map(|t| RTok { sp: t.clone(), hs: 0 })),
            Line::Define(d) => {
                if let Err(e) = flush(&mut run, &table, &mut out, &mut flags) {
                    return RefOutcome { result: Err(e), flags };
                }
                table.retain(|m| m.name != d.name);
                table.push(d.clone());
            }
            Line::Undef(n) => {
                if let Err(e) = flush(&mut run, &table, &mut out, &mut flags) {
                    return RefOutcome { result: Err(e), flags };
                }
                table.retain(|m| m.name != *n);
            }
        }
    }
    if let Err(e) = flush(&mut run, &table, &mut out, &mut flags) {
        return RefOutcome { result: Err(e), flags };
    }
    RefOutcome { result: Ok(out), flags }
}

// ---------------------------------------------------------------------------------------------
// running the real preprocessor: always in an isolated worker process (`vcheck --worker C12`), because a
// stack overflow of the subject (unbounded macro or include recursion) aborts the process and cannot be
// caught by `guard`. Jobs are sent in batches; a worker that dies is attributed to the job it was running.

#[derive(Clone, Debug, PartialEq)]
pub struct OutTok {
    /// Debug rendering of the rssl Token (kind and value), angle brackets normalised
    pub kind: String,
    /// spelling through unlex; None for tokens without a location (API-level defines)
    pub spelling: Option<String>,
}

#[derive(Clone, Debug)]
pub struct RealErr {
    pub variant: String,
    pub rendered: String,
}

#[derive(Clone, Debug)]
pub enum Outcome {
    Ok(Vec<OutTok>),
    Err(RealErr),
    Panic(PanicInfo),
    /// the isolated worker process died while running the case (stderr tail)
    Died(String),
    /// not run: the time budget of the check was exhausted
    Skipped,
}

pub struct PJob<'a> {
    pub files: &'a [(&'a str, &'a str)],
    pub entry: &'a str,
    pub defines: &'a [(&'a str, &'a str)],
}

#[derive(Clone, Debug)]
pub struct OwnedJob {
    pub files: Vec<(String, String)>,
    pub entry: String,
    pub defines: Vec<(String, String)>,
}

impl OwnedJob {
    fn single(text: &str, defines: &[(&str, &str)]) -> OwnedJob {
        OwnedJob {
            files: vec![("main.rssl".to_string(), text.to_string())],
            entry: "main.rssl".to_string(),
            defines: defines.iter().map(|(a, b)| (a.to_string(), b.to_string())).collect(),
        }
    }
}

/// One case of a space: the preprocessor runs it needs and the oracle that judges their outcomes.
pub struct Case<'a> {
    pub index: u64,
    pub jobs: Vec<OwnedJob>,
    pub judge: Box<dyn FnOnce(&[Outcome], &mut Acc) + 'a>,
}

fn kind_string(t: &Token) -> String {
    format!("{:?}", norm_kind(t))
}

pub fn run_preprocess(job: &PJob) -> Outcome {
    let r = guard(|| {
        let mut sm = SourceManager::new();
        // rssl's own include handler for file tables (`[(&str, &str); N]`, the one its users and tests pass) serves the
        // files when the table is small; the harness' map handler otherwise
        let f = job.files;
        let mut a1;
        let mut a2;
        let mut a3;
        let mut a4;
        let mut a5;
        let mut map;
        let inc: &mut dyn rssl::text::IncludeHandler = match f.len() {
            1 => {
                a1 = [f[0]];
                &mut a1
            }
            2 => {
                a2 = [f[0], f[1]];
                &mut a2
            }
            3 => {
                a3 = [f[0], f[1], f[2]];
                &mut a3
            }
            4 => {
                a4 = [f[0], f[1], f[2], f[3]];
                &mut a4
            }
            5 => {
                a5 = [f[0], f[1], f[2], f[3], f[4]];
                &mut a5
            }
            _ => {
                map = MapIncludes(job.files);
                &mut map
            }
        };
        match rssl::preprocess::preprocess(job.entry, &mut sm, inc, job.defines) {
            Ok(toks) => {
                // prepare_tokens is what the parser sees: whitespace removed, Eof appended
                let prepared = rssl::preprocess::prepare_tokens(&toks);
                let mut out = Vec::new();
                let mut k = 0;
                for t in &toks {
                    if t.0.is_whitespace() {
                        continue;
                    }
                    let spelling =
                        if t.get_location() == SourceLocation::UNKNOWN { None } else { Some(rssl::preprocess::unlex(std::slice::from_ref(t), &sm)) };
                    assert!(prepared[k].0 == t.0, "prepare_tokens changed a token");
                    k += 1;
                    out.push(OutTok { kind: kind_string(&t.0), spelling });
                }
                assert!(k + 1 == prepared.len() && prepared[k].0 == Token::Eof, "prepare_tokens did not end with Eof");
                Ok(out)
            }
            Err(e) => {
                let variant = format!("{:?}", e);
                let variant = variant.split(['(', ' ']).next().unwrap_or("").to_string();
                Err(RealErr { variant, rendered: format!("{}", e.display(&sm)) })
            }
        }
    });
    match r {
        Ok(Ok(o)) => Outcome::Ok(o),
        Ok(Err(e)) => Outcome::Err(e),
        Err(p) => Outcome::Panic(p),
    }
}

// ---- wire format: fields are `<len>\n<bytes>`

fn put_field(buf: &mut Vec<u8>, s: &str) {
    buf.extend_from_slice(format!("{}\n", s.len()).as_bytes());
    buf.extend_from_slice(s.as_bytes());
}

fn encode_job(job: &OwnedJob, b: &mut Vec<u8>) {
    put_field(b, &job.entry);
    put_field(b, &job.files.len().to_string());
    for (n, c) in &job.files {
        put_field(b, n);
        put_field(b, c);
    }
    put_field(b, &job.defines.len().to_string());
    for (n, v) in &job.defines {
        put_field(b, n);
        put_field(b, v);
    }
}

fn get_field(r: &mut impl std::io::BufRead) -> Option<String> {
    let mut line = String::new();
    if r.read_line(&mut line).ok()? == 0 {
        return None;
    }
    let n: usize = line.trim().parse().ok()?;
    let mut buf = vec![0u8; n];
    r.read_exact(&mut buf).ok()?;
    String::from_utf8(buf).ok()
}

fn esc(s: &str) -> String {
    s.replace('\\', "\\\\").replace('\n', "\\n").replace('\r', "\\r").replace('\t', "\\t").replace('\u{1f}', "\\u").replace('\u{1e}', "\\v")
}

fn unesc(s: &str) -> String {
    let mut out = String::new();
    let mut it = s.chars();
    while let Some(c) = it.next() {
        if c == '\\' {
            match it.next() {
                Some('n') => out.push('\n'),
                Some('r') => out.push('\r'),
                Some('t') => out.push('\t'),
                Some('u') => out.push('\u{1f}'),
                Some('v') => out.push('\u{1e}'),
                Some(o) => out.push(o),
                None => {}
            }
        } else {
            out.push(c);
        }
    }
    out
}

fn encode_outcome(o: &Outcome) -> String {
    match o {
        Outcome::Ok(ts) => {
            let mut s = String::from("ok\t");
            for t in ts {
                s.push_str(&esc(&t.kind));
                s.push('\u{1f}');
                match &t.spelling {
                    Some(sp) => {
                        s.push('S');
                        s.push_str(&esc(sp));
                    }
                    None => s.push('N'),
                }
                s.push('\u{1e}');
            }
            s
        }
        Outcome::Err(e) => format!("err\t{}\t{}", esc(&e.variant), esc(&e.rendered)),
        Outcome::Panic(p) => format!("panic\t{}\t{}", esc(&p.file), esc(&p.message)),
        Outcome::Died(s) => format!("died\t{}", esc(s)),
        Outcome::Skipped => "skipped".to_string(),
    }
}

fn decode_outcome(line: &str) -> Option<Outcome> {
    let line = line.strip_suffix('\n').unwrap_or(line);
    let mut parts = line.splitn(3, '\t');
    match parts.next()? {
        "ok" => {
            let body = parts.next().unwrap_or("");
            let mut v = Vec::new();
            for rec in body.split('\u{1e}') {
                if rec.is_empty() {
                    continue;
                }
                let (k, sp) = rec.split_once('\u{1f}')?;
                let spelling = if let Some(s) = sp.strip_prefix('S') { Some(unesc(s)) } else { None };
                v.push(OutTok { kind: unesc(k), spelling });
            }
            Some(Outcome::Ok(v))
        }
        "err" => Some(Outcome::Err(RealErr { variant: unesc(parts.next()?), rendered: unesc(parts.next().unwrap_or("")) })),
        "panic" => Some(Outcome::Panic(PanicInfo { file: unesc(parts.next()?), message: unesc(parts.next().unwrap_or("")) })),
        "cpulimit" => Some(Outcome::Died(format!("cpu-limit: the job used more than {} s of CPU without finishing", JOB_CPU_LIMIT_S))),
        _ => None,
    }
}

struct Iso {
    child: std::process::Child,
    stdin: std::process::ChildStdin,
    stdout: std::io::BufReader<std::process::ChildStdout>,
}

impl Drop for Iso {
    fn drop(&mut self) {
        let _ = self.child.kill();
        let _ = self.child.wait();
    }
}

thread_local! {
    static ISO: std::cell::RefCell<Option<Iso>> = const { std::cell::RefCell::new(None) };
}

fn spawn_iso() -> Result<Iso, String> {
    use std::process::{Command, Stdio};
    let exe = std::env::current_exe().map_err(|e| e.to_string())?;
    let mut child = Command::new(exe)
        .args(["--worker", "C12"])
        .stdin(Stdio::piped())
        .stdout(Stdio::piped())
        .stderr(Stdio::piped())
        .spawn()
        .map_err(|e| e.to_string())?;
    let stdin = child.stdin.take().ok_or("no stdin")?;
    let stdout = std::io::BufReader::new(child.stdout.take().ok_or("no stdout")?);
    Ok(Iso { child, stdin, stdout })
}

/// Run jobs in the per-thread worker process, in batches whose requests fit into the pipe buffer. A worker that dies
/// is reported as `Outcome::Died` for the job it was running and replaced; the jobs after it are sent again.
pub fn run_jobs(jobs: &[OwnedJob]) -> Vec<Outcome> {
    use std::io::{BufRead, Read, Write};
    let mut out: Vec<Outcome> = Vec::with_capacity(jobs.len());
    ISO.with(|cell| {
        let mut slot = cell.borrow_mut();
        let mut buf: Vec<u8> = Vec::new();
        while out.len() < jobs.len() {
            if past_deadline() {
                // same rule as the engine: no new work after the time budget; the report becomes non-exhaustive
                while out.len() < jobs.len() {
                    out.push(Outcome::Skipped);
                }
                break;
            }
            if slot.is_none() {
                match spawn_iso() {
                    Ok(i) => *slot = Some(i),
                    Err(e) => {
                        eprintln!("machinery error: cannot start isolated worker: {}", e);
                        std::process::exit(2);
                    }
                }
            }
            let iso = slot.as_mut().unwrap();
            let start = out.len();
            let mut end = start;
            buf.clear();
            while end < jobs.len() && (end == start || (buf.len() < 24_000 && end - start < 200)) {
                encode_job(&jobs[end], &mut buf);
                end += 1;
            }
            // a failed write means the worker died while reading: the answers that did arrive tell which job killed it
            let _ = iso.stdin.write_all(&buf).and_then(|_| iso.stdin.flush());
            let mut died = false;
            let mut worker_gone = false;
            for _ in start..end {
                let mut line = String::new();
                let got = iso.stdout.read_line(&mut line).unwrap_or(0);
                if got == 0 {
                    died = true;
                    break;
                }
                match decode_outcome(&line) {
                    Some(o @ Outcome::Died(_)) => {
                        // the watchdog answered and the worker has exited: replace it, send the remaining jobs again
                        out.push(o);
                        worker_gone = true;
                        break;
                    }
                    Some(o) => out.push(o),
                    None => {
                        eprintln!("machinery error: undecodable worker answer {:?}", one_line(&line, 200));
                        std::process::exit(2);
                    }
                }
            }
            if worker_gone {
                *slot = None;
            }
            if died {
                let mut iso = slot.take().unwrap();
                let status = iso.child.wait().map(|s| format!("{}", s)).unwrap_or_else(|e| e.to_string());
                let mut err = String::new();
                if let Some(mut e) = iso.child.stderr.take() {
                    let _ = e.read_to_string(&mut err);
                }
                // thread ids in the runtime's message vary from run to run
                let mut stable = String::new();
                for c in err.trim().chars() {
                    if c.is_ascii_digit() {
                        if !stable.ends_with('#') {
                            stable.push('#');
                        }
                    } else {
                        stable.push(c);
                    }
                }
                out.push(Outcome::Died(format!("{}; stderr: {}", status, one_line(&stable, 200))));
            }
        }
    });
    out
}

static DEADLINE: std::sync::OnceLock<std::time::Instant> = std::sync::OnceLock::new();

fn past_deadline() -> bool {
    DEADLINE.get().map(|d| std::time::Instant::now() > *d).unwrap_or(false)
}

/// Execute the jobs of all cases (batched, isolated) and judge the cases in order.
pub fn run_cases(cases: Vec<Case>, acc: &mut Acc) {
    let mut jobs: Vec<OwnedJob> = Vec::new();
    let mut spans = Vec::with_capacity(cases.len());
    let mut judges = Vec::with_capacity(cases.len());
    for c in cases {
        let lo = jobs.len();
        jobs.extend(c.jobs);
        spans.push((c.index, lo, jobs.len()));
        judges.push(c.judge);
    }
    let outcomes = run_jobs(&jobs);
    for ((index, lo, hi), judge) in spans.into_iter().zip(judges) {
        acc.cur_index = index;
        if outcomes[lo..hi].iter().any(|o| matches!(o, Outcome::Skipped)) {
            acc.count("cases_skipped_time_budget");
            continue;
        }
        judge(&outcomes[lo..hi], acc);
    }
}

/// CPU seconds a single preprocess() job may use in the worker before it is declared non-terminating
const JOB_CPU_LIMIT_S: f64 = 1.0;
/// address-space limit of a worker process (an expansion that grows without bound dies with an allocation failure)
const WORKER_AS_LIMIT: u64 = 768 << 20;

fn process_cpu_s() -> f64 {
    #[repr(C)]
    struct Timespec {
        tv_sec: i64,
        tv_nsec: i64,
    }
    unsafe extern "C" {
        fn clock_gettime(clk: i32, ts: *mut Timespec) -> i32;
    }
    let mut ts = Timespec { tv_sec: 0, tv_nsec: 0 };
    // CLOCK_PROCESS_CPUTIME_ID = 2 on Linux
    unsafe {
        clock_gettime(2, &mut ts);
    }
    ts.tv_sec as f64 + ts.tv_nsec as f64 * 1e-9
}

fn limit_address_space(bytes: u64) {
    #[repr(C)]
    struct Rlimit {
        cur: u64,
        max: u64,
    }
    unsafe extern "C" {
        fn setrlimit(resource: i32, rlim: *const Rlimit) -> i32;
    }
    // RLIMIT_AS = 9 on Linux
    let r = Rlimit { cur: bytes, max: bytes };
    unsafe {
        setrlimit(9, &r);
    }
}

/// `vcheck --worker C12`: answer jobs from stdin until EOF. A watchdog thread answers `cpulimit` and exits the
/// process when one job has used more than JOB_CPU_LIMIT_S seconds of CPU (CPU time, not wall time, so that a
/// loaded machine cannot change a verdict).
pub fn worker(_args: &[String]) -> i32 {
    use std::sync::{Arc, Mutex};
    limit_address_space(WORKER_AS_LIMIT);
    // CPU time at which the running job started; None while idle. The mutex also serialises answers.
    let started: Arc<Mutex<Option<f64>>> = Arc::new(Mutex::new(None));
    {
        let started = started.clone();
        std::thread::spawn(move || {
            use std::io::Write;
            loop {
                std::thread::sleep(std::time::Duration::from_millis(100));
                let g = started.lock().unwrap();
                if let Some(t0) = *g {
                    if process_cpu_s() - t0 > JOB_CPU_LIMIT_S {
                        let stdout = std::io::stdout();
                        let mut out = stdout.lock();
                        let _ = writeln!(out, "cpulimit");
                        let _ = out.flush();
                        std::process::exit(3);
                    }
                }
            }
        });
    }
    let h = std::thread::Builder::new()
        .stack_size(512 << 10)
        .spawn(move || {
            use std::io::Write;
            let stdin = std::io::stdin();
            let mut r = stdin.lock();
            let stdout = std::io::stdout();
            loop {
                let entry = match get_field(&mut r) {
                    Some(e) => e,
                    None => return 0,
                };
                let mut files = Vec::new();
                let nf: usize = get_field(&mut r).and_then(|s| s.parse().ok()).unwrap_or(0);
                for _ in 0..nf {
                    let n = get_field(&mut r).unwrap_or_default();
                    let c = get_field(&mut r).unwrap_or_default();
                    files.push((n, c));
                }
                let mut defines = Vec::new();
                let nd: usize = get_field(&mut r).and_then(|s| s.parse().ok()).unwrap_or(0);
                for _ in 0..nd {
                    let n = get_field(&mut r).unwrap_or_default();
                    let v = get_field(&mut r).unwrap_or_default();
                    defines.push((n, v));
                }
                let files_ref: Vec<(&str, &str)> = files.iter().map(|(a, b)| (a.as_str(), b.as_str())).collect();
                let defs_ref: Vec<(&str, &str)> = defines.iter().map(|(a, b)| (a.as_str(), b.as_str())).collect();
                *started.lock().unwrap() = Some(process_cpu_s());
                let o = run_preprocess(&PJob { files: &files_ref, entry: &entry, defines: &defs_ref });
                let line = encode_outcome(&o);
                let mut g = started.lock().unwrap();
                *g = None;
                let mut out = stdout.lock();
                if writeln!(out, "{}", line).and_then(|_| out.flush()).is_err() {
                    return 0;
                }
            }
        })
        .unwrap();
    h.join().unwrap_or(2)
}

fn show_out(o: &[OutTok]) -> String {
    o.iter().map(|t| t.spelling.clone().unwrap_or_else(|| format!("<{}>", t.kind))).collect::<Vec<_>>().join(" ")
}

/// `panic|<repo-relative file>|<message>` also when the repository is a private worktree
fn panic_sig(p: &PanicInfo) -> String {
    let file = match p.file.find("/repo/") {
        Some(i) => format!("/repo/{}", &p.file[i + 6..]),
        None => p.file.clone(),
    };
    PanicInfo { file, message: p.message.clone() }.signature()
}

fn died_signature(msg: &str) -> String {
    if msg.contains("overflowed its stack") {
        "stack-overflow".to_string()
    } else if msg.starts_with("cpu-limit") {
        "does-not-terminate".to_string()
    } else if msg.contains("memory allocation") {
        "memory-exhausted".to_string()
    } else {
        "worker-died".to_string()
    }
}

// ---------------------------------------------------------------------------------------------
// oracle for macro programs (spaces A and B)

/// features of a program that select the signature class
fn macro_class(space: &str, lines: &[Line], f: &RefFlags) -> &'static str {
    let has_paste = lines.iter().any(|l| matches!(l, Line::Define(d) if d.body.iter().any(|t| t == "##")));
    let nl_paren = lines.iter().any(|l| matches!(l, Line::Text(ts) if ts.windows(2).any(|w| w[0] == NL && w[1] == "(")));
    if f.name_met_paren_late {
        "name-meets-parenthesis-after-empty-expansion"
    } else if nl_paren {
        "newline-before-argument-list"
    } else if space == "redef" {
        "after-redefinition-or-undef"
    } else if space == "pastelit" && f.pastes > 0 {
        "paste-operand-spelling"
    } else if f.pastes > 0 {
        "paste"
    } else if f.args_from_following_text {
        "args-from-following-text"
    } else if has_paste {
        "unused-paste-in-table"
    } else {
        "plain"
    }
}

fn tokens_match_reference(want: &[String], got: &[OutTok]) -> bool {
    want.len() == got.len()
        && want.iter().zip(got.iter()).all(|(w, g)| {
            expected_token(w).map(|k| kind_string(&k) == g.kind).unwrap_or(false) && g.spelling.as_deref() == Some(w.as_str())
        })
}

/// A macro program as a case: job 0 is the program itself; with `with_placement` two more jobs per object-like
/// definition that can move to the argument list (space D2).
pub fn case_macro_prog(index: u64, space: &'static str, lines: Vec<Line>, style: u8, with_placement: bool, verbose: bool) -> Case<'static> {
    let text = render(&lines, style);
    let rf = reference(&lines);
    let mut jobs = vec![OwnedJob::single(&text, &[])];
    let mut placements: Vec<Placement> = Vec::new();
    if with_placement && !rf.flags.suppressed && rf.result != Err(RefReject::Fuel) {
        placements = placements_of_prog(&lines);
        for p in &placements {
            jobs.extend(p.jobs());
        }
    }
    Case {
        index,
        jobs,
        judge: Box::new(move |outcomes, acc| {
            if verbose {
                println!("reference: {:?} flags {:?}", rf.result, rf.flags);
                println!("rssl: {}", brief(&outcomes[0]));
            }
            judge_macro_prog(space, &lines, style, &text, &rf, &outcomes[0], acc);
            if with_placement && rf.flags.suppressed {
                acc.count("placement_skipped_recursive");
            }
            for (k, p) in placements.iter().enumerate() {
                p.judge(&outcomes[1 + 2 * k], &outcomes[2 + 2 * k], acc);
            }
        }),
    }
}

fn judge_macro_prog(space: &str, lines: &[Line], style: u8, text: &str, rf: &RefOutcome, real: &Outcome, acc: &mut Acc) -> Option<()> {
    acc.evals += 1;
    let replay = || prog_to_replay(space, lines, style);
    if rf.result == Err(RefReject::Fuel) {
        acc.count("machinery_reference_out_of_fuel");
        return None;
    }
    match real {
        Outcome::Panic(p) => {
            acc.violation(Violation { signature: panic_sig(p), detail: format!("preprocess panicked on {:?}: {}", text, p.message), replay: replay() });
            return None;
        }
        Outcome::Died(msg) => {
            let cause = died_signature(msg);
            let class = if rf.flags.suppressed { "recursive-macro" } else { "non-recursive" };
            acc.violation(Violation {
                signature: format!("macro|{}|{}", cause, class),
                detail: format!("expansion of {:?} does not terminate normally: isolated worker died ({}); C expansion terminates with {:?}", text, msg, rf.result),
                replay: replay(),
            });
            return None;
        }
        _ => {}
    }
    let f = &rf.flags;
    if f.suppressed {
        // recursive macro set: the property promises termination only (we got an answer, so it terminated)
        acc.count("recursive_terminated");
        acc.outcome(&("recursive-terminates", text));
        return Some(());
    }
    if f.paste_macro_operand || f.invalid_paste || f.empty_paste_operand || f.unexpanded_argument_ill_formed {
        acc.count("excluded_paste_corner_no_panic_only");
        return Some(());
    }
    match (&rf.result, real) {
        (Err(_), Outcome::Err(_)) => {
            acc.count("ill_formed_both_reject");
            acc.outcome(&("reject", text));
        }
        (Err(_), Outcome::Ok(_)) => {
            // the property does not demand rejection of ill-formed invocations
            acc.count("ill_formed_reference_rejects_rssl_accepts");
        }
        (Ok(want), Outcome::Err(e)) => {
            acc.violation(Violation {
                signature: format!("macro|expansion-differs|{}", macro_class(space, lines, f)),
                detail: format!("program {:?} is rejected ({}: {}) but C expansion is [{}]", text, e.variant, one_line(&e.rendered, 120), want.join(" ")),
                replay: replay(),
            });
            return None;
        }
        (Ok(want), Outcome::Ok(got)) => {
            if !tokens_match_reference(want, got) {
                acc.violation(Violation {
                    signature: format!("macro|expansion-differs|{}", macro_class(space, lines, f)),
                    detail: format!(
                        "program {:?}: rssl yields [{}] (kinds {}); reference C expansion is [{}]",
                        text,
                        show_out(got),
                        got.iter().map(|t| t.kind.clone()).collect::<Vec<_>>().join(" "),
                        want.join(" ")
                    ),
                    replay: replay(),
                });
                return None;
            }
            if f.replacements > 0 {
                acc.count("compared_equal_with_replacement");
                acc.outcome(&("expanded", want));
                if f.pastes > 0 {
                    acc.count("compared_equal_with_paste");
                }
                if f.args_from_following_text {
                    acc.count("compared_equal_args_from_following_text");
                }
            } else {
                acc.count("compared_equal_no_macro_invoked");
            }
        }
        _ => unreachable!(),
    }
    Some(())
}

// ---------------------------------------------------------------------------------------------
// G-MACRO: curated alphabets

const DEFS: &[&str] = &[
    // object-like
    "A := 1",
    "A := B",
    "A := F",
    "A := x ## y",
    "A := F ( A )",
    "A := ( B , C )",
    "A(x) := < x >",
    "B := A",
    "B := F ( 2 )",
    "B := 2 + C",
    "B := G",
    "B := F C",
    "C :=",
    "C := C + 1",
    "C := G ( A , ( 1 , 2 ) )",
    "C := + ## +",
    // one parameter
    "F(x) := x",
    "F(x) := [ x + x ]",
    "F(x) := G ( x , 1 )",
    "F(x) := x ## 1",
    "F(x) := p ## x",
    "F(x) := x F",
    "F(x) := G",
    "F(x) := A x",
    // two parameters
    "G(x,y) := x + y",
    "G(x,y) := x ## y",
    "G(x,y) := F ( y ) , x",
    "G(x,y) := ( y , x )",
    "G(x,y) := H ( x , y , A )",
    "G(x,y) := F",
    "G(A,y) := y A",
    // three parameters
    "H(x,y,z) := z y x",
    "H(x,y,z) := x ## y ## z",
    "H(x,y,z) := G ( x , F ( y ) ) z",
    // no parameters
    "Z() := A",
    "Z() := F",
    "Z() :=",
    "Z() := x ## y",
    "Z() := p ## 1 A",
    // the same body as an earlier definition of the name, under a different signature
    "A(x) := 1",
    "G(x) := x + y",
    "Z := A",
    // names that only ## can produce
    "xy(v) := { v }",
    "p1 := 7",
];

/// invocation forms; every use line is `<form> ;`
const FORMS: &[&str] = &[
    "A",
    "B",
    "C",
    "A B C",
    "( A ) + A",
    "A ( 6 )",
    "B ( 1 , 2 )",
    "B ( 7 )",
    "C ( 8 )",
    "F",
    "F ( 1 )",
    "F ( A )",
    "F ( F ( 1 ) )",
    "F ( ( 1 , 2 ) )",
    "F <NL> ( <NL> 1 <NL> )",
    "F ( )",
    "F ( 1 , 2 )",
    "F ( x y )",
    "F ( C )",
    "F ( 1 ) ( 2 )",
    "F ( 1 ) ( 2 , 3 )",
    "F ( G ) ( 3 , 4 )",
    "F ( B ) ( 1 )",
    "F ( 1 ) F ( 2 )",
    "F ( G ( 1 , 2 ) )",
    "G ( 1 , 2 )",
    "G ( 1 )",
    "G ( , )",
    "G ( A , B )",
    "G ( ( 1 , 2 ) , ( 3 , ( 4 , 5 ) ) )",
    "G ( F ( 1 ) , F ( 2 ) )",
    "G ( F ( 1 , 2 ) )",
    "G ( 1 , 2 , 3 )",
    "G ( x , y ) ( 7 )",
    "G ( a , <NL> b )",
    "H ( 1 , 2 , 3 )",
    "H ( a , b , c )",
    "H ( F ( 1 ) , G ( 2 , 3 ) , A )",
    "H ( 1 , 2 )",
    "Z ( )",
    "Z ( ) ( 5 )",
    "Z ( 1 )",
    "Z",
    "F Z ( ) ( 1 )",
    // unterminated invocation: must stay the last form (space B leaves it out)
    "F (",
];

fn use_line(form: &str) -> Line {
    let mut t = toks(form);
    t.push(";".to_string());
    Line::Text(t)
}

struct Alphabets {
    defs: Vec<DefSpec>,
    forms: Vec<&'static str>,
}

fn alphabets() -> Alphabets {
    Alphabets { defs: DEFS.iter().map(|d| def(d)).collect(), forms: FORMS.to_vec() }
}

/// space A: idx -> (d1, d2, d3, form, style); simplest first = form varies fastest
fn prog_a(al: &Alphabets, digits: &[u64]) -> (Vec<Line>, u8) {
    let form = al.forms[digits[0] as usize];
    let lines = vec![
        Line::Define(al.defs[digits[3] as usize].clone()),
        Line::Define(al.defs[digits[2] as usize].clone()),
        Line::Define(al.defs[digits[1] as usize].clone()),
        use_line(form),
    ];
    (lines, digits[4] as u8)
}

/// space B: background definition d0 (index 0 = none), d1, change X, form; `form ; X ; form ;`
fn prog_b(al: &Alphabets, digits: &[u64]) -> Vec<Line> {
    let nd = al.defs.len() as u64;
    let form = al.forms[digits[0] as usize];
    let mut lines = Vec::new();
    if digits[3] > 0 {
        lines.push(Line::Define(al.defs[(digits[3] - 1) as usize].clone()));
    }
    let d1 = &al.defs[digits[2] as usize];
    lines.push(Line::Define(d1.clone()));
    lines.push(use_line(form));
    let x = digits[1];
    if x < nd {
        lines.push(Line::Define(al.defs[x as usize].clone()));
    } else if x == nd {
        lines.push(Line::Undef(d1.name.clone()));
    } else {
        // #undef of a name that d1 does not define (the background definition's, or an undefined one)
        let other = if digits[3] > 0 { al.defs[(digits[3] - 1) as usize].name.clone() } else { "Q".to_string() };
        lines.push(Line::Undef(other));
    }
    lines.push(use_line(form));
    lines
}

// ---------------------------------------------------------------------------------------------
// space P: spellings of the operands of ## (the paste uses the operand's spelling, not its value)

/// operands of ##: identifiers (some of which complete a literal: `0 ## x10`, `1 ## u`, `0x1 ## F`) and integer literals in
/// every spelling class of the lexer: decimal, hexadecimal, octal / leading zeros, suffixed. None of them is a macro or
/// parameter name of the templates.
const PASTE_OPERANDS: &[&str] = &[
    "reg", "x10", "u", "L", "F", "0", "1", "12", "0x10", "0x1", "0xA", "0x0a", "007", "01", "010", "00", "1u", "2U", "3L", "0x1Fu", "07ul",
];

const PASTE2_TEMPLATES: u64 = 7;
const PASTE3_TEMPLATES: u64 = 3;

/// every way an operand reaches ##: as an argument substituted for a parameter or as a direct token of the body, on either
/// side, in object-like / function-like / parameterless macros, through an outer macro, and next to a plain use of the
/// same parameters
fn prog_paste2(template: u64, a: &str, b: &str) -> Vec<Line> {
    let cat = "CAT(pa,pb) := pa ## pb";
    let (defs, use_): (Vec<String>, String) = match template {
        0 => (vec![cat.to_string()], format!("CAT ( {} , {} )", a, b)),
        1 => (vec![format!("OBJ := {} ## {}", a, b)], "OBJ".to_string()),
        2 => (vec![format!("PL(pa) := pa ## {}", b)], format!("PL ( {} )", a)),
        3 => (vec![format!("PR(pb) := {} ## pb", a)], format!("PR ( {} )", b)),
        4 => (vec![format!("NOARG() := {} ## {}", a, b)], "NOARG ( )".to_string()),
        5 => (vec![cat.to_string(), "WRAP(pa,pb) := CAT ( pa , pb )".to_string()], format!("WRAP ( {} , {} )", a, b)),
        _ => (vec!["BOTH(pa,pb) := [ pa ## pb , pa , pb ]".to_string()], format!("BOTH ( {} , {} )", a, b)),
    };
    let mut lines: Vec<Line> = defs.iter().map(|d| Line::Define(def(d))).collect();
    lines.push(use_line(&use_));
    lines
}

/// chains `a ## b ## c` (the result of the first paste is an operand of the second)
fn prog_paste3(template: u64, a: &str, b: &str, c: &str) -> Vec<Line> {
    let (d, use_) = match template {
        0 => ("CAT3(pa,pb,pc) := pa ## pb ## pc".to_string(), format!("CAT3 ( {} , {} , {} )", a, b, c)),
        1 => (format!("MID(pb) := {} ## pb ## {}", a, c), format!("MID ( {} )", b)),
        _ => (format!("OBJ3 := {} ## {} ## {}", a, b, c), "OBJ3".to_string()),
    };
    vec![Line::Define(def(&d)), use_line(&use_)]
}

// ---------------------------------------------------------------------------------------------
// D2: define placement for the object-like definitions of a macro program

fn out_kinds_equal(a: &[OutTok], b: &[OutTok]) -> bool {
    a.len() == b.len()
        && a.iter().zip(b.iter()).all(|(x, y)| x.kind == y.kind && (x.spelling.is_none() || y.spelling.is_none() || x.spelling == y.spelling))
}

fn value_class(v: &str) -> &'static str {
    let t = v.trim();
    if t.contains("##") {
        "value-with-paste"
    } else if t.is_empty() {
        "empty"
    } else if t.split_whitespace().count() > 1 {
        "multi-token"
    } else {
        "single-token"
    }
}

/// Define placement case: `defines=[..]` + program against `#define` lines + program (`in_file` is the complete text).
#[derive(Clone, Debug)]
pub struct Placement {
    defines: Vec<(String, String)>,
    prog: String,
    in_file: String,
    what: &'static str,
}

impl Placement {
    fn jobs(&self) -> Vec<OwnedJob> {
        let d: Vec<(&str, &str)> = self.defines.iter().map(|(a, b)| (a.as_str(), b.as_str())).collect();
        vec![OwnedJob::single(&self.prog, &d), OwnedJob::single(&self.in_file, &[])]
    }
    fn into_case(self, index: u64) -> Case<'static> {
        Case { index, jobs: self.jobs(), judge: Box::new(move |o, acc| self.judge(&o[0], &o[1], acc)) }
    }
    fn judge(&self, a: &Outcome, b: &Outcome, acc: &mut Acc) {
        let d: Vec<(&str, &str)> = self.defines.iter().map(|(a, b)| (a.as_str(), b.as_str())).collect();
        judge_placement(&d, &self.prog, &self.in_file, self.what, &|| self.replay(), a, b, acc);
    }
    fn replay(&self) -> String {
        let d = &self.defines;
        if d.len() == 1 {
            format!("kind: placement\nN {}\nV {}\n{}", d[0].0, d[0].1, self.prog)
        } else {
            format!("kind: placement2\n{}\n{}\n{}\n{}\n", d[0].0, d[0].1, d[1].0, d[1].1)
        }
    }
}

fn judge_placement(defines: &[(&str, &str)], prog: &str, in_file: &str, what: &str, replay: &dyn Fn() -> String, a: &Outcome, b: &Outcome, acc: &mut Acc) {
    acc.evals += 1;
    let class = if defines.len() > 1 { if defines[0].0 == defines[1].0 { "duplicate-name" } else { "two-defines" } } else { value_class(defines[0].1) };
    let desc = || format!("defines={:?} + {:?} vs in-file {:?}", defines, prog, in_file);
    for (side, o) in [("argument list", a), ("in-file", b)] {
        match o {
            Outcome::Panic(p) => {
                acc.violation(Violation {
                    signature: format!("define-placement|{}", panic_sig(p)),
                    detail: format!("{} [{}]: the {} placement panics: {}; the other placement gives {}", desc(), what, side, p.message, brief(if side == "in-file" { a } else { b })),
                    replay: replay(),
                });
                return;
            }
            Outcome::Died(m) => {
                acc.violation(Violation {
                    signature: format!("define-placement|{}", died_signature(m)),
                    detail: format!("{} [{}]: the {} placement kills the worker: {}", desc(), what, side, m),
                    replay: replay(),
                });
                return;
            }
            _ => {}
        }
    }
    match (a, b) {
        (Outcome::Ok(x), Outcome::Ok(y)) => {
            if !out_kinds_equal(x, y) {
                acc.violation(Violation {
                    signature: format!("define-placement|differs|{}", class),
                    detail: format!("{} [{}]: argument-list placement yields [{}], in-file placement yields [{}]", desc(), what, show_out(x), show_out(y)),
                    replay: replay(),
                });
            } else {
                acc.count("placement_equal_tokens");
                acc.outcome(&("placement", defines.iter().map(|d| (d.0, d.1)).collect::<Vec<_>>(), y.iter().map(|t| t.kind.clone()).collect::<Vec<_>>()));
            }
        }
        (Outcome::Err(x), Outcome::Err(y)) => {
            // same diagnostic after shifting lines, when the in-file diagnostic is located in the program part
            acc.count("placement_both_reject");
            let shift = defines.len() as u32;
            if let Some(shifted) = shift_lines(&y.rendered, shift) {
                if shifted != x.rendered {
                    acc.violation(Violation {
                        signature: "define-placement|diagnostic-differs".into(),
                        detail: format!("{} [{}]: argument-list diagnostic {:?}, in-file diagnostic (lines shifted) {:?}", desc(), what, x.rendered, shifted),
                        replay: replay(),
                    });
                } else {
                    acc.count("placement_equal_diagnostic");
                    acc.outcome(&("placement-diag", &x.rendered));
                }
            }
        }
        (x, y) => {
            acc.violation(Violation {
                signature: format!("define-placement|differs|{}", class),
                detail: format!("{} [{}]: argument-list placement gives {}, in-file placement gives {}", desc(), what, brief(x), brief(y)),
                replay: replay(),
            });
        }
    }
}

fn brief(o: &Outcome) -> String {
    match o {
        Outcome::Ok(t) => format!("tokens [{}]", show_out(t)),
        Outcome::Err(e) => format!("error {} ({})", e.variant, one_line(&e.rendered, 100)),
        Outcome::Panic(p) => format!("panic {}", p.message),
        Outcome::Died(m) => format!("worker death {}", m),
        Outcome::Skipped => "skipped".to_string(),
    }
}

/// Rewrite `main.rssl:L:C` to `main.rssl:(L-shift):C`. None when a located line is within the first `shift`
/// lines (the diagnostic points into the #define lines, which do not exist in the other placement) or when
/// the diagnostic has no location at all.
fn shift_lines(rendered: &str, shift: u32) -> Option<String> {
    let key = "main.rssl:";
    let mut out = String::new();
    let mut rest = rendered;
    let mut any = false;
    while let Some(p) = rest.find(key) {
        out.push_str(&rest[..p + key.len()]);
        rest = &rest[p + key.len()..];
        let digits: String = rest.chars().take_while(|c| c.is_ascii_digit()).collect();
        if digits.is_empty() {
            continue;
        }
        let l: u32 = digits.parse().ok()?;
        if l <= shift {
            return None;
        }
        out.push_str(&(l - shift).to_string());
        rest = &rest[digits.len()..];
        any = true;
    }
    out.push_str(rest);
    if any { Some(out) } else { None }
}

/// for a space-A program: every object-like definition whose name is defined once can move to the argument list
fn placements_of_prog(lines: &[Line]) -> Vec<Placement> {
    let mut out = Vec::new();
    let defs: Vec<&DefSpec> = lines.iter().filter_map(|l| if let Line::Define(d) = l { Some(d) } else { None }).collect();
    for (i, l) in lines.iter().enumerate() {
        let d = match l {
            Line::Define(d) if d.params.is_none() => d,
            _ => continue,
        };
        if defs.iter().filter(|o| o.name == d.name).count() != 1 {
            continue;
        }
        let mut rest: Vec<Line> = lines.to_vec();
        rest.remove(i);
        let prog = render(&rest, 0);
        let value = d.body.join(" ");
        let mut first = vec![Line::Define(d.clone())];
        first.extend(rest.iter().cloned());
        let in_file = render(&first, 0);
        out.push(Placement { defines: vec![(d.name.clone(), value)], prog, in_file, what: "macro program" });
    }
    out
}

// ---------------------------------------------------------------------------------------------
// D1: values of every token class × programs using N

const VALUES: &[&str] = &[
    "3", "0x1F", "1.5", "2.0f", "1u", "\"s\"", "true", "x", "a b", "( 1 + 2 )", "+", "++", "", " 7 ", "/*c*/ 8", "8 // c", "a ## b", "N", "M", "F ( 2 )",
    "F", "if", "<", "a , b", "x.y", "\"abc", "@",
];

const PLACEMENT_PROGS: &[&str] = &[
    "N ;\n",
    "N N ;\n",
    "( N ) + N ;\n",
    "#define M N\nM ;\n",
    "#define F(x) [ x ]\nF ( N ) ;\n",
    "#define F(x) [ x ]\nN ( 4 ) ;\n",
    "#define F(x) [ x ]\n#define M 5\nN + M ;\n",
    "#define F(x) x ## 1\nF ( N ) ;\n",
    "#define J N ## 1\nJ ;\n",
    "#define G(x,y) x ## y\nG ( a , N ) ;\n",
    "#define G(x,y) x ## y\nG ( a b , c N ) ;\n",
    "#ifdef N\nyes ;\n#else\nno ;\n#endif\n",
    "#if N == 3\nyes ;\n#else\nno ;\n#endif\n",
    "#if defined ( N ) && N\nyes ;\n#endif\nz ;\n",
    "#undef N\nN ;\n",
    "#define N 9\nN ;\n",
    "a\nN\nb ;\n",
    "N",
];

fn value_placement(name: &str, value: &str, prog: &str) -> Placement {
    let in_file = format!("#define {} {}\n{}", name, value, prog);
    Placement { defines: vec![(name.to_string(), value.to_string())], prog: prog.to_string(), in_file, what: "value class" }
}

const PAIR_VALUES: &[&str] = &["1", "2", "N", "M", "x y"];

fn pair_placement(n1: &str, v1: &str, n2: &str, v2: &str) -> Placement {
    let prog = "N M ;\n";
    let in_file = format!("#define {} {}\n#define {} {}\n{}", n1, v1, n2, v2, prog);
    Placement {
        defines: vec![(n1.to_string(), v1.to_string()), (n2.to_string(), v2.to_string())],
        prog: prog.to_string(),
        in_file,
        what: "two defines",
    }
}

// ---------------------------------------------------------------------------------------------
// D3: compile() with the define in the argument list vs in the file

const COMPILE_PROGS: &[&str] = &[
    "static const int g = N;\nint f() { return g + N; }\n",
    "float f(float a) { return a * N; }\n",
    "#if N\nint f() { return 1; }\n#else\nint f() { return 2; }\n#endif\n",
    "struct S { int N; };\nint f(S s) { return s.N; }\n",
    "int f() { int a[N]; a[0] = N; return a[0]; }\n",
    "#define SQ(v) ((v)*(v))\nint f() { return SQ(N); }\n",
    "int f() {\n    return N +;\n}\n",
    "int f() {\n    return undefined_name + N;\n}\n",
    "#define CAT(a, b) a##b\nint f() { int CAT(v, N) = 1; return v3; }\n",
    "#define J v ## N\nint f() { int J = 1; return J; }\n",
];

const COMPILE_VALUES: &[&str] = &["3", "( 1 + 2 )", "0x1F", "1u", "1.5", "2.0f", "true", "a", "x y", "unknown_id", "1 +", ""];

fn check_compile_placement(value: &str, prog: &str, cfg: Cfg, acc: &mut Acc) {
    let replay = format!("kind: compile-placement\ncfg: {}\nV {}\n{}", cfg.name(), value, prog);
    check_compile_placement_list(&[("N", value)], prog, cfg, replay, acc)
}

/// define lists with a repeated name (the last one wins, as with #define lines) and lists that name a predefined macro
const COMPILE_LISTS: &[&[(&str, &str)]] = &[
    &[("N", "3"), ("N", "4")],
    &[("N", "4"), ("N", "3")],
    &[("N", "3"), ("N", "3")],
    &[("N", "3"), ("M", "N")],
    &[("M", "N"), ("N", "3")],
    &[("N", "3"), ("M", "5"), ("N", "M")],
    &[("M", "5"), ("N", "3"), ("M", "6")],
    &[("N", "1"), ("N", "")],
    &[("RSSL_TARGET_HLSL", "0")],
    &[("RSSL_TARGET_HLSL", "1")],
    &[("RSSL_TARGET_MSL", "0")],
    &[("RSSL_TARGET_MSL", "1")],
    &[("RSSL_TARGET_HLSL", "0"), ("RSSL_TARGET_MSL", "0")],
    &[("__HLSL_VERSION", "2018")],
    &[("N", "RSSL_TARGET_HLSL")],
    &[("N", "__HLSL_VERSION")],
    &[("RSSL_TARGET_HLSL", "N"), ("N", "0")],
    &[("N", "2"), ("RSSL_TARGET_MSL", "N")],
];

const COMPILE_LIST_PROGS: &[&str] = &[
    "int f() { return N; }\n",
    "#ifdef M\nint f() { return M; }\n#else\nint f() { return N; }\n#endif\n",
    "#if RSSL_TARGET_HLSL\nint f() { return 1; }\n#else\nint f() { return 2; }\n#endif\n",
    "#if RSSL_TARGET_MSL\nint f() { return 1; }\n#elif RSSL_TARGET_HLSL\nint f() { return 2; }\n#else\nint f() { return 3; }\n#endif\n",
    "int f() { return __HLSL_VERSION; }\n",
    "#if N\nint f() { return N + 1; }\n#else\nint f() { return 0; }\n#endif\n",
];

fn list_replay(defs: &[(&str, &str)], prog: &str, cfg: Cfg) -> String {
    let mut r = format!("kind: compile-placement-list\ncfg: {}\nn: {}\n", cfg.name(), defs.len());
    for (n, v) in defs {
        r.push_str(&format!("{}\t{}\n", n, v));
    }
    r.push_str(prog);
    r
}

fn check_compile_placement_list(defs: &[(&str, &str)], prog: &str, cfg: Cfg, replay: String, acc: &mut Acc) {
    acc.evals += 1;
    let value = defs.last().map(|d| d.1).unwrap_or("");
    let mut in_file = String::new();
    for (n, v) in defs {
        in_file.push_str(&format!("#define {} {}\n", n, v));
    }
    in_file.push_str(prog);
    let fa = [("main.rssl", prog)];
    let fb = [("main.rssl", in_file.as_str())];
    let a = guard(|| Job { files: &fa, entry: "main.rssl", defines: defs, cfg, mode: Mode::NoPipeline, validate_layout: false }.run());
    let b = guard(|| Job { files: &fb, entry: "main.rssl", defines: &[], cfg, mode: Mode::NoPipeline, validate_layout: false }.run());
    let desc = format!("compile({:?}, defines={:?}) vs compile({:?}) on {}", prog, defs, in_file, cfg.name());
    for (side, o) in [("argument list", &a), ("in-file", &b)] {
        if let Err(p) = o {
            let other = if side == "in-file" { &a } else { &b };
            let other = match other {
                Ok(r) => one_line(&render_result(r), 120),
                Err(p) => format!("panic {}", p.message),
            };
            acc.violation(Violation {
                signature: format!("define-placement|{}", panic_sig(p)),
                detail: format!("{}: the {} placement panics: {}; the other placement gives {}", desc, side, p.message, other),
                replay,
            });
            return;
        }
    }
    let (a, b) = (a.unwrap(), b.unwrap());
    match (&a, &b) {
        (Ok(_), Ok(_)) => {
            let (ra, rb) = (render_result(&a), render_result(&b));
            if ra != rb {
                acc.violation(Violation {
                    signature: "define-placement|output-differs".into(),
                    detail: format!("{}: outputs differ: {:?} vs {:?}", desc, one_line(&ra, 300), one_line(&rb, 300)),
                    replay,
                });
            } else {
                acc.count("compile_placement_equal_output");
                acc.outcome(&("compile-placement", ra));
            }
        }
        (Err(x), Err(y)) => {
            acc.count("compile_placement_both_reject");
            if let Some(shifted) = shift_lines(y, defs.len() as u32) {
                if shifted != *x {
                    acc.violation(Violation {
                        signature: "define-placement|diagnostic-differs".into(),
                        detail: format!("{}: argument-list diagnostic {:?}, in-file diagnostic (lines shifted by the number of defines) {:?}", desc, x, shifted),
                        replay,
                    });
                } else {
                    acc.count("compile_placement_equal_diagnostic");
                    acc.outcome(&("compile-placement-diag", x));
                }
            }
        }
        _ => {
            acc.violation(Violation {
                signature: format!("define-placement|differs|{}", value_class(value)),
                detail: format!("{}: argument list gives {}, in-file gives {}", desc, one_line(&render_result(&a), 160), one_line(&render_result(&b), 160)),
                replay,
            });
        }
    }
}

// ---------------------------------------------------------------------------------------------
// G-INC: include graphs

// names that are suffixes / prefixes of each other, the longer one earlier in the table: a handler has to match whole names
const FILE_NAMES: [&str; 4] = ["main.rssl", "af.rssl", "f.rssl", "f.rssl.inc"];
const MISSING: &str = "nofile.rssl";

#[derive(Clone, Copy, Debug, PartialEq, Eq, Hash)]
pub enum ILine {
    Text,
    Once,
    Define,
    Use,
    IncludeMissing,
    Include(usize),
}

/// letters available in file `i` of an `n`-file graph
fn inc_letters(i: usize, n: usize) -> Vec<ILine> {
    let mut v = vec![ILine::Text, ILine::Once, ILine::Define, ILine::Use, ILine::IncludeMissing];
    for j in 0..n {
        if j != i {
            v.push(ILine::Include(j));
        }
    }
    v
}

fn iline_text(l: ILine, file: usize, pos: usize) -> String {
    match l {
        ILine::Text => format!("t{}{} ;", file, pos),
        ILine::Once => "#pragma once".to_string(),
        ILine::Define => format!("#define M v{}", file),
        ILine::Use => format!("M u{}{} ;", file, pos),
        ILine::IncludeMissing => format!("#include \"{}\"", MISSING),
        ILine::Include(j) => format!("#include \"{}\"", FILE_NAMES[j]),
    }
}

fn file_text(lines: &[ILine], file: usize, trailing_newline: bool) -> String {
    let v: Vec<String> = lines.iter().enumerate().map(|(k, l)| iline_text(*l, file, k)).collect();
    let mut s = v.join("\n");
    if trailing_newline && !v.is_empty() {
        s.push('\n');
    }
    s
}

#[derive(Debug, PartialEq, Eq)]
enum PasteStop {
    Missing,
    TooDeep,
}

const PASTE_DEPTH_LIMIT: usize = 24;
const PASTE_LINE_LIMIT: usize = 4000;

struct Paster<'a> {
    graph: &'a [Vec<ILine>],
    honour_once: bool,
    once: Vec<bool>,
    out: Vec<Line>,
    text: String,
    includes_resolved: u32,
    once_skips: u32,
}

impl<'a> Paster<'a> {
    fn paste(&mut self, file: usize, depth: usize) -> Result<(), PasteStop> {
        if depth > PASTE_DEPTH_LIMIT || self.out.len() > PASTE_LINE_LIMIT {
            return Err(PasteStop::TooDeep);
        }
        for (k, l) in self.graph[file].iter().enumerate() {
            match l {
                ILine::Once => {
                    if self.honour_once {
                        self.once[file] = true;
                    }
                }
                ILine::IncludeMissing => return Err(PasteStop::Missing),
                ILine::Include(j) => {
                    if self.once[*j] {
                        self.once_skips += 1;
                    } else {
                        self.includes_resolved += 1;
                        self.paste(*j, depth + 1)?;
                    }
                }
                ILine::Text => {
                    self.text.push_str(&iline_text(*l, file, k));
                    self.text.push('\n');
                    self.out.push(Line::Text(toks(&iline_text(*l, file, k))));
                }
                ILine::Use => {
                    self.text.push_str(&iline_text(*l, file, k));
                    self.text.push('\n');
                    self.out.push(Line::Text(toks(&iline_text(*l, file, k))));
                }
                ILine::Define => {
                    self.text.push_str(&iline_text(*l, file, k));
                    self.text.push('\n');
                    self.out.push(Line::Define(DefSpec { name: "M".into(), params: None, body: vec![format!("v{}", file)] }));
                }
            }
        }
        Ok(())
    }
}

fn graph_replay(graph: &[Vec<ILine>], trailing_newline: bool) -> String {
    let mut s = format!("kind: include\ntrailing_newline: {}\n", trailing_newline);
    for (i, f) in graph.iter().enumerate() {
        s.push_str(&format!("== {}\n", FILE_NAMES[i]));
        for (k, l) in f.iter().enumerate() {
            s.push_str(&iline_text(*l, i, k));
            s.push('\n');
        }
    }
    s
}

fn parse_graph(rest: &str) -> Result<(Vec<Vec<ILine>>, bool), String> {
    let mut graph: Vec<Vec<ILine>> = Vec::new();
    let mut tn = true;
    for l in rest.lines() {
        if let Some(v) = l.strip_prefix("trailing_newline:") {
            tn = v.trim() == "true";
        } else if l.starts_with("== ") {
            graph.push(Vec::new());
        } else if !l.trim().is_empty() {
            let cur = graph.last_mut().ok_or("line before first file")?;
            let il = if l.starts_with("#pragma once") {
                ILine::Once
            } else if l.starts_with("#define") {
                ILine::Define
            } else if l.starts_with("M ") {
                ILine::Use
            } else if let Some(r) = l.strip_prefix("#include \"") {
                let name = r.trim_end_matches('"');
                match FILE_NAMES.iter().position(|f| *f == name) {
                    Some(j) => ILine::Include(j),
                    None => ILine::IncludeMissing,
                }
            } else {
                ILine::Text
            };
            cur.push(il);
        }
    }
    Ok((graph, tn))
}

pub fn case_graph(index: u64, graph: Vec<Vec<ILine>>, trailing_newline: bool) -> Case<'static> {
    let n = graph.len();
    let mut p = Paster { graph: &graph, honour_once: true, once: vec![false; n], out: Vec::new(), text: String::new(), includes_resolved: 0, once_skips: 0 };
    let stop = p.paste(0, 0);
    let pasted = Pasted { stop, text: std::mem::take(&mut p.text), out: std::mem::take(&mut p.out), includes_resolved: p.includes_resolved, once_skips: p.once_skips, cycle_without_once: false };
    let mut pasted = pasted;
    if pasted.stop == Err(PasteStop::TooDeep) {
        // include cycle that #pragma once does not break: unbounded in C as well, excluded
        return Case {
            index,
            jobs: vec![],
            judge: Box::new(|_, acc| {
                acc.evals += 1;
                acc.count("graphs_excluded_unbounded_cycle");
            }),
        };
    }
    // would the graph recurse without bound if #pragma once were ignored?
    if pasted.once_skips > 0 {
        let mut q = Paster { graph: &graph, honour_once: false, once: vec![false; n], out: Vec::new(), text: String::new(), includes_resolved: 0, once_skips: 0 };
        pasted.cycle_without_once = q.paste(0, 0) == Err(PasteStop::TooDeep);
    }
    let files: Vec<(String, String)> = graph.iter().enumerate().map(|(i, f)| (FILE_NAMES[i].to_string(), file_text(f, i, trailing_newline))).collect();
    let mut jobs = vec![OwnedJob { files: files.clone(), entry: FILE_NAMES[0].to_string(), defines: vec![] }];
    if pasted.stop.is_ok() {
        jobs.push(OwnedJob::single(&pasted.text, &[]));
    }
    Case { index, jobs, judge: Box::new(move |o, acc| judge_graph(&files, &pasted, &|| graph_replay(&graph, trailing_newline), o, acc)) }
}

struct Pasted {
    stop: Result<(), PasteStop>,
    text: String,
    out: Vec<Line>,
    includes_resolved: u32,
    once_skips: u32,
    cycle_without_once: bool,
}

fn judge_graph(files: &[(String, String)], p: &Pasted, replay: &dyn Fn() -> String, outcomes: &[Outcome], acc: &mut Acc) {
    acc.evals += 1;
    let show = || files.iter().map(|(n, t)| format!("{}={:?}", n, t)).collect::<Vec<_>>().join(" ");
    let real = &outcomes[0];
    let risky = p.cycle_without_once;
    let stop = &p.stop;
    match real {
        Outcome::Panic(pi) => {
            acc.violation(Violation { signature: panic_sig(pi), detail: format!("preprocess panicked on graph {}: {}", show(), pi.message), replay: replay() });
            return;
        }
        Outcome::Died(m) => {
            acc.violation(Violation {
                signature: format!("include|{}|{}", died_signature(m), if risky { "cycle-broken-by-pragma-once" } else { "acyclic" }),
                detail: format!("graph {}: worker died ({}); the pasted text is finite: {:?}", show(), m, p.text),
                replay: replay(),
            });
            return;
        }
        _ => {}
    }
    if *stop == Err(PasteStop::Missing) {
        match real {
            Outcome::Ok(t) => acc.violation(Violation {
                signature: "include|missing-file-accepted".into(),
                detail: format!("graph {} reaches an #include of the missing file {} but is accepted: [{}]", show(), MISSING, show_out(t)),
                replay: replay(),
            }),
            Outcome::Err(e) => {
                if e.rendered.contains(MISSING) {
                    acc.count("graphs_missing_file_named");
                    acc.outcome(&("missing", &p.text));
                } else {
                    acc.violation(Violation {
                        signature: "include|missing-file-not-named".into(),
                        detail: format!("graph {}: the error does not name {}: {:?}", show(), MISSING, e.rendered),
                        replay: replay(),
                    });
                }
            }
            _ => {}
        }
        return;
    }
    // the pasted (flat) text through the same preprocessor
    let flat_toks = match &outcomes[1] {
        Outcome::Ok(t) => t,
        other => {
            acc.violation(Violation {
                signature: "include|pasted-text-rejected".into(),
                detail: format!("pasted text {:?} of graph {} is not accepted: {}", p.text, show(), brief(other)),
                replay: replay(),
            });
            return;
        }
    };
    match real {
        Outcome::Err(e) => acc.violation(Violation {
            signature: "include|valid-graph-rejected".into(),
            detail: format!("graph {} rejected ({}: {}); pasted text {:?} is accepted", show(), e.variant, one_line(&e.rendered, 120), p.text),
            replay: replay(),
        }),
        Outcome::Ok(got) => {
            let want_ref = reference(&p.out);
            let same_as_flat = got.len() == flat_toks.len() && got.iter().zip(flat_toks.iter()).all(|(a, b)| a.kind == b.kind && a.spelling == b.spelling);
            let same_as_ref = match &want_ref.result {
                Ok(w) => tokens_match_reference(w, got),
                Err(_) => false,
            };
            if !same_as_flat || !same_as_ref {
                acc.violation(Violation {
                    signature: "include|paste-differs".into(),
                    detail: format!(
                        "graph {}: preprocess yields [{}]; pasted text {:?} yields [{}]; reference [{}]",
                        show(),
                        show_out(got),
                        p.text,
                        show_out(flat_toks),
                        want_ref.result.as_ref().map(|w| w.join(" ")).unwrap_or_default()
                    ),
                    replay: replay(),
                });
                return;
            }
            if p.includes_resolved > 0 {
                acc.count("graphs_equal_with_include");
                acc.outcome(&("include", &p.text));
                if p.once_skips > 0 {
                    acc.count("graphs_equal_with_pragma_once_skip");
                }
                if risky {
                    acc.count("graphs_equal_cycle_broken_by_pragma_once");
                }
            } else {
                acc.count("graphs_equal_no_include_reached");
            }
        }
        _ => {}
    }
}

/// all assignments of ≤ max_lines lines per file: per-file code -> lines
fn file_variants(i: usize, n: usize, max_lines: usize) -> Vec<Vec<ILine>> {
    let letters = inc_letters(i, n);
    let mut out: Vec<Vec<ILine>> = vec![vec![]];
    let mut layer: Vec<Vec<ILine>> = vec![vec![]];
    for _ in 0..max_lines {
        let mut next = Vec::new();
        for base in &layer {
            for l in &letters {
                let mut v = base.clone();
                v.push(*l);
                next.push(v);
            }
        }
        out.extend(next.iter().cloned());
        layer = next;
    }
    out
}

// ---------------------------------------------------------------------------------------------

/// Enumerate `total` indices in blocks of `block` cases; every block's jobs go through the isolated workers in batches.
fn run_space<'a, F>(ctx: &Ctx, rep: &mut Report, name: &str, total: u64, block: u64, make: F)
where
    F: Fn(u64, &mut Acc) -> Case<'a> + Sync,
{
    let nblocks = total.div_ceil(block);
    // a driver thread waits while its worker process computes and vice versa: two driver threads per core keep the cores busy
    let ctx2 = Ctx { prop: ctx.prop.clone(), tier: ctx.tier, seed: ctx.seed, jobs: ctx.jobs * 2, start: ctx.start, budget: ctx.budget };
    let r = run_par(&ctx2, nblocks, 1, |b, acc| {
        let lo = b * block;
        let hi = (lo + block).min(total);
        let cases: Vec<Case> = (lo..hi).map(|i| make(i, acc)).collect();
        run_cases(cases, acc);
    });
    let skipped = r.acc.counters.get("cases_skipped_time_budget").copied().unwrap_or(0);
    let r = ParResult { reached: (r.reached * block).min(total).saturating_sub(skipped), total, completed: r.completed && skipped == 0, acc: r.acc };
    rep.absorb(name, r);
    rep.cov(&format!("elapsed_s_after_{}", name), Json::Num((ctx.start.elapsed().as_secs_f64() * 10.0).round() / 10.0));
}

pub fn run(ctx: &Ctx) -> i32 {
    let mut rep = Report::new("exploration");
    let _ = DEADLINE.set(ctx.start + ctx.budget);
    rep.rule = "non-trivial = (A,B) the reference expansion performed at least one macro replacement and rssl's output was compared equal token by token (distinct = different expected token sequence), or a recursive program that terminated (distinct program text), or an ill-formed invocation both reject; (C) a graph in which at least one #include was resolved and compared (distinct = different pasted text) or a missing file was named; (D) a define placement whose two sides were compared equal (distinct = different (defines, token kinds) / emitted text / diagnostic)".into();
    let al = alphabets();
    let nd = al.defs.len() as u64;
    let nf = al.forms.len() as u64;

    // ---- A: ordered triples × forms × style (+ D2 define placement of every movable object-like definition)
    {
        // quick: style alternates with the index (every program once); thorough: both styles
        let styles = ctx.pick(1u64, 3u64);
        let radices = [nf, nd, nd, nd, styles];
        let quick = ctx.quick();
        run_space(ctx, &mut rep, "A_triples_x_forms", product(&radices), 256, |idx, acc| {
            let mut d = Vec::new();
            decode(idx, &radices, &mut d);
            if quick {
                d[4] = (d[0] + d[1] + d[2] + d[3]) % 3;
            }
            let (lines, style) = prog_a(&al, &d);
            if idx % 300_007 == 11 {
                acc.sample(obj(vec![("space", "A-triples".into()), ("program", render(&lines, style).into())]));
            }
            case_macro_prog(idx, "macro", lines, style, d[4] == 0 || quick, false)
        });
    }

    // ---- A4 (thorough only): a fourth definition, defined first, from a sub-alphabet that lengthens the expansion chains
    if !ctx.quick() {
        const FOURTH: &[&str] = &[
            "A := B",
            "B := F C",
            "C :=",
            "C := G ( A , ( 1 , 2 ) )",
            "F(x) := G ( x , 1 )",
            "G(x,y) := H ( x , y , A )",
            "H(x,y,z) := z y x",
            "Z() := F",
        ];
        let fourth: Vec<DefSpec> = FOURTH.iter().map(|d| def(d)).collect();
        // the definition whose every use overflows the stack today is left out here (space A covers it); each overflow costs a worker restart
        let rest: Vec<DefSpec> = al.defs.iter().filter(|d| def_to_string(d) != "A := F ( A )").cloned().collect();
        let nr = rest.len() as u64;
        let radices = [nf, nr, nr, nr, fourth.len() as u64];
        run_space(ctx, &mut rep, "A4_quadruples_x_forms", product(&radices), 256, |idx, acc| {
            let mut d = Vec::new();
            decode(idx, &radices, &mut d);
            let lines = vec![
                Line::Define(fourth[d[4] as usize].clone()),
                Line::Define(rest[d[3] as usize].clone()),
                Line::Define(rest[d[2] as usize].clone()),
                Line::Define(rest[d[1] as usize].clone()),
                use_line(al.forms[d[0] as usize]),
            ];
            let style = ((d[0] + d[1] + d[2] + d[3] + d[4]) % 3) as u8;
            if idx % 3_000_017 == 19 {
                acc.sample(obj(vec![("space", "A4-quadruples".into()), ("program", render(&lines, style).into())]));
            }
            case_macro_prog(idx, "macro", lines, style, false, false)
        });
    }

    // ---- P: operand spellings of ## (every pair / triple of the operand alphabet × every route of an operand to ##)
    {
        let no = PASTE_OPERANDS.len() as u64;
        let styles = ctx.pick(1u64, 3u64);
        let quick = ctx.quick();
        let radices = [no, no, PASTE2_TEMPLATES, styles];
        run_space(ctx, &mut rep, "P2_paste_operand_pairs", product(&radices), 64, |idx, acc| {
            let mut d = Vec::new();
            decode(idx, &radices, &mut d);
            let style = if quick { ((d[0] + d[1] + d[2]) % 3) as u8 } else { d[3] as u8 };
            let lines = prog_paste2(d[2], PASTE_OPERANDS[d[1] as usize], PASTE_OPERANDS[d[0] as usize]);
            if idx % 499 == 7 {
                acc.sample(obj(vec![("space", "P2-paste-operands".into()), ("program", render(&lines, style).into())]));
            }
            case_macro_prog(idx, "pastelit", lines, style, true, false)
        });
        let radices = [no, no, no, PASTE3_TEMPLATES, styles];
        run_space(ctx, &mut rep, "P3_paste_operand_triples", product(&radices), 128, |idx, acc| {
            let mut d = Vec::new();
            decode(idx, &radices, &mut d);
            let style = if quick { ((d[0] + d[1] + d[2] + d[3]) % 3) as u8 } else { d[4] as u8 };
            let lines = prog_paste3(d[3], PASTE_OPERANDS[d[2] as usize], PASTE_OPERANDS[d[1] as usize], PASTE_OPERANDS[d[0] as usize]);
            if idx % 4999 == 13 {
                acc.sample(obj(vec![("space", "P3-paste-operands".into()), ("program", render(&lines, style).into())]));
            }
            case_macro_prog(idx, "pastelit", lines, style, true, false)
        });
        rep.cov("paste_operand_alphabet", Json::Arr(PASTE_OPERANDS.iter().map(|d| Json::Str(d.to_string())).collect()));
    }

    // ---- B: redefinition / #undef between two uses
    {
        let nforms_b = nf - 1; // without the unterminated form
        let backgrounds: Vec<u64> = if ctx.quick() { vec![0, 1, 13, 17, 26, 38] } else { (0..=nd).collect() };
        let radices = [nforms_b, nd + 2, nd, backgrounds.len() as u64];
        run_space(ctx, &mut rep, "B_redefinition", product(&radices), 256, |idx, acc| {
            let mut d = Vec::new();
            decode(idx, &radices, &mut d);
            d[3] = backgrounds[d[3] as usize];
            let lines = prog_b(&al, &d);
            let style = (idx % 3) as u8;
            if idx % 200_003 == 5 {
                acc.sample(obj(vec![("space", "B-redefinition".into()), ("program", render(&lines, style).into())]));
            }
            case_macro_prog(idx, "redef", lines, style, false, false)
        });
        if ctx.quick() {
            rep.caps_hit.push("quick tier: space A renders every program in one of the three separator styles (spaces, tight, block comments; thorough: all three); space B uses 6 of the 40 background choices (none, `A := 1`, `C :=`, `F(x) := x`, `G(x,y) := x ## y`, `xy(v) := { v }`); space C uses 3 files (thorough: 4)".into());
        }
    }

    // ---- C: include graphs
    {
        let n = ctx.pick(3usize, 4usize);
        let max_lines = 2;
        let variants: Vec<Vec<Vec<ILine>>> = (0..n).map(|i| file_variants(i, n, max_lines)).collect();
        let mut radices: Vec<u64> = variants.iter().map(|v| v.len() as u64).collect();
        radices.push(2); // trailing newline
        run_space(ctx, &mut rep, "C_include_graphs", product(&radices), 1024, |idx, acc| {
            let mut d = Vec::new();
            decode(idx, &radices, &mut d);
            let graph: Vec<Vec<ILine>> = (0..n).map(|i| variants[i][d[i] as usize].clone()).collect();
            if idx % 500_009 == 77 {
                acc.sample(obj(vec![("space", "C-include-graph".into()), ("graph", graph_replay(&graph, d[n] == 0).into())]));
            }
            case_graph(idx, graph, d[n] == 0)
        });
        rep.cov("include_graph_files", Json::Int(n as i64));
        rep.cov("include_graph_max_lines_per_file", Json::Int(max_lines as i64));
    }

    // ---- D1: value classes × programs, pairs of defines (through preprocess)
    {
        let mut placements: Vec<Placement> = Vec::new();
        for v in VALUES {
            for p in PLACEMENT_PROGS {
                placements.push(value_placement("N", v, p));
            }
        }
        for (n1, n2) in [("N", "M"), ("M", "N"), ("N", "N")] {
            for v1 in PAIR_VALUES {
                for v2 in PAIR_VALUES {
                    placements.push(pair_placement(n1, v1, n2, v2));
                }
            }
        }
        run_space(ctx, &mut rep, "D1_define_placement_values", placements.len() as u64, 8, |idx, _| placements[idx as usize].clone().into_case(idx));
    }

    // ---- D3: compile() with the define in the argument list vs in the file
    {
        let mut cases: Vec<(&str, &str, Cfg)> = Vec::new();
        for v in COMPILE_VALUES {
            for p in COMPILE_PROGS {
                for cfg in [Cfg::Dx, Cfg::Vk, Cfg::Msl] {
                    cases.push((v, p, cfg));
                }
            }
        }
        let r = run_par(ctx, cases.len() as u64, 4, |idx, acc| {
            let (v, p, cfg) = cases[idx as usize];
            check_compile_placement(v, p, cfg, acc);
        });
        rep.absorb("D3_define_placement_compile", r);
        let mut lcases: Vec<(&[(&str, &str)], &str, Cfg)> = Vec::new();
        for l in COMPILE_LISTS {
            for p in COMPILE_LIST_PROGS {
                for cfg in [Cfg::Dx, Cfg::Vk, Cfg::Msl] {
                    lcases.push((l, p, cfg));
                }
            }
        }
        let r = run_par(ctx, lcases.len() as u64, 4, |idx, acc| {
            let (l, p, cfg) = lcases[idx as usize];
            check_compile_placement_list(l, p, cfg, list_replay(l, p, cfg), acc);
        });
        rep.absorb("D3_define_placement_compile_lists", r);
    }

    rep.cov("definition_alphabet", Json::Arr(DEFS.iter().map(|d| Json::Str(d.to_string())).collect()));
    rep.cov("invocation_forms", Json::Arr(FORMS.iter().map(|d| Json::Str(d.to_string())).collect()));
    rep.assumptions = vec![
        "reference = Prosser's hide-set algorithm over whitespace-free token lists (cross-checked against gcc -E and clang -E on the whole definition/form alphabet during construction); the token grammar of the reference is identifiers, integer literals (decimal, `0x` hexadecimal, octal with leading zero, optional u/l/ul/lu suffix; a paste is the concatenation of the operand spellings, re-read as one token of this grammar) and the punctuation used by the alphabets".into(),
        "if the reference ever leaves a name unexpanded because it is painted (recursive macro set), only termination without panic is required and nothing is compared (the property promises termination only; the C standard leaves part of these cases unspecified)".into(),
        "excluded from comparison (no panic/termination only): ## with an operand that is a defined macro name, ## with an empty argument as operand (placemarker), ## whose result is not one token of the reference grammar, # stringification (never generated), macro bodies with unbalanced parentheses (never generated), invocations that span a directive line (never generated: every use line ends in ';')".into(),
        "ill-formed invocations (wrong arity, unterminated argument list): the property does not demand rejection, so only 'no panic' is required; both-reject is counted".into(),
        "every preprocess() call runs in an isolated worker process (`vcheck --worker C12`, 512 KiB stack): a stack overflow aborts that process and is attributed to the case that was running; 512 KiB is far above what a terminating expansion of these programs needs (nesting depth <= 12)".into(),
        "include graphs whose pasted text is unbounded (a cycle no #pragma once breaks; reference depth limit 24) are excluded; #pragma once takes effect when its line is processed; file names are matched literally".into(),
        "define placement: names are identifiers, values are single-line; diagnostics are compared only when the in-file diagnostic is located after the #define lines (a location inside the value has no counterpart in the argument-list placement); spelling of tokens that come from argument-list defines is not observable (no location), their kind and value are compared".into(),
        "at most 3 definitions per program in space A (4 in the thorough-only space A4, whose fourth definition ranges over 8 chain-lengthening definitions) and 2+1 in space B, one or two use lines; variadic macros are not supported by rssl".into(),
    ];
    finish(ctx, rep)
}

pub fn replay(ctx: &Ctx, body: &str) -> i32 {
    let mut acc = Acc::default();
    let (kind, rest) = body.split_once('\n').unwrap_or((body, ""));
    match kind.trim() {
        "kind: macro" | "kind: redef" | "kind: pastelit" => {
            let space = kind.trim().strip_prefix("kind: ").unwrap();
            let (lines, style) = match parse_prog(rest) {
                Ok(x) => x,
                Err(e) => {
                    eprintln!("machinery error: {}", e);
                    return 2;
                }
            };
            let text = render(&lines, style);
            println!("program:\n{}", text);
            let space: &'static str = match space {
                "redef" => "redef",
                "pastelit" => "pastelit",
                _ => "macro",
            };
            run_cases(vec![case_macro_prog(0, space, lines, style, space != "redef", true)], &mut acc);
        }
        "kind: placement" => {
            let mut it = rest.splitn(3, '\n');
            let n = it.next().unwrap_or("").strip_prefix("N ").unwrap_or("N").to_string();
            let v = it.next().unwrap_or("").strip_prefix("V ").unwrap_or("").to_string();
            let prog = it.next().unwrap_or("").to_string();
            run_cases(vec![value_placement(&n, &v, &prog).into_case(0)], &mut acc);
        }
        "kind: placement2" => {
            let l: Vec<&str> = rest.lines().collect();
            if l.len() < 4 {
                eprintln!("machinery error: placement2 needs 4 lines");
                return 2;
            }
            run_cases(vec![pair_placement(l[0], l[1], l[2], l[3]).into_case(0)], &mut acc);
        }
        "kind: compile-placement" => {
            let mut it = rest.splitn(3, '\n');
            let cfg = it.next().unwrap_or("").strip_prefix("cfg: ").and_then(Cfg::from_name).unwrap_or(Cfg::Dx);
            let v = it.next().unwrap_or("").strip_prefix("V ").unwrap_or("").to_string();
            let prog = it.next().unwrap_or("").to_string();
            check_compile_placement(&v, &prog, cfg, &mut acc);
        }
        "kind: compile-placement-list" => {
            let mut it = rest.splitn(3, '\n');
            let cfg = it.next().unwrap_or("").strip_prefix("cfg: ").and_then(Cfg::from_name).unwrap_or(Cfg::Dx);
            let n: usize = it.next().unwrap_or("").strip_prefix("n: ").and_then(|x| x.trim().parse().ok()).unwrap_or(0);
            let tail = it.next().unwrap_or("");
            let mut parts = tail.splitn(n + 1, '\n');
            let mut defs: Vec<(String, String)> = Vec::new();
            for _ in 0..n {
                let l = parts.next().unwrap_or("");
                let (a, b) = l.split_once('\t').unwrap_or((l, ""));
                defs.push((a.to_string(), b.to_string()));
            }
            let prog = parts.next().unwrap_or("").to_string();
            let d: Vec<(&str, &str)> = defs.iter().map(|(a, b)| (a.as_str(), b.as_str())).collect();
            check_compile_placement_list(&d, &prog, cfg, list_replay(&d, &prog, cfg), &mut acc);
        }
        "kind: include" => {
            let (graph, tn) = match parse_graph(rest) {
                Ok(x) => x,
                Err(e) => {
                    eprintln!("machinery error: {}", e);
                    return 2;
                }
            };
            run_cases(vec![case_graph(0, graph, tn)], &mut acc);
        }
        "kind: dump-for-cpp" => {
            // development aid: print every space-A program (style 0) whose reference result is defined, in a form that
            // can be piped through a C preprocessor, with the reference expansion, to cross-check the reference model
            let al = alphabets();
            let nd = al.defs.len() as u64;
            let nf = al.forms.len() as u64;
            let radices = [nf, nd, nd, nd, 1];
            let step: u64 = rest.trim().parse().unwrap_or(1);
            let mut d = Vec::new();
            let mut idx = 0;
            while idx < product(&radices) {
                decode(idx, &radices, &mut d);
                let (lines, _) = prog_a(&al, &d);
                let rf = reference(&lines);
                if let Ok(w) = &rf.result {
                    if !rf.flags.invalid_paste && !rf.flags.empty_paste_operand {
                        println!("@@@ {} {}", idx, w.join(" "));
                        print!("{}", render(&lines, 0));
                        println!("#undef A\n#undef B\n#undef C\n#undef F\n#undef G\n#undef H\n#undef Z\n#undef xy\n#undef p1");
                    }
                }
                idx += step;
            }
            return 0;
        }
        k => {
            eprintln!("machinery error: unknown replay kind {:?}", k);
            return 2;
        }
    }
    finish_replay(ctx, &acc)
}

//! C08 — compilation is total: every input yields a result or a rendered diagnostic.
//!
//! All cases run in child processes (engine::run_isolated) so that aborts, stack overflows and hangs of the subject are
//! seen and attributed to one input. Spaces (each enumerated completely within its bound):
//!  bytes      all strings of ≤ 2 bytes over 7-bit ASCII + strings of length 3 (quick) / 4 (thorough) over byte-class
//!             representatives
//!  tokens     all token strings of length ≤ 2 (quick: 3 over classes) / ≤ 3 (thorough) at file scope and in a function body
//!  directives erroneous and well-formed directive lines, sequences of ≤ 3, with use lines; API-level defines whose
//!             value is each token class
//!  mutants    every single-token mutant (delete, duplicate, swap, replace by each token class) of the core programs
//!             and of the repository's .rssl inputs, across targets × modes × layout validation
//!  extremes   constants at their boundaries in every syntactic position that takes a number
//!  scaling    nesting / repetition families with a CPU-time growth oracle

use crate::engine::*;
use crate::json::{Json, obj};
use crate::util::*;
use rssl::text::tokens::Token;

#[derive(Clone, Debug)]
pub struct Case {
    pub family: String,
    pub src: String,
    pub extra_files: Vec<(String, String)>,
    pub defines: Vec<(String, String)>,
    pub cfg: Cfg,
    pub mode: Mode,
    pub validate: bool,
}

impl Case {
    fn simple(family: &str, src: String, rot: u64) -> Case {
        let (cfg, mode, validate) = combo(rot);
        Case { family: family.to_string(), src, extra_files: vec![], defines: vec![], cfg, mode, validate }
    }
    pub fn replay_text(&self) -> String {
        let mut s = format!(
            "kind: compile\nfamily: {}\ncfg: {}\nmode: {}\nvalidate: {}\n",
            self.family,
            self.cfg.name(),
            match &self.mode {
                Mode::All => "all".to_string(),
                Mode::NoPipeline => "nopipe".to_string(),
                Mode::Named(n) => format!("named {}", n),
            },
            self.validate
        );
        for (k, v) in &self.defines {
            s.push_str(&format!("define: {}={}\n", k, v.replace('\n', "\\n")));
        }
        for (n, c) in &self.extra_files {
            s.push_str(&format!("file: {}\n{}\n<<<end-of-file\n", n, c));
        }
        s.push_str("=====\n");
        s.push_str(&self.src);
        s
    }
    pub fn from_replay(body: &str) -> Option<Case> {
        let (head, src) = body.split_once("=====\n")?;
        let mut c = Case { family: String::new(), src: src.to_string(), extra_files: vec![], defines: vec![], cfg: Cfg::Dx, mode: Mode::NoPipeline, validate: false };
        let mut lines = head.lines();
        while let Some(l) = lines.next() {
            if let Some(v) = l.strip_prefix("family: ") {
                c.family = v.to_string();
            } else if let Some(v) = l.strip_prefix("cfg: ") {
                c.cfg = Cfg::from_name(v.trim())?;
            } else if let Some(v) = l.strip_prefix("mode: ") {
                c.mode = match v.trim() {
                    "all" => Mode::All,
                    "nopipe" => Mode::NoPipeline,
                    o => Mode::Named(o.trim_start_matches("named ").to_string()),
                };
            } else if let Some(v) = l.strip_prefix("validate: ") {
                c.validate = v.trim() == "true";
            } else if let Some(v) = l.strip_prefix("define: ") {
                let (k, val) = v.split_once('=')?;
                c.defines.push((k.to_string(), val.replace("\\n", "\n")));
            } else if let Some(v) = l.strip_prefix("file: ") {
                let mut content = String::new();
                for fl in lines.by_ref() {
                    if fl == "<<<end-of-file" {
                        break;
                    }
                    if !content.is_empty() {
                        content.push('\n');
                    }
                    content.push_str(fl);
                }
                c.extra_files.push((v.to_string(), content));
            }
        }
        Some(c)
    }
}

/// the 4 targets × {all pipelines, no-pipeline, named pipeline P} × layout validation on/off
pub fn combo(rot: u64) -> (Cfg, Mode, bool) {
    let cfg = ALL_CFGS[(rot % 4) as usize];
    let mode = match (rot / 4) % 3 {
        0 => Mode::NoPipeline,
        1 => Mode::All,
        _ => Mode::Named("P".to_string()),
    };
    let validate = (rot / 12) % 2 == 1;
    (cfg, mode, validate)
}
pub const N_COMBOS: u64 = 24;

/// Run one case: the oracle of C08.
pub fn check_case(c: &Case, acc: &mut Acc) -> f64 {
    acc.evals += 1;
    let mut files: Vec<(&str, &str)> = vec![("main.rssl", c.src.as_str())];
    for (n, s) in &c.extra_files {
        files.push((n.as_str(), s.as_str()));
    }
    let defines: Vec<(&str, &str)> = c.defines.iter().map(|(k, v)| (k.as_str(), v.as_str())).collect();
    let job = Job { files: &files, entry: "main.rssl", defines: &defines, cfg: c.cfg, mode: c.mode.clone(), validate_layout: c.validate };
    let t0 = thread_cpu_s();
    let r = guard(|| job.run());
    let dt = thread_cpu_s() - t0;
    // slowest surviving member per family: shows the margin to the CPU limit
    let fam_head = c.family.split('|').take(2).collect::<Vec<_>>().join("|");
    acc.max(&format!("max_ms {}", fam_head), (dt * 1000.0) as u64);
    match r {
        Err(p) => {
            acc.violation(Violation {
                signature: p.signature(),
                detail: format!("[{}] compile panicked at {}: {} — input: {}", c.family, p.file, one_line(&p.message, 200), one_line(&c.src, 200)),
                replay: c.replay_text(),
            });
        }
        Ok(Ok(ps)) => {
            acc.count("accepted");
            acc.outcome(&("ok", ps.len(), ps.first().map(|p| hash_of(&p.data)).unwrap_or(0)));
        }
        Ok(Err(msg)) => {
            acc.count("rejected_with_diagnostic");
            if msg.trim().is_empty() {
                acc.violation(Violation { signature: "diagnostic|empty".into(), detail: format!("[{}] empty diagnostic for {}", c.family, one_line(&c.src, 200)), replay: c.replay_text() });
            }
            // class of the diagnostic = its message without position
            let first = msg.lines().next().unwrap_or("");
            let class = first.rsplit(": ").next().unwrap_or(first);
            acc.outcome(&("err", class.to_string()));
        }
    }
    dt
}

// ---------------------------------------------------------------------------------------------
// alphabets

fn byte_classes() -> Vec<&'static str> {
    vec![
        "a", "x", "e", "f", "u", "l", "h", "L", "_", "0", "1", "9", " ", "\t", "\n", "\r", "\\", "\"", "#", "'", "/", "*", "+", "-", "<", ">", "=", "!", "&", "|", "^", "%", "~", ".", ",", ";", ":", "?", "(", ")", "[", "]", "{", "}", "@", "$", "\0",
        "\u{e9}", "\u{20ac}", "\u{1f600}",
    ]
}

pub fn token_alphabet() -> Vec<&'static str> {
    let mut v = vec![
        "a", "T", "float", "float4", "Texture2D", "0", "1", "1u", "2.5", "1.0f", "0x1F", "\"s\"", "{", "}", "(", ")", "[", "]", "<", ">", ";", ",", "?", "+", "++", "+=", "-", "--", "-=", "/", "/=", "%", "%=", "*", "*=", "|", "||", "|=", "&", "&&", "&=", "^",
        "^=", "=", "==", "@", "!", "!=", "~", ".", ":", "::", "#", "##",
    ];
    v.extend([
        "if", "else", "for", "while", "do", "switch", "return", "break", "continue", "discard", "case", "default", "struct", "class", "enum", "typedef", "cbuffer", "register", "packoffset", "namespace", "true", "false", "in", "out", "inout", "const",
        "volatile", "row_major", "column_major", "unorm", "snorm", "extern", "static", "inline", "groupshared", "constexpr", "sizeof", "template", "typename", "decltype", "auto", "operator", "this", "unsigned", "Pipeline", "void", "vector", "matrix",
        "ConstantBuffer", "StaticSampler", "numthreads", "vertices", "payload", "precise", "nointerpolation", "SV_Position",
    ]);
    v
}

fn token_classes() -> Vec<&'static str> {
    vec![
        "a", "T", "float", "0", "1u", "2.5", "\"s\"", "{", "}", "(", ")", "[", "]", "<", ">", ";", ",", "?", "+", "++", "-", "*", "&", "&&", "=", "==", "!", "~", ".", ":", "::", "#", "##", "if", "else", "for", "return", "case", "struct", "enum", "typedef",
        "cbuffer", "register", "packoffset", "namespace", "const", "static", "out", "sizeof", "template", "typename", "unsigned", "Pipeline", "void",
    ]
}

fn directive_lines() -> Vec<&'static str> {
    vec![
        "#", "#foo", "#include", "#include \"missing\"", "#include \"inc\"", "#include <inc>", "#include <x", "#include \"x", "#include inc", "#define", "#define 1", "#define A", "#define A 1", "#define A A", "#define A B", "#define B A", "#define F(", "#define F(a,",
        "#define F(a,a) a", "#define F(a) a", "#define F(a,b) a b", "#define F() 1", "#define F(x) #x", "#define F(x) x ## x", "#define F(x) x ## 1", "#define G(x) F(x) F", "#define A a ##", "#define A ## a", "#define A #", "#define A a ## b ## c", "#undef",
        "#undef A", "#undef 1", "#undef A B", "#if", "#if (", "#if 1 +", "#if 1", "#if 0", "#if A", "#if F(1)", "#if defined", "#if defined(", "#if defined(A", "#if defined A", "#if 1 1", "#if )", "#if 1 < = 2", "#if 99999999999999999999", "#ifdef", "#ifdef 1",
        "#ifdef A", "#ifndef A", "#ifndef", "#else", "#else x", "#endif", "#endif x", "#elif", "#elif 1", "#elif (", "#pragma", "#pragma once", "#pragma foo", "#pragma warning(disable: 1)", "#line 3", "#error x", "##", "# define A 2", "#\tdefine A 3", "A", "F(1)",
        "F(a, b)", "F(", "F", "F(1", "F((1,2),3)", "F(F(1))", "G(1)(2)", "A ## B", "a ## b", "x A y;", "#define A \\", "1", "/* #define A", "*/", "// #if 0 \\", "t;",
    ]
}

/// macro definitions and uses: every sequence of 1-3 definition lines followed by one use line (complete in both tiers)
fn macro_def_lines() -> Vec<&'static str> {
    vec![
        "#define ID(x) x", "#define A ID(A)", "#define B ID(C)", "#define C ID(B)", "#define A A", "#define A B", "#define B A", "#define F(x) F(x)", "#define F(x) G(x)", "#define G(x) F(x)", "#define P(x) x ## x", "#define Q(x, y) x ## y",
        "#define A ID(ID(A))", "#define W(x) ID(x) ID", "#define A (A)", "#define E", "#define H() H", "#define A Q(A, A)",
    ]
}

fn macro_use_lines() -> Vec<&'static str> {
    vec!["A", "static const int A = 1;", "F(1)", "ID(A)", "ID(F(A))", "P(A)", "Q(A, B)", "W(1)(2)", "H()()", "B C", "#if A\n#endif", "#if ID(A)\n#endif"]
}

fn define_values() -> Vec<&'static str> {
    vec!["", "1", "0", "a", "A", "B", "1 + 2", "(", ")", "( (", "\"s", "\"s\"", "##", "#", "a ## b", "## a", "a ##", "/*", "//", "\\", "\n", "1\n#define C 2", "$", "\u{e9}", "99999999999999999999", "1.0p", "float", "if", "{", "}", ";", "<", ">", ",", "F(", "F(1)"]
}

fn define_programs() -> Vec<&'static str> {
    vec![
        "A", "static const int x = A;", "A ## B", "B ## A", "a ## A", "A ## 1", "#if A\nt;\n#endif", "#ifdef A\nt;\n#endif", "#define B A\nB", "#define F(x) x\nF(A)", "#define F(x) x ## A\nF(1)", "#define F(x) A ## x\nF(1)", "#undef A\nA", "#define A 5\nA",
        "#include \"inc\"", "int f() { return A; }", "A A A", "#if defined(A) && A\nt;\n#endif", "#define G(x, y) x ## y\nG(A, A)", "G(A", "#elif A",
    ]
}

// ---------------------------------------------------------------------------------------------
// programs and mutants

pub fn core_programs() -> Vec<(String, String)> {
    let mut v: Vec<(String, String)> = Vec::new();
    for i in super::c07::inputs() {
        v.push((i.name, i.src));
    }
    v.push((
        "pipelines-and-state".into(),
        r#"
const Texture2D g_t;
const RWTexture2D<float4> g_o : register(space1);
cbuffer C { float4 g_c; }
[numthreads(8, 8, 1)] void CS(uint3 id : SV_DispatchThreadID) { g_o[id.xy] = g_t.Load(int3(id.xy, 0)) + g_c; }
void VS(uint vid : SV_VertexID, out float4 pos : SV_Position) { pos = float4(0, 0, 0, 1); }
float4 PS(float4 pos : SV_Position) : SV_Target0 { return g_c; }
Pipeline P { ComputeShader = CS; DefaultBindGroup = 1; }
Pipeline Q { VertexShader = VS; PixelShader = PS; RenderTargetFormat0 = "R8G8B8A8_UNORM"; DepthTargetFormat = "D32_FLOAT"; CullMode = "Back"; }
"#
        .into(),
    ));
    v.push((
        "layout-structs".into(),
        r#"
struct In { float2 a; float b; };
struct Out { In i; float c; half h; double d; float3 v3; };
const StructuredBuffer<Out> g_sb;
const RWStructuredBuffer<In> g_rw;
const ByteAddressBuffer g_b;
[numthreads(1, 1, 1)] void CS(uint3 id : SV_DispatchThreadID) { In x = g_b.Load<In>(0); Out o = g_sb[0]; g_rw[0] = o.i; g_rw[1] = x; }
Pipeline P { ComputeShader = CS; }
"#
        .into(),
    ));
    v
}

fn statement_programs() -> Vec<(String, String)> {
    // small single-construct programs (every statement form / declaration form)
    let stmts = [
        "float x = 1.0; x += 2.0;", "int i; for (i = 0; i < 4; ++i) { if (i == 2) continue; else break; }", "uint k = 0u; while (k < 3u) { k++; } do { k--; } while (k > 0u);",
        "int a = 1; switch (a) { case 0: a = 2; break; case 1: case 2: a = 3; default: a = 4; }", "float4 v = float4(1, 2, 3, 4); float2 s = v.xy + v.zw; v.x = s.y;", "float arr[3] = { 1.0, 2.0, 3.0 }; arr[1] = arr[0] + arr[2];",
        "bool b = true && !false || 1 < 2; int t = b ? 1 : 2;", "uint u = 1u << 3u; u >>= 1u; u |= 4u; u &= ~1u; u ^= 2u;", "float f = (float)1 + (float)(2 + 3) * -(float)4;", "int n = sizeof(float4) + sizeof(int);", "[unroll] for (int j = 0; j < 2; ++j) { }",
        "float m = min(1.0, 2.0) + max(3.0, 4.0) + abs(-1.0) + clamp(0.5, 0.0, 1.0) + dot(float3(1,2,3), float3(4,5,6));", "return;",
        // brace initialisers on scalars, vectors, arrays and nested aggregates (a deleted token leaves `{ }`, `{ , x }`, …)
        "float bx = { 1.0 }; int by = { 1 }; float2 bv = { 1.0, 2.0 }; float ba[2] = { 1.0, 2.0 }; float bm[2][1] = { { 1.0 }, { 2.0 } }; static int bs = { 3 };",
    ];
    let mut v = Vec::new();
    for (i, s) in stmts.iter().enumerate() {
        v.push((format!("stmt-{}", i), format!("void f() {{ {} }}\n", s)));
    }
    let decls = [
        "struct S { float a; int b[2]; void m() { a = 1.0; } };", "enum E { A, B = 2, C };\nint f(E e) { return (int)e; }", "namespace n { static const float a = 1.0; float g() { return a; } }\nfloat h() { return n::g(); }",
        "template<typename T> T id(T v) { return v; }\nfloat u() { return id<float>(1.0); }", "float f(float a, in float b, out float c, inout float d) { c = a; d += b; return a; }", "static const float k[2] = { 1.0, 2.0 };\ngroupshared float sh[64];",
        "cbuffer C : register(b1) { float a; float4 b; }\nfloat g() { return a + b.x; }", "typedef float4 vec4;\nvec4 g() { return vec4(1, 2, 3, 4); }", "[[rssl::bind_group(1)]] Texture2D t;\nSamplerState s;\nfloat4 g(float2 uv) { return t.Sample(s, uv); }",
        "struct P { float x; };\nConstantBuffer<P> cb : register(b2, space3);\nfloat g() { return cb.x; }",
        "static int gx = { 1 };\nstatic const float gy = { 2.0 };\nstruct B { int a; float b; };\nstatic const B gb = { 1, 2.0 };\nint g() { return gx + gb.a; }",
    ];
    for (i, d) in decls.iter().enumerate() {
        v.push((format!("decl-{}", i), format!("{}\n", d)));
    }
    v
}

pub fn repo_inputs() -> Vec<(String, String)> {
    let mut v = Vec::new();
    let mut dirs = vec![std::path::PathBuf::from(repo_root()).join("tests/basic"), std::path::PathBuf::from(repo_root()).join("hlsl/tests"), std::path::PathBuf::from(repo_root()).join("msl/tests")];
    while let Some(d) = dirs.pop() {
        if let Ok(rd) = std::fs::read_dir(&d) {
            let mut es: Vec<_> = rd.flatten().map(|e| e.path()).collect();
            es.sort();
            for p in es {
                if p.is_dir() {
                    dirs.push(p);
                } else if p.extension().map(|e| e == "rssl" || e == "hlsl").unwrap_or(false) {
                    if let Ok(t) = std::fs::read_to_string(&p) {
                        if t.len() < 6000 {
                            v.push((p.to_string_lossy().replace(&repo_root(), ""), t));
                        }
                    }
                }
            }
        }
    }
    v.sort();
    v
}

/// byte spans of the non-whitespace tokens of a program (via the real lexer); None if it does not lex
fn token_spans(src: &str) -> Option<Vec<(usize, usize)>> {
    use rssl::text::{Locate, LocateEnd};
    let r = guard(|| {
        let mut sm = rssl::text::SourceManager::new();
        // lex without interpreting directives: every line is lexed as text by prefixing nothing; directives make
        // preprocess_fragment drop tokens, so fall back to a whitespace split for lines starting with '#'
        rssl::preprocess::preprocess_fragment(src, rssl::text::FileName("t".into()), &mut sm).ok().map(|toks| {
            toks.iter().filter(|t| !t.0.is_whitespace() && t.get_location().get_raw() != u32::MAX).map(|t| (t.get_location().get_raw() as usize, t.get_end_location().get_raw() as usize, t.0.clone())).collect::<Vec<(usize, usize, Token)>>()
        })
    })
    .ok()??;
    let len = src.len();
    let mut v: Vec<(usize, usize)> = r.into_iter().filter(|(s, e, _)| s < e && *e <= len).map(|(s, e, _)| (s, e)).collect();
    v.sort();
    v.dedup();
    // tokens that come from macro bodies may repeat / interleave: keep a strictly increasing chain
    let mut out: Vec<(usize, usize)> = Vec::new();
    for (s, e) in v {
        if out.last().map(|l| l.1 <= s).unwrap_or(true) {
            out.push((s, e));
        }
    }
    Some(out)
}

pub struct MutantSpace {
    pub programs: Vec<(String, String, Vec<(usize, usize)>)>,
    pub classes: Vec<&'static str>,
    /// prefix sums of mutants per program
    pub offsets: Vec<u64>,
    pub total: u64,
}

impl MutantSpace {
    pub fn new(programs: Vec<(String, String)>) -> MutantSpace {
        let classes = token_classes();
        let mut ps = Vec::new();
        let mut offsets = Vec::new();
        let mut total = 0u64;
        for (n, s) in programs {
            if let Some(sp) = token_spans(&s) {
                offsets.push(total);
                total += Self::per_program(sp.len(), classes.len());
                ps.push((n, s, sp));
            }
        }
        MutantSpace { programs: ps, classes, offsets, total }
    }
    fn per_program(ntok: usize, ncls: usize) -> u64 {
        // 1 unmutated + per token: delete, duplicate, swap with next, replace by each class
        1 + ntok as u64 * (3 + ncls as u64)
    }
    pub fn get(&self, idx: u64) -> (String, String) {
        let k = match self.offsets.binary_search(&idx) {
            Ok(k) => k,
            Err(k) => k - 1,
        };
        let (name, src, spans) = &self.programs[k];
        let local = idx - self.offsets[k];
        if local == 0 {
            return (format!("{}|unmutated", name), src.clone());
        }
        let per = 3 + self.classes.len() as u64;
        let t = ((local - 1) / per) as usize;
        let m = (local - 1) % per;
        let (s, e) = spans[t];
        let mutated = match m {
            0 => format!("{}{}", &src[..s], &src[e..]),
            1 => format!("{}{} {}{}", &src[..s], &src[s..e], &src[s..e], &src[e..]),
            2 => {
                if t + 1 < spans.len() {
                    let (s2, e2) = spans[t + 1];
                    format!("{}{}{}{}{}", &src[..s], &src[s2..e2], &src[e..s2], &src[s..e], &src[e2..])
                } else {
                    format!("{}{}", &src[..s], &src[e..])
                }
            }
            c => format!("{}{}{}", &src[..s], self.classes[(c - 3) as usize], &src[e..]),
        };
        (format!("mutant|{}", name), mutated)
    }
}

// ---------------------------------------------------------------------------------------------
// extremes

fn extreme_values() -> Vec<&'static str> {
    vec![
        "0", "1", "2", "3", "4", "5", "7", "8", "16", "31", "32", "33", "63", "64", "65", "128", "255", "256", "1024", "1025", "65535", "65536", "2147483647", "2147483648", "4294967295", "4294967296", "9223372036854775807", "9223372036854775808",
        "18446744073709551615", "18446744073709551616", "99999999999999999999999999", "-1", "-2147483648", "1u", "4294967295u", "0x7fffffff", "0xffffffff", "0xffffffffffffffff", "1.5", "1e39", "1e400", "1e-400", "(1 << 31)", "(1 << 32)", "(1u << 32u)",
        "(0 - 1)", "(0u - 1u)", "(2147483647 + 1)", "(1 / 0)", "(1 % 0)", "(-2147483647 - 1) / -1", "(-2147483647 - 1) % -1", "(int)3e9", "(uint)-1.0", "(int)1e400", "4294967295 * 4294967295", "-(-2147483647 - 1)", "~0", "~0u", "!0", "true", "(1 ? 2 : 3)", "sizeof(int)",
        // float spellings whose exponent digits are themselves boundary integers
        "1.5e-9223372036854775807", "1.55e-9223372036854775807", "1.55e-9223372036854775808", "0.001e-18446744073709551615", "1.5e18446744073709551615", "1e99999999999999999999", "1.5e-99999999999999999999", "0.00000000000000000001e9223372036854775807",
        "1e-9223372036854775808f", "1.5e+4294967296h",
    ]
}

fn extreme_templates() -> Vec<&'static str> {
    vec![
        "float a[%];", "static const int x = %;", "static const uint x = %;", "static const float x = %;", "static const half x = %;", "static const bool x = %;", "static const int x = % + %;", "static const int x = % * %;", "static const uint x = % - %;",
        "static const int x = % << %;", "static const uint x = % >> %;", "static const int x = % / %;", "static const int x = % % %;", "static const int x = -%;", "static const int x = (int)%;", "static const uint x = (uint)%;", "static const float x = (float)%;",
        "[numthreads(%, 1, 1)] void f() {}\nPipeline P { ComputeShader = f; }", "[numthreads(1, %, %)] void f() {}\nPipeline P { ComputeShader = f; }", "Texture2D t : register(t%);", "Texture2D t : register(t0, space%);", "Texture2D t : register(space%);",
        "RWTexture2D<float4> t : register(u%, space%);", "cbuffer C : register(b%) { float a; }", "SamplerState s : register(s%);", "[[rssl::bind_group(%)]] Texture2D t;", "[[vk::binding(%, %)]] Texture2D t;", "[[rssl::bindless]] [[rssl::bind_group(%)]] Texture2D t[%];",
        "Texture2D t[%];\n[numthreads(1,1,1)] void f() { t[0]; }\nPipeline P { ComputeShader = f; }", "cbuffer C { float a : packoffset(c%); }", "vector<float, %> v;", "matrix<float, %, %> m;", "enum E { A = %, B };", "enum E { A = %, B = A + 1 };",
        "void f(int a) { switch (a) { case %: break; } }", "template<uint N> uint g() { return N; }\nuint f() { return g<%>(); }", "template<int N> int g() { return N; }\nint f() { return g<%>(); }", "float f(float4 v) { return v[%]; }",
        "float f() { float a[4]; return a[%]; }", "int f() { return 1 << %; }", "uint f(uint a) { return a >> %; }", "float f() { return %; }", "int f() { return %; }", "uint f() { return %; }", "bool f() { return %; }", "half f() { return %; }",
        "void f() { [unroll(%)] for (int i = 0; i < 2; ++i) {} }", "ByteAddressBuffer b;\nuint f() { return b.Load(%); }\n", "void VS(out float4 p : SV_Position) { p = float4(0,0,0,1); }\nfloat4 PS() : SV_Target% { return float4(0,0,0,0); }\nPipeline P { VertexShader = VS; PixelShader = PS; }",
        "void VS(out float4 p : SV_Position) { p = float4(0,0,0,1); }\nfloat4 PS() : SV_Target0 { return float4(0,0,0,0); }\nPipeline P { VertexShader = VS; PixelShader = PS; RenderTargetFormat% = R8G8B8A8_UNORM; }",
        "void VS(out float4 p : SV_Position) { p = float4(0,0,0,1); }\nfloat4 PS() : SV_Target0 { return float4(0,0,0,0); }\nPipeline P { VertexShader = VS; PixelShader = PS; WriteMask0 = %; }",
        "[numthreads(1,1,1)] void f() {}\nPipeline P { ComputeShader = f; DefaultBindGroup = %; }", "[numthreads(1,1,1)] [WaveSize(%)] void f() {}\nPipeline P { ComputeShader = f; }", "[outputtopology(\"triangle\")] [numthreads(%,1,1)] void f() {}",
        "struct S { float a[%]; };\nStructuredBuffer<S> b;\n[numthreads(1,1,1)] void f() { b[0]; }\nPipeline P { ComputeShader = f; }", "static const float a[%] = { 1.0 };", "static const int x = assert_eval<int>(%, %);", "float%x% m;", "float% v;", "uint%_t v;",
    ]
}

// ---------------------------------------------------------------------------------------------
// scaling families: (name, generator(n)); n is the nesting depth or the repetition count

type Gen = fn(usize) -> String;

fn rep(s: &str, n: usize) -> String {
    s.repeat(n)
}

/// grammar nesting, property bound: depth ≤ 12 (cast-like prefixes ≤ 6)
pub fn nesting_families() -> Vec<(&'static str, Gen, usize)> {
    vec![
        ("paren-expr", (|n| format!("int f(int a) {{ return {}a{}; }}", rep("(", n), rep(")", n))) as Gen, 12),
        ("subscript", |n| format!("float f(float a[2], int i) {{ return a{}i{}; }}", rep("[a[", n).replace("[a[", "[(int)a["), rep("]]", n)), 6),
        ("block", |n| format!("void f() {{ {} {} }}", rep("{", n), rep("}", n)), 12),
        ("unary-minus", |n| format!("int f(int a) {{ return {}a; }}", rep("- ", n)), 12),
        ("unary-not", |n| format!("bool f(bool a) {{ return {}a; }}", rep("!", n)), 12),
        ("ternary-chain", |n| format!("int f(int a) {{ return {}0; }}", rep("a ? 1 : ", n)), 12),
        ("ternary-nest", |n| format!("int f(int a) {{ return {}a{}; }}", rep("a ? (", n), rep(") : 0", n)), 12),
        ("template-brackets", |n| format!("void f() {{ a{}b{}; }}", rep("<", n), rep(">", n)), 12),
        ("template-call", |n| format!("void f() {{ {}x{}; }}", rep("g<", n), rep(">()", n)), 8),
        ("cast-prefix", |n| format!("int f(int x) {{ return {}x; }}", rep("(a)", n)), 6),
        ("cast-real", |n| format!("int f(int x) {{ return {}x; }}", rep("(int)", n)), 12),
        ("call-nest", |n| format!("int g(int a) {{ return a; }}\nint f(int x) {{ return {}x{}; }}", rep("g(", n), rep(")", n)), 12),
        ("if-nest", |n| format!("void f(bool a) {{ {} ; }}", rep("if (a) ", n)), 12),
        ("if-else-chain", |n| format!("void f(int a) {{ {} {{ }} }}", rep("if (a == 1) { } else ", n)), 12),
        ("for-nest", |n| format!("void f() {{ {} ; }}", rep("for (int i = 0; i < 2; ++i) ", n)), 12),
        ("namespace-nest", |n| format!("{} float a; {}", (0..n).map(|i| format!("namespace n{} {{", i)).collect::<String>(), rep("}", n)), 12),
        ("struct-nest", |n| (0..n).map(|i| if i == 0 { "struct S0 { float a; };\n".to_string() } else { format!("struct S{} {{ S{} s; float a; }};\n", i, i - 1) }).collect::<String>(), 12),
        ("preproc-if-nest", |n| format!("{}t;\n{}", rep("#if 1\n", n), rep("#endif\n", n)), 12),
        ("macro-nest", |n| format!("{}static const int x = M{};\n", (0..n).map(|i| if i == 0 { "#define M0 1\n".to_string() } else { format!("#define M{} (M{} + M{})\n", i, i - 1, i - 1) }).collect::<String>(), n.saturating_sub(1)), 12),
        ("macro-fn-nest", |n| format!("#define F(x) (x + x)\nstatic const int x = {}1{};\n", rep("F(", n), rep(")", n)), 12),
        ("array-dims", |n| format!("float a{};", rep("[2]", n)), 8),
        ("binary-right-nest", |n| format!("int f(int a) {{ return {}a{}; }}", rep("a + (", n), rep(")", n)), 12),
        ("swizzle-chain", |n| format!("float f(float4 v) {{ return v{}.x; }}", rep(".xyzw", n)), 12),
        ("braces-init", |n| format!("static const float a[1] = {}1.0{};", rep("{", n), rep("}", n)), 12),
        ("sizeof-nest", |n| format!("uint f(uint a) {{ return {}a{}; }}", rep("sizeof(", n), rep(")", n)), 12),
        ("sequence", |n| format!("int f(int a) {{ return ({}a); }}", rep("a, ", n)), 12),
        ("assign-chain", |n| format!("void f(int a) {{ {}1; }}", rep("a = ", n)), 12),
    ]
}

/// token soups: n = repetition count, input length stays ≤ 4 KB
pub fn soup_families() -> Vec<(&'static str, &'static str, &'static str, &'static str)> {
    // (name, prefix, unit, suffix)
    vec![
        ("soup-lparen", "", "(", ""), ("soup-lparen-fn", "void f() { ", "(", " }"), ("soup-lbracket-fn", "void f() { a", "[", " }"), ("soup-lbrace", "", "{", ""), ("soup-lbrace-fn", "void f() ", "{", ""), ("soup-minus-fn", "void f() { a = ", "-", "1; }"),
        ("soup-not-fn", "void f() { a = ", "!", "1; }"), ("soup-tilde-init", "static const int x = ", "~", "1;"), ("soup-langle", "", "<", ""), ("soup-a-langle-fn", "void f() { ", "a<", " }"), ("soup-a-lparen-fn", "void f() { ", "a(", " }"),
        ("soup-ternary-fn", "void f() { x = ", "a?", "1; }"), ("soup-plus-fn", "void f() { x = ", "a+", "1; }"), ("soup-dot-fn", "void f() { x = a", ".x", "; }"), ("soup-cast-fn", "void f() { x = ", "(a)", "1; }"), ("soup-scope", "void f() { ", "a::", "b; }"),
        ("soup-star-fn", "void f() { x = ", "*", "a; }"), ("soup-amp-fn", "void f() { x = ", "&", "a; }"), ("soup-template", "", "template<", ""), ("soup-typename", "template<", "typename T,", "typename U> void f();"), ("soup-rangle-fn", "void f() { a", ">", " }"),
        ("soup-if-directive", "", "#if 1\n", ""), ("soup-define-self", "", "#define A A\n", "A"), ("soup-define-chain", "", "#define A B\n#define B A\n", "A B"), ("soup-namespace", "", "namespace a{", ""), ("soup-struct", "", "struct a{", ""),
        ("soup-if-fn", "void f() { ", "if(a)", "; }"), ("soup-for-fn", "void f() { ", "for(;;)", "; }"), ("soup-else-fn", "void f() { if (a) ; ", "else if (a) ; ", "}"), ("soup-semicolon", "", ";", ""), ("soup-comma-args", "void f() { g(", "a,", "a); }"),
        ("soup-params", "void f(", "int a,", "int b) {}"), ("soup-members", "struct S { ", "float a;", "};"), ("soup-enum", "enum E { ", "A,", "B };"), ("soup-init-list", "static const float a[] = { ", "1.0,", "2.0 };"), ("soup-attr", "", "[unroll]", "void f() {}"),
        ("soup-attr2", "", "[[a]]", "void f() {}"), ("soup-string", "", "\"", ""), ("soup-block-comment", "", "/*", ""), ("soup-line-splice", "", "\\\n", "a"), ("soup-stmt", "void f() { ", "a = a + 1;", " }"), ("soup-decl", "void f() { ", "{ int a; }", " }"),
        ("soup-case", "void f(int a) { switch (a) { ", "case 1:", " break; } }"), ("soup-postfix", "void f() { a", "++", "; }"), ("soup-call-chain", "void f() { a", "()", "; }"), ("soup-subscript-chain", "void f() { a", "[0]", "; }"),
        ("soup-digits", "static const int x = ", "9", ";"), ("soup-float-digits", "static const float x = 0.", "9", ";"), ("soup-exponent", "static const float x = 1e", "9", ";"), ("soup-ident", "int ", "a", ";"), ("soup-concat", "#define C(a,b) a##b\nint ", "C(a,", "b);"),
        ("soup-include-self", "", "#include \"main.rssl\"\n", ""), ("soup-register", "Texture2D t ", ": register(t0) ", ";"), ("soup-semantic", "float f() ", ": A ", "{ return 1.0; }"),
    ]
}

fn soup_counts() -> Vec<usize> {
    vec![1, 2, 4, 8, 16, 32, 64, 128, 256, 512, 1024, 2048, 4096]
}

// ---------------------------------------------------------------------------------------------
// spaces

pub struct Spaces {
    bytes: Vec<&'static str>,
    toks: Vec<&'static str>,
    tok_classes: Vec<&'static str>,
    dir: Vec<&'static str>,
    quick: bool,
    mutants: MutantSpace,
    mutants_repo: MutantSpace,
}

impl Spaces {
    pub fn new(quick: bool) -> Spaces {
        let mut progs = core_programs();
        progs.extend(statement_programs());
        Spaces { bytes: byte_classes(), toks: token_alphabet(), tok_classes: token_classes(), dir: directive_lines(), quick, mutants: MutantSpace::new(progs), mutants_repo: MutantSpace::new(repo_inputs()) }
    }

    pub fn names(&self) -> Vec<&'static str> {
        // the two spaces whose cases run into the per-case CPU limit by design (deep nesting, scaling families) go last: when
        // the machine is loaded they used to consume the whole wall budget before the large cheap spaces had run at all
        vec!["macros", "defines", "extremes", "names", "degenerate", "pipelines", "literal_forms", "bytes2", "bytes_cls", "tokens", "tokens_cls", "directives", "mutants", "mutants_repo", "nesting", "soups"]
    }

    pub fn len(&self, space: &str) -> u64 {
        let nb = self.bytes.len() as u64;
        let nt = self.toks.len() as u64;
        let nc = self.tok_classes.len() as u64;
        let nd = self.dir.len() as u64;
        match space {
            "bytes2" => 1 + 128 + 128 * 128,
            "bytes_cls" => nb.pow(3) + if self.quick { 0 } else { nb.pow(4) },
            "tokens" => 2 * (nt + nt * nt + if self.quick { 0 } else { nt * nt * nt }),
            "tokens_cls" => 2 * (nc.pow(3) + if self.quick { 0 } else { nc.pow(4) / 4 }),
            "directives" => nd + nd * nd + if self.quick { nd * nd * nd / 16 } else { nd * nd * nd },
            "defines" => (define_values().len() * define_programs().len()) as u64 * 4,
            "macros" => {
                let n = macro_def_lines().len() as u64;
                (n + n * n + n * n * n) * macro_use_lines().len() as u64
            }
            "mutants" => if self.quick { self.mutants.total / 4 } else { self.mutants.total * 6 },
            "mutants_repo" => if self.quick { self.mutants_repo.total / 40 } else { self.mutants_repo.total },
            "extremes" => {
                let nv = extreme_values().len() as u64;
                let q = self.quick;
                extreme_templates().iter().map(|t| nv.pow(t.matches('%').count().min(if q { 1 } else { 2 }) as u32) * 4).sum()
            }
            "nesting" => nesting_families().iter().map(|f| f.2 as u64).sum::<u64>() * 4,
            "soups" => (soup_families().len() * soup_counts().len()) as u64,
            "pipelines" => {
                let n = PIPELINE_PROPERTIES.len() as u64;
                (n + n * n + if self.quick { n * n * n / 4 } else { n * n * n }) * 2
            }
            "literal_forms" => (LITERAL_FORMS.len() * LITERAL_USES.len()) as u64 * 4,
            "degenerate" => (DEGENERATE_DECLS.len() * DEGENERATE_USES.len()) as u64 * 8,
            "names" => (NAME_WORDS.len() * NAME_KINDS.len() * NAME_KINDS.len() * NAME_SUFFIX_SETS.len()) as u64 * 4,
            _ => 0,
        }
    }

    pub fn case(&self, space: &str, idx: u64) -> Case {
        let mut d = Vec::new();
        match space {
            "bytes2" => {
                let s = if idx == 0 {
                    String::new()
                } else if idx <= 128 {
                    ((idx - 1) as u8 as char).to_string()
                } else {
                    let k = idx - 129;
                    format!("{}{}", (k / 128) as u8 as char, (k % 128) as u8 as char)
                };
                Case::simple("bytes", s, idx)
            }
            "bytes_cls" => {
                let nb = self.bytes.len() as u64;
                let (len, k) = if idx < nb.pow(3) { (3, idx) } else { (4, idx - nb.pow(3)) };
                decode(k, &vec![nb; len], &mut d);
                let s: String = d.iter().map(|i| self.bytes[*i as usize]).collect();
                Case::simple("bytes", s, idx)
            }
            "tokens" | "tokens_cls" => {
                let alpha = if space == "tokens" { &self.toks } else { &self.tok_classes };
                let n = alpha.len() as u64;
                let in_fn = idx % 2 == 1;
                let mut k = idx / 2;
                let lens: Vec<(usize, u64)> = if space == "tokens" { vec![(1, n), (2, n * n), (3, n * n * n)] } else { vec![(3, n.pow(3)), (4, n.pow(4) / 4)] };
                let mut len = 0;
                for (l, c) in lens {
                    if k < c {
                        len = l;
                        break;
                    }
                    k -= c;
                }
                if space == "tokens_cls" && len == 4 {
                    k *= 4; // every 4th string of length 4 (stated in the evidence)
                }
                decode(k, &vec![n; len], &mut d);
                let body: Vec<&str> = d.iter().map(|i| alpha[*i as usize]).collect();
                let s = if in_fn { format!("void f() {{ {} }}", body.join(" ")) } else { body.join(" ") };
                Case::simple(if in_fn { "tokens-in-function" } else { "tokens-at-file-scope" }, s, idx / 2)
            }
            "directives" => {
                let n = self.dir.len() as u64;
                let (len, mut k) = if idx < n {
                    (1, idx)
                } else if idx < n + n * n {
                    (2, idx - n)
                } else {
                    (3, idx - n - n * n)
                };
                if len == 3 && self.quick {
                    k *= 16;
                }
                decode(k, &vec![n; len], &mut d);
                let mut s = String::new();
                for i in &d {
                    s.push_str(self.dir[*i as usize]);
                    s.push('\n');
                }
                let mut c = Case::simple("directives", s, idx);
                c.extra_files.push(("inc".to_string(), "#pragma once\n#define INC 1\nu;\n".to_string()));
                c
            }
            "macros" => {
                let defs = macro_def_lines();
                let uses = macro_use_lines();
                let n = defs.len() as u64;
                let u = uses[(idx % uses.len() as u64) as usize];
                let k = idx / uses.len() as u64;
                let (len, kk) = if k < n { (1, k) } else if k < n + n * n { (2, k - n) } else { (3, k - n - n * n) };
                decode(kk, &vec![n; len], &mut d);
                let mut s = String::new();
                for i in &d {
                    s.push_str(defs[*i as usize]);
                    s.push('\n');
                }
                s.push_str(u);
                s.push('\n');
                Case::simple("macro-programs", s, idx)
            }
            "defines" => {
                let vals = define_values();
                let progs = define_programs();
                let cfg = ALL_CFGS[(idx % 4) as usize];
                let k = idx / 4;
                let v = vals[(k % vals.len() as u64) as usize];
                let p = progs[(k / vals.len() as u64) as usize];
                let mut c = Case::simple("api-defines", format!("{}\n", p), 0);
                c.cfg = cfg;
                c.defines.push(("A".to_string(), v.to_string()));
                c.extra_files.push(("inc".to_string(), "A\n".to_string()));
                c
            }
            "mutants" => {
                let per = if self.quick { 1 } else { 6 };
                // quick: every 4th mutant
                let m = if self.quick { idx * 4 } else { idx / per };
                let (fam, src) = self.mutants.get(m);
                // quick: one combination per mutant, rotating; thorough: 6 combinations per mutant covering all targets,
                // all modes and both validation settings across consecutive mutants
                let rot = if self.quick { m } else { (idx % per) * 4 + m % 4 + (m / 4 % 2) * 12 };
                let fam = fam.split('|').next().unwrap_or("mutant").to_string();
                Case::simple(&fam, src, rot)
            }
            "mutants_repo" => {
                let (fam, src) = self.mutants_repo.get(if self.quick { idx * 40 } else { idx });
                let fam = fam.split('|').next().unwrap_or("mutant").to_string();
                Case::simple(&fam, src, idx)
            }
            "extremes" => {
                let vals = extreme_values();
                let nv = vals.len() as u64;
                let mut k = idx;
                for t in extreme_templates() {
                    let holes = t.matches('%').count().min(if self.quick { 1 } else { 2 }) as u32;
                    let cnt = nv.pow(holes) * 4;
                    if k < cnt {
                        let cfg = ALL_CFGS[(k % 4) as usize];
                        let kk = k / 4;
                        let mut v1 = vals[(kk % nv) as usize];
                        // quick tier: bind-group numbers above 65536 exhaust memory / time (a recorded finding) and cost
                        // 5 CPU seconds each; they are explored in the thorough tier only
                        let group_template = t.contains("space%") || t.contains("bind_group(%") || t.contains("binding(%");
                        if self.quick && group_template && (kk % nv) as usize >= 21 {
                            v1 = vals[((kk % nv) % 21) as usize];
                        }
                        let v2 = if holes < 2 { v1 } else { vals[((kk / nv) % nv) as usize] };
                        // fill holes: first hole v1, second v2, further holes v1
                        let mut out = String::new();
                        let mut h = 0;
                        for part in t.split('%') {
                            if h > 0 {
                                out.push_str(if h == 2 { v2 } else { v1 });
                            }
                            out.push_str(part);
                            h += 1;
                        }
                        let head: String = t.chars().take(26).collect();
                        let mut c = Case::simple(&format!("extreme|{}", head.replace('\n', " ")), format!("{}\n", out), 0);
                        c.cfg = cfg;
                        c.mode = if out.contains("Pipeline") { Mode::All } else { Mode::NoPipeline };
                        c.validate = kk % 2 == 0;
                        return c;
                    }
                    k -= cnt;
                }
                unreachable!()
            }
            "nesting" => {
                let mut k = idx;
                for (name, g, max) in nesting_families() {
                    let cnt = max as u64 * 4;
                    if k < cnt {
                        let n = (k / 4) as usize + 1;
                        let mut c = Case::simple(name, g(n), 0);
                        c.cfg = ALL_CFGS[(k % 4) as usize];
                        c.family = format!("nesting|{}", name);
                        return c;
                    }
                    k -= cnt;
                }
                unreachable!()
            }
            "pipelines" => {
                // every sequence of <= 3 pipeline properties (valid ones, repeated ones, wrong values, unknown names)
                let n = PIPELINE_PROPERTIES.len() as u64;
                let target_sel = idx % 2;
                let k0 = idx / 2;
                let (len, mut k) = if k0 < n { (1, k0) } else if k0 < n + n * n { (2, k0 - n) } else { (3, k0 - n - n * n) };
                if len == 3 && self.quick {
                    k *= 4;
                }
                decode(k, &vec![n; len], &mut d);
                let mut body = String::new();
                for i in &d {
                    body.push_str("    ");
                    body.push_str(PIPELINE_PROPERTIES[*i as usize]);
                    body.push('\n');
                }
                let src = format!("{}Pipeline P\n{{\n{}}}\n", PIPELINE_PRELUDE, body);
                let mut c = Case::simple("pipeline-properties", src, 0);
                // the typer does the work: two targets alternate (HLSL for DirectX and Metal)
                c.cfg = if (target_sel + k0) % 2 == 0 { Cfg::Dx } else { Cfg::Msl };
                c.mode = Mode::All;
                c
            }
            "literal_forms" => {
                // literals written in unusual but accepted ways (swizzled, constructed, suffixed) in positions that fix a type
                let (nf, nu) = (LITERAL_FORMS.len() as u64, LITERAL_USES.len() as u64);
                decode(idx, &[4, nu, nf], &mut d);
                let src = LITERAL_USES[d[1] as usize].replace('%', LITERAL_FORMS[d[2] as usize]);
                let mut c = Case::simple("literal-forms", format!("{}\n", src), 0);
                c.cfg = ALL_CFGS[d[0] as usize];
                c.mode = Mode::NoPipeline;
                c.validate = d[2] % 2 == 0;
                c
            }
            "degenerate" => {
                // empty / zero-sized declarations in every position that takes a type or a declaration
                let (nd, nu) = (DEGENERATE_DECLS.len() as u64, DEGENERATE_USES.len() as u64);
                decode(idx, &[4, 2, nu, nd], &mut d);
                let (dname, decl) = DEGENERATE_DECLS[d[3] as usize];
                let (uname, usage) = DEGENERATE_USES[d[2] as usize];
                let src = format!("{}\n{}\n", decl, usage);
                let mut c = Case::simple(&format!("degenerate|{}|{}", dname, uname), src, 0);
                c.cfg = ALL_CFGS[d[0] as usize];
                c.validate = d[1] == 1;
                c.mode = if usage.contains("Pipeline") { Mode::All } else { Mode::NoPipeline };
                c
            }
            "names" => {
                // an entity named W (possibly renamed by an exporter because W is reserved in the target) next to
                // entities that already carry the names the renaming would try next (W_0, W_1, W_0_0)
                let (nw, nk, ns) = (NAME_WORDS.len() as u64, NAME_KINDS.len() as u64, NAME_SUFFIX_SETS.len() as u64);
                decode(idx, &[4, ns, nk, nk, nw], &mut d);
                let w = NAME_WORDS[d[4] as usize];
                let (k1, k2) = (NAME_KINDS[d[3] as usize], NAME_KINDS[d[2] as usize]);
                let mut globals = String::new();
                let mut body = String::new();
                name_entity(k1, w, 0, &mut globals, &mut body);
                for (i, suf) in NAME_SUFFIX_SETS[d[1] as usize].iter().enumerate() {
                    name_entity(k2, &format!("{}{}", w, suf), i + 1, &mut globals, &mut body);
                }
                let src = format!("{}uint f() {{\n    uint r = 0u;\n{}    return r;\n}}\n", globals, body);
                let mut c = Case::simple(&format!("names|{}|{}", k1, k2), src, 0);
                c.cfg = ALL_CFGS[d[0] as usize];
                c.mode = Mode::NoPipeline;
                c
            }
            "soups" => {
                let fams = soup_families();
                let counts = soup_counts();
                let (name, pre, unit, suf) = fams[(idx / counts.len() as u64) as usize];
                let mut n = counts[(idx % counts.len() as u64) as usize];
                let budget = 4096usize.saturating_sub(pre.len() + suf.len());
                n = n.min(budget / unit.len().max(1)).max(1);
                let mut c = Case::simple(name, format!("{}{}{}", pre, unit.repeat(n), suf), 0);
                c.family = format!("soup|{}", name);
                c
            }
            _ => unreachable!(),
        }
    }
}

const PIPELINE_PRELUDE: &str = "void VS(out float4 p : SV_Position) { p = float4(0, 0, 0, 1); }\nfloat4 PS() : SV_Target0 { return float4(0, 0, 0, 0); }\n[numthreads(1, 1, 1)] void CS() {}\n";

const PIPELINE_PROPERTIES: &[&str] = &[
    "VertexShader = VS;",
    "PixelShader = PS;",
    "ComputeShader = CS;",
    "RenderTargetFormat0 = \"R8G8B8A8_UNORM\";",
    "RenderTargetFormat1 = \"R32G32_UINT\";",
    "RenderTargetFormat7 = \"R8G8B8A8_UNORM\";",
    "DepthTargetFormat = \"D32_FLOAT\";",
    "DefaultBindGroup = 1;",
    "DefaultBindGroup = 0;",
    "CullMode = \"Back\";",
    "CullMode = \"None\";",
    "WindingOrder = \"Clockwise\";",
    "WindingOrder = \"CounterClockwise\";",
    "BlendState = { BlendEnabled = true; SrcBlend = \"One\"; DstBlend = \"Zero\"; BlendOp = \"Add\"; }",
    "BlendState0 = { BlendEnabled = false; WriteMask = 0xFu; }",
    "BlendState0 = { BlendEnabled = true; BlendEnabled = false; Unknown = 1; }",
    "Unknown = 1;",
    "CullMode = 3;",
    "RenderTargetFormat0 = \"NOT_A_FORMAT\";",
    "VertexShader = Missing;",
    "PixelShader = CS;",
];

const LITERAL_FORMS: &[&str] = &[
    "(1).x", "(1).xx", "(1).xxxx", "(1.5).xx", "(1u).xxx", "(true).xx", "(1).xx.yx", "((1).xx).x", "int2(1, 2).xy", "float2(1, 2)", "(1, 2)", "-(1).xx", "(1).xx + 1", "(1).xx * (2).xx", "(1.5h).xx", "(1.5L).xx", "(1l).xx",
    "(1ul).xx", "1.xx", "1..xx",
];

const LITERAL_USES: &[&str] = &[
    "template<typename T> T pass(T v) { return v; }\nvoid f() { pass(%); }",
    "template<typename T> T pass(T v) { return v; }\nfloat2 f() { return (float2)pass(%); }",
    "RWByteAddressBuffer g_b;\nvoid f() { g_b.Store(0, %); }",
    "RWByteAddressBuffer g_b;\nvoid f() { g_b.Store<uint2>(0, %); }",
    "void f() { float2 v = %; }",
    "void f() { int a[2]; a[0] = (%).x; }",
    "float2 f() { return %; }",
    "static const float2 k = %;\nfloat2 f() { return k; }",
    "float f(float2 v) { return v.x; }\nfloat g() { return f(%); }",
    "float f(int2 v) { return 1.0; }\nfloat f(float2 v) { return 2.0; }\nfloat g() { return f(%); }",
    "struct S { float2 a; };\nvoid f() { S s = { % }; }",
    "void f() { float a[(%).x]; }",
    "enum E { A = (%).x };",
    "void f(int x) { switch (x) { case (%).x: break; } }",
    "RWStructuredBuffer<float2> g_s;\nvoid f() { g_s[0] = %; }",
    "void f() { sizeof(%); }",
];

/// declarations of a type `T` with no data, no members or no size
const DEGENERATE_DECLS: &[(&str, &str)] = &[
    ("empty-struct", "struct T { };"),
    ("struct-of-empty-struct", "struct E { };\nstruct T { E e; };"),
    ("struct-of-empty-array", "struct E { };\nstruct T { E e[2]; };"),
    ("struct-with-only-methods", "struct T { float m() { return 1.0; } void n() {} };"),
    ("struct-with-empty-and-data", "struct E { };\nstruct T { E e; float a; E f; };"),
    ("empty-derived-struct", "struct B { float a; };\nstruct T : B { };"),
    ("derived-from-empty", "struct B { };\nstruct T : B { float a; };"),
    ("empty-enum", "enum T { };"),
    ("enum-one-value", "enum T { T0 };"),
    ("typedef-of-empty-struct", "struct E { };\ntypedef E T;"),
    ("struct-of-zero-length-array", "struct T { float a[0]; };"),
    ("struct-of-bool", "struct T { bool b; };"),
    ("struct-of-matrix", "struct T { float3x3 m; };"),
    ("struct-of-object", "struct T { Texture2D t; };"),
    ("struct-template-instance", "template<typename U> struct G { };\ntypedef G<float> T;"),
];

/// positions in which `T` is used
const DEGENERATE_USES: &[(&str, &str)] = &[
    ("unused", ""),
    ("structured-buffer", "StructuredBuffer<T> g_b;\nvoid f() { g_b[0]; }"),
    ("rw-structured-buffer-pipeline", "RWStructuredBuffer<T> g_b;\n[numthreads(1, 1, 1)] void CSMAIN() { T v = g_b[0]; g_b[1] = v; }\nPipeline P { ComputeShader = CSMAIN; }"),
    ("raw-load", "ByteAddressBuffer g_b;\nvoid f() { T v = g_b.Load<T>(0); }"),
    ("raw-store", "RWByteAddressBuffer g_b;\nvoid f(T v) { g_b.Store<T>(0, v); }"),
    ("buffer-address-load", "BufferAddress g_b;\nvoid f() { T v = g_b.Load<T>(0); }"),
    ("constant-buffer", "ConstantBuffer<T> g_c;\nvoid f() { T v = g_c; }"),
    ("cbuffer-member", "cbuffer C { T m; float after; }\nfloat f() { return after; }"),
    ("static-global", "static T g_s;\nvoid f() { T v = g_s; }"),
    ("groupshared-array", "groupshared T g_s[4];\nvoid f() { T v = g_s[1]; }"),
    ("local-and-copy", "void f() { T a; T b = a; a = b; }"),
    ("local-array", "void f() { T a[3]; T b = a[1]; }"),
    ("parameter-and-return", "T id(T v) { return v; }\nvoid f() { T a; a = id(a); }"),
    ("out-parameter", "void o(out T v) { T w; v = w; }\nvoid f() { T a; o(a); }"),
    ("cast-from-zero", "void f() { T a = (T)0; }"),
    ("sizeof", "uint f() { return sizeof(T); }"),
    ("array-size-from-sizeof", "void f() { float a[sizeof(T) + 1]; }"),
    ("template-argument", "template<typename U> U pass(U v) { return v; }\nvoid f() { T a; a = pass<T>(a); }"),
    ("interpolator-pipeline", "struct VO { float4 p : SV_Position; T t : USER; };\nVO VS() { VO o; o.p = float4(0, 0, 0, 1); return o; }\nfloat4 PS(VO i) : SV_Target0 { return i.p; }\nPipeline P { VertexShader = VS; PixelShader = PS; }"),
    ("braced-init", "void f() { T a = { }; }"),
];

/// words that are reserved in at least one target but are accepted as rssl identifiers, plus an ordinary control
const NAME_WORDS: &[&str] = &["and", "kernel", "vertex", "shared", "uniform", "device", "xq"];
const NAME_KINDS: &[&str] = &["local", "local-other-function", "parameter", "global", "function", "struct", "member", "cbuffer-member", "namespace", "enum-value"];
const NAME_SUFFIX_SETS: &[&[&str]] = &[&["_0"], &["_0", "_1"], &["_0", "_0_0"], &["_1"]];

fn name_entity(kind: &str, name: &str, k: usize, globals: &mut String, body: &mut String) {
    match kind {
        "local" => body.push_str(&format!("    uint {n} = {k}u;\n    r += {n};\n", n = name, k = k)),
        "local-other-function" => {
            globals.push_str(&format!("uint other{k}() {{ uint {n} = {k}u; return {n}; }}\n", n = name, k = k));
            body.push_str(&format!("    r += other{}();\n", k));
        }
        "parameter" => {
            globals.push_str(&format!("uint withp{k}(uint {n}) {{ return {n} + 1u; }}\n", n = name, k = k));
            body.push_str(&format!("    r += withp{}(r);\n", k));
        }
        "global" => {
            globals.push_str(&format!("static uint {} = {}u;\n", name, k));
            body.push_str(&format!("    r += {};\n", name));
        }
        "function" => {
            globals.push_str(&format!("uint {}() {{ return {}u; }}\n", name, k));
            body.push_str(&format!("    r += {}();\n", name));
        }
        "struct" => {
            globals.push_str(&format!("struct {} {{ uint m; }};\n", name));
            body.push_str(&format!("    {} sv{k};\n    sv{k}.m = {k}u;\n    r += sv{k}.m;\n", name, k = k));
        }
        "member" => {
            globals.push_str(&format!("struct SM{} {{ uint {}; }};\n", k, name));
            body.push_str(&format!("    SM{k} mv{k};\n    mv{k}.{n} = {k}u;\n    r += mv{k}.{n};\n", n = name, k = k));
        }
        "cbuffer-member" => {
            globals.push_str(&format!("cbuffer CB{} {{ uint {}; }}\n", k, name));
            body.push_str(&format!("    r += {};\n", name));
        }
        "namespace" => {
            globals.push_str(&format!("namespace {} {{ uint g() {{ return {}u; }} }}\n", name, k));
            body.push_str(&format!("    r += {}::g();\n", name));
        }
        _ => {
            globals.push_str(&format!("enum EN{} {{ {} }};\n", k, name));
            body.push_str(&format!("    r += (uint){};\n", name));
        }
    }
}

/// time-growth oracle along one nesting family (run inside one worker so the timings are comparable)
fn check_growth(acc: &mut Acc) {
    for (name, g, max) in nesting_families() {
        // the *output* of these two families doubles with every level (each level mentions the previous one twice),
        // so no preprocessor can handle them in polynomial time: they stay in the no-panic space only
        if name == "macro-nest" || name == "macro-fn-nest" {
            continue;
        }
        let mut times: Vec<(usize, f64)> = Vec::new();
        for n in 1..=max {
            let mut c = Case::simple(name, g(n), 0);
            c.family = format!("nesting|{}", name);
            let mut best = f64::MAX;
            for _ in 0..3 {
                let mut scratch = Acc::default();
                let dt = check_case(&c, &mut scratch);
                best = best.min(dt);
            }
            times.push((n, best));
        }
        acc.evals += 1;
        for (n, t) in &times {
            if let Some((_, t2)) = times.iter().find(|(m, _)| *m == 2 * n) {
                if *t2 > 16.0 * t + 0.005 {
                    let c = Case::simple(name, g(2 * n), 0);
                    acc.violation(Violation {
                        signature: format!("time-growth|{}", name),
                        detail: format!("family {}: CPU time {:.1} ms at depth {} but {:.1} ms at depth {} (more than 16x + 5 ms): super-polynomial growth", name, t * 1e3, n, t2 * 1e3, 2 * n),
                        replay: c.replay_text(),
                    });
                    break;
                }
            }
        }
        acc.outcome(&("growth", name));
    }
}

pub fn worker(args: &[String]) -> i32 {
    // args: <space> <lo> <hi> <careful|fast> <quick|thorough>
    if args.len() < 5 {
        return 2;
    }
    let space = args[0].clone();
    let lo: u64 = args[1].parse().unwrap_or(0);
    let hi: u64 = args[2].parse().unwrap_or(0);
    let careful = args[3] == "careful";
    let quick = args[4] == "quick";
    if space == "growth" {
        return worker_loop(0, 1, careful, &|_, acc| check_growth(acc));
    }
    let sp = Spaces::new(quick);
    worker_loop(lo, hi, careful, &|idx, acc| {
        let c = sp.case(&space, idx);
        check_case(&c, acc);
        if idx % 50_021 == 17 {
            acc.sample(obj(vec![("space", space.as_str().into()), ("family", c.family.as_str().into()), ("target", c.cfg.name().into()), ("input", one_line(&c.src, 160).into())]));
        }
    })
}

pub fn run(ctx: &Ctx) -> i32 {
    let mut rep = Report::new("exploration");
    rep.rule = "every enumerated input is compiled by rssl::compile in a supervised child process; non-trivial = the compiler produced pipelines or a rendered diagnostic; distinct = different output hash or different diagnostic message class".into();
    let sp = Spaces::new(ctx.quick());
    let tier = if ctx.quick() { "quick" } else { "thorough" }.to_string();
    for space in sp.names() {
        let total = sp.len(space);
        let chunk = match space {
            "bytes2" | "bytes_cls" | "tokens" | "tokens_cls" | "directives" => 20_000,
            "nesting" => 1,
            "soups" => soup_counts().len() as u64,
            "defines" => 200,
            "macros" => 500,
            "extremes" => 64,
            "names" => 40,
            "degenerate" => 20,
            "pipelines" => 200,
            "literal_forms" => 40,
            _ => 2_000,
        };
        let describe = |idx: u64| -> (String, String) {
            let c = sp.case(space, idx);
            (c.family.clone(), c.replay_text())
        };
        let r = run_isolated(ctx, space, total, chunk, &[tier.clone()], space == "soups", &describe);
        rep.absorb(space, r);
        if std::env::var("C08_TIMING").is_ok() {
            eprintln!("[C08] {} done at {:.1}s ({} cases)", space, ctx.start.elapsed().as_secs_f64(), total);
        }
    }
    // growth oracle
    let describe = |_: u64| -> (String, String) { ("growth".to_string(), "kind: growth\n".to_string()) };
    let r = run_isolated(ctx, "growth", 1, 1, &[tier.clone()], false, &describe);
    rep.absorb("time_growth_families", r);
    rep.cov("mutant_base_programs", Json::Int((sp.mutants.programs.len() + sp.mutants_repo.programs.len()) as i64));
    if ctx.quick() {
        rep.caps_hit.push("quick tier: byte-class strings of length 4, full-alphabet token strings of length 3, 15/16 of the 3-line directive sequences, two independent extreme values per template, 3 of 4 core mutants (and 5 of 6 target/mode combinations per mutant) and 39 of 40 repository-input mutants are explored in the thorough tier only".into());
    }
    rep.caps_hit.push("token-class strings of length 4: every 4th string".into());
    rep.assumptions = vec![
        "inputs are valid UTF-8 (the API takes &str / String); non-UTF-8 bytes cannot reach the lexer".into(),
        format!("a case is a timeout when it uses more than {} s of CPU time in a child process; stack overflows are calibrated on an 8 MiB stack in an optimised build with debug assertions and overflow checks", CASE_TIME_LIMIT_S),
        "arbitrary 4 KB inputs are not enumerable: coverage is all short strings over class representatives, all single-token mutants of the base programs, and all members of the nesting/repetition families".into(),
        "time growth is judged on thread CPU time, minimum of 3 runs, t(2n) <= 16 t(n) + 5 ms along each nesting family".into(),
    ];
    finish(ctx, rep)
}

pub fn replay(ctx: &Ctx, body: &str) -> i32 {
    let mut acc = Acc::default();
    if body.starts_with("kind: growth") {
        check_growth(&mut acc);
        return finish_replay(ctx, &acc);
    }
    let Some(c) = Case::from_replay(body) else {
        eprintln!("machinery error: bad replay file");
        return 2;
    };
    // run in a child so that an abort is reported instead of killing the replay
    let exe = std::env::current_exe().unwrap();
    let tmp = format!("{}/replays/.replay-case.txt", root());
    let _ = std::fs::write(&tmp, c.replay_text());
    let out = std::process::Command::new(exe).arg("--worker").arg("C08").arg("@file").arg(&tmp).output();
    match out {
        Ok(o) => {
            print!("{}", String::from_utf8_lossy(&o.stdout));
            if !o.status.success() && o.status.code() != Some(1) {
                println!("VIOLATION property=C08 replay=(replayed) signature=abort|{}|{}", o.status.to_string().replace(' ', "-"), c.family);
                return 1;
            }
            o.status.code().unwrap_or(2)
        }
        Err(e) => {
            eprintln!("machinery error: {}", e);
            2
        }
    }
}

/// `--worker C08 @file <path>`: run one case from a replay file in this (child) process
pub fn worker_file(path: &str) -> i32 {
    let Ok(body) = std::fs::read_to_string(path) else { return 2 };
    let Some(c) = Case::from_replay(&body) else { return 2 };
    let mut acc = Acc::default();
    let h = std::thread::Builder::new().stack_size(8 << 20).spawn(move || {
        check_case(&c, &mut acc);
        acc
    });
    let acc = match h.map(|h| h.join()) {
        Ok(Ok(a)) => a,
        _ => return 4,
    };
    let ctx = Ctx { prop: "C08".into(), tier: Tier::Quick, seed: 0, jobs: 1, start: std::time::Instant::now(), budget: std::time::Duration::from_secs(60) };
    finish_replay(&ctx, &acc)
}

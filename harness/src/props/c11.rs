//! C11 — conditional compilation selects exactly the branches C semantics select.
//!
//! Part 1 (E2): explicit-state BFS over directive histories. Transition function = the real
//!   preprocessor (public `preprocess`), state = the real ConditionChain + macro table recorded by hook
//!   H3, paired with the state of the reference model `CondModel`. Invariants on every transition.
//! Part 2 (E1): every directive sequence up to length 5/6 end-to-end (surviving text + error variant).
//! Part 3 (E1): condition expressions against a u64 precedence-climbing reference evaluator.

use crate::engine::*;
use crate::json::{Json, obj};
use rssl::preprocess::PreprocessError;
use rssl::text::SourceManager;
use std::collections::HashMap;

pub const LETTERS: &[&str] = &[
    "#if 0", "#if 1", "#ifdef D", "#ifndef D", "#ifdef U", "#ifndef U", "#elif 0", "#elif 1", "#else", "#endif", "T", "#define U 1", "#undef D",
];

// -------------------------------------------------------------------------------------------
// reference model: C conditional inclusion

#[derive(Clone, PartialEq, Eq, Hash, Debug)]
pub struct Frame {
    parent_active: bool,
    taken: bool,
    active: bool,
    seen_else: bool,
}

#[derive(Clone, PartialEq, Eq, Hash, Debug)]
pub struct CondModel {
    pub stack: Vec<Frame>,
    pub d_defined: bool,
    pub u_defined: bool,
}

#[derive(Debug, PartialEq, Eq, Clone)]
pub enum StepResult {
    Ok,
    /// text line survives
    Text(bool),
    ErrElse,
    ErrEndif,
    /// C leaves it ill-formed and the property does not list it (second #else, #elif after #else)
    Unspecified,
}

impl CondModel {
    pub fn new() -> CondModel {
        CondModel { stack: Vec::new(), d_defined: true, u_defined: false }
    }
    pub fn active(&self) -> bool {
        self.stack.last().map(|f| f.active).unwrap_or(true)
    }
    fn push(&mut self, cond: bool) {
        let pa = self.active();
        let act = pa && cond;
        self.stack.push(Frame { parent_active: pa, taken: act, active: act, seen_else: false });
    }
    fn switch(&mut self, cond: bool, is_else: bool) -> StepResult {
        match self.stack.last_mut() {
            None => StepResult::ErrElse,
            Some(f) => {
                if f.seen_else {
                    return StepResult::Unspecified;
                }
                if is_else {
                    f.seen_else = true;
                }
                if !f.parent_active {
                    f.active = false;
                } else if f.taken {
                    f.active = false;
                } else {
                    f.active = cond;
                    f.taken = cond;
                }
                StepResult::Ok
            }
        }
    }
    pub fn step(&mut self, letter: &str) -> StepResult {
        match letter {
            "#if 0" => self.push(false),
            "#if 1" => self.push(true),
            "#ifdef D" => self.push(self.d_defined),
            "#ifndef D" => self.push(!self.d_defined),
            "#ifdef U" => self.push(self.u_defined),
            "#ifndef U" => self.push(!self.u_defined),
            "#elif 0" => return self.switch(false, false),
            "#elif 1" => return self.switch(true, false),
            "#else" => return self.switch(true, true),
            "#endif" => {
                return match self.stack.pop() {
                    Some(_) => StepResult::Ok,
                    None => StepResult::ErrEndif,
                };
            }
            "T" => return StepResult::Text(self.active()),
            "#define U 1" => {
                if self.active() {
                    self.u_defined = true;
                }
            }
            "#undef D" => {
                if self.active() {
                    self.d_defined = false;
                }
            }
            _ => unreachable!(),
        }
        StepResult::Ok
    }
}

// -------------------------------------------------------------------------------------------
// running the real code

pub struct RealRun {
    /// state before each directive line and at the very end (hook H3)
    pub trace: Vec<(Vec<u8>, Vec<String>)>,
    pub result: Result<Vec<usize>, PreprocessError>,
}

/// Render a history as source text. Text lines are `t<K>;` with K = line index.
pub fn render(history: &[u8]) -> String {
    let mut s = String::from("#define D 1\n");
    for (i, l) in history.iter().enumerate() {
        let letter = LETTERS[*l as usize];
        if letter == "T" {
            s.push_str(&format!("t{};\n", i));
        } else {
            s.push_str(letter);
            s.push('\n');
        }
    }
    s
}

pub fn run_real_text(text: &str) -> Result<RealRun, PanicInfo> {
    guard(|| {
        let mut sm = SourceManager::new();
        let mut files = [("main.rssl", text)];
        rssl::preprocess::verif::start_trace();
        let r = rssl::preprocess::preprocess("main.rssl", &mut sm, &mut files, &[]);
        let trace = rssl::preprocess::verif::take_trace();
        let result = r.map(|toks| {
            let out = rssl::preprocess::unlex(&toks, &sm);
            // surviving text lines: t<K>;
            let mut v = Vec::new();
            for line in out.lines() {
                let line = line.trim();
                if let Some(rest) = line.strip_prefix('t') {
                    if let Some(num) = rest.strip_suffix(';') {
                        if let Ok(k) = num.parse::<usize>() {
                            v.push(k);
                        }
                    }
                }
            }
            v
        });
        RealRun { trace, result }
    })
}

fn hist_str(h: &[u8]) -> String {
    h.iter().map(|l| LETTERS[*l as usize]).collect::<Vec<_>>().join(" ⏎ ")
}

fn viol(sig: &str, detail: String, history: &[u8], closing: usize) -> Violation {
    let mut replay = String::from("kind: history\n");
    replay.push_str(&format!("closing_endifs: {}\n", closing));
    for l in history {
        replay.push_str(LETTERS[*l as usize]);
        replay.push('\n');
    }
    Violation { signature: sig.to_string(), detail, replay }
}

#[derive(Clone, PartialEq, Eq, Hash, Debug)]
pub struct Key {
    chain: Vec<u8>,
    d: bool,
    u: bool,
    model: CondModel,
}

pub enum Checked {
    /// the history ends in a state that can be extended
    Live(Key),
    /// history ends in an error / unspecified region: not extended
    Dead,
    Violated,
}

/// Check one history end to end (with `#endif` closing suffix) against the model; returns the key of
/// the state reached after the last letter of the history proper.
pub fn check_history(history: &[u8], acc: &mut Acc, prefix_states: Option<&[Key]>) -> Checked {
    acc.evals += 1;
    // model run over the history proper
    let mut model = CondModel::new();
    let mut expected_text: Vec<usize> = Vec::new();
    let mut expected_err: Option<StepResult> = None;
    let mut unspecified = false;
    let mut model_states: Vec<CondModel> = Vec::new();
    let mut model_active_before: Vec<bool> = Vec::new();
    for (i, l) in history.iter().enumerate() {
        model_active_before.push(model.active());
        match model.step(LETTERS[*l as usize]) {
            StepResult::Ok => {}
            StepResult::Text(true) => expected_text.push(i),
            StepResult::Text(false) => {}
            StepResult::Unspecified => {
                unspecified = true;
                break;
            }
            e => {
                expected_err = Some(e);
                break;
            }
        }
        model_states.push(model.clone());
    }
    let depth = model.stack.len();
    // closing suffix: an #endif per open frame, each followed by a text line
    let mut full: Vec<u8> = history.to_vec();
    let endif = LETTERS.iter().position(|l| *l == "#endif").unwrap() as u8;
    let tl = LETTERS.iter().position(|l| *l == "T").unwrap() as u8;
    let mut closing = 0;
    if expected_err.is_none() && !unspecified {
        let mut m2 = model.clone();
        for _ in 0..depth {
            full.push(endif);
            m2.step("#endif");
            full.push(tl);
            if m2.active() {
                expected_text.push(full.len() - 1);
            }
            closing += 1;
        }
    }
    let text = render(&full);
    let run = match run_real_text(&text) {
        Ok(r) => r,
        Err(p) => {
            acc.violation(viol(&p.signature(), format!("preprocess panicked on [{}]: {}", hist_str(history), p.message), history, closing));
            return Checked::Violated;
        }
    };
    if unspecified {
        acc.count("histories_unspecified_by_C");
        return Checked::Dead;
    }
    if let Some(e) = expected_err {
        let ok = match (&e, &run.result) {
            (StepResult::ErrElse, Err(PreprocessError::ElseNotMatched)) => true,
            (StepResult::ErrEndif, Err(PreprocessError::EndIfNotMatched)) => true,
            _ => false,
        };
        if !ok {
            acc.violation(viol(
                "cond|unmatched-directive-not-rejected",
                format!("history [{}]: model expects {:?}, real result {:?}", hist_str(history), e, run.result.as_ref().map_err(|e| format!("{:?}", e))),
                history,
                closing,
            ));
            return Checked::Violated;
        }
        acc.count("histories_rejected_as_expected");
        acc.outcome(&format!("{:?}", e));
        return Checked::Dead;
    }
    // surviving text
    match &run.result {
        Ok(got) => {
            if *got != expected_text {
                acc.violation(viol(
                    "cond|wrong-branch-selected",
                    format!("history [{}] (+{} closing #endif): surviving text lines {:?}, C semantics select {:?}", hist_str(history), closing, got, expected_text),
                    history,
                    closing,
                ));
                return Checked::Violated;
            }
        }
        Err(e) => {
            acc.violation(viol(
                "cond|well-formed-rejected",
                format!("history [{}] (+{} closing #endif) is well formed but rejected: {:?}", hist_str(history), closing, e),
                history,
                closing,
            ));
            return Checked::Violated;
        }
    }
    // per-step states from the hook: snapshot k is taken before directive k (text lines are not directives,
    // the leading `#define D 1` is directive 0) and one more at the end
    let directive_lines: Vec<usize> = full.iter().enumerate().filter(|(_, l)| LETTERS[**l as usize] != "T").map(|(i, _)| i).collect();
    if run.trace.len() != directive_lines.len() + 2 {
        acc.violation(viol(
            "machinery|trace-length",
            format!("hook trace has {} snapshots for {} directives", run.trace.len(), directive_lines.len() + 1),
            history,
            closing,
        ));
        return Checked::Violated;
    }
    // state after history line i = snapshot before the next directive after i (or the final one)
    let state_after = |i: usize| -> &(Vec<u8>, Vec<String>) {
        let next = directive_lines.iter().position(|d| *d > i);
        match next {
            Some(k) => &run.trace[k + 1],
            None => run.trace.last().unwrap(),
        }
    };
    let mut last_key = None;
    for i in 0..history.len() {
        let (chain, names) = state_after(i);
        let m = &model_states[i];
        let real_active = chain.iter().all(|s| *s == 0);
        let d = names.iter().any(|n| n == "D");
        let u = names.iter().any(|n| n == "U");
        if real_active != m.active() || chain.len() != m.stack.len() {
            acc.violation(viol(
                "cond|chain-state-disagrees-with-model",
                format!("after line {} of [{}]: real chain {:?} (active={}), model {:?} (active={})", i, hist_str(history), chain, real_active, m.stack, m.active()),
                history,
                closing,
            ));
            return Checked::Violated;
        }
        if d != m.d_defined || u != m.u_defined {
            acc.violation(viol(
                "cond|define-in-skipped-branch",
                format!("after line {} of [{}]: real defined D={} U={}, model D={} U={}", i, hist_str(history), d, u, m.d_defined, m.u_defined),
                history,
                closing,
            ));
            return Checked::Violated;
        }
        let key = Key { chain: chain.clone(), d, u, model: m.clone() };
        // prefix determinism: replaying a prefix must reproduce the states stored for it
        if let Some(ps) = prefix_states {
            if i < ps.len() && ps[i] != key {
                acc.violation(viol(
                    "machinery|prefix-divergence",
                    format!("state after line {} of [{}] differs from the state recorded when the prefix was explored", i, hist_str(history)),
                    history,
                    closing,
                ));
                return Checked::Violated;
            }
        }
        last_key = Some(key);
    }
    // unterminated chain must be rejected
    if depth > 0 {
        let open = render(history);
        match run_real_text(&open) {
            Ok(r) => {
                if !matches!(r.result, Err(PreprocessError::ConditionChainNotFinished)) {
                    acc.violation(viol(
                        "cond|unterminated-chain-accepted",
                        format!("history [{}] leaves {} #if open but result is {:?}", hist_str(history), depth, r.result.as_ref().map_err(|e| format!("{:?}", e))),
                        history,
                        0,
                    ));
                    return Checked::Violated;
                }
            }
            Err(p) => {
                acc.violation(viol(&p.signature(), format!("preprocess panicked on unterminated [{}]: {}", hist_str(history), p.message), history, 0));
                return Checked::Violated;
            }
        }
    }
    match last_key {
        Some(k) => Checked::Live(k),
        None => Checked::Live(Key { chain: vec![], d: true, u: false, model: CondModel::new() }),
    }
}

// -------------------------------------------------------------------------------------------
// condition expressions

#[derive(Clone, Copy, PartialEq, Eq, Debug)]
enum CTok {
    Num(u64),
    Or,
    And,
    Eq,
    Ne,
    Lt,
    Le,
    Gt,
    Ge,
    Not,
    LP,
    RP,
}

/// reference: precedence climbing over u64,  ! > relational > equality > && > ||
fn ref_eval(toks: &[CTok]) -> Option<u64> {
    fn p_or(t: &[CTok], p: &mut usize) -> Option<u64> {
        let mut l = p_and(t, p)?;
        while t.get(*p) == Some(&CTok::Or) {
            *p += 1;
            let r = p_and(t, p)?;
            l = (l != 0 || r != 0) as u64;
        }
        Some(l)
    }
    fn p_and(t: &[CTok], p: &mut usize) -> Option<u64> {
        let mut l = p_eq(t, p)?;
        while t.get(*p) == Some(&CTok::And) {
            *p += 1;
            let r = p_eq(t, p)?;
            l = (l != 0 && r != 0) as u64;
        }
        Some(l)
    }
    fn p_eq(t: &[CTok], p: &mut usize) -> Option<u64> {
        let mut l = p_rel(t, p)?;
        loop {
            match t.get(*p) {
                Some(CTok::Eq) => {
                    *p += 1;
                    let r = p_rel(t, p)?;
                    l = (l == r) as u64;
                }
                Some(CTok::Ne) => {
                    *p += 1;
                    let r = p_rel(t, p)?;
                    l = (l != r) as u64;
                }
                _ => return Some(l),
            }
        }
    }
    fn p_rel(t: &[CTok], p: &mut usize) -> Option<u64> {
        let mut l = p_un(t, p)?;
        loop {
            let op = match t.get(*p) {
                Some(o @ (CTok::Lt | CTok::Le | CTok::Gt | CTok::Ge)) => *o,
                _ => return Some(l),
            };
            *p += 1;
            let r = p_un(t, p)?;
            l = match op {
                CTok::Lt => l < r,
                CTok::Le => l <= r,
                CTok::Gt => l > r,
                _ => l >= r,
            } as u64;
        }
    }
    fn p_un(t: &[CTok], p: &mut usize) -> Option<u64> {
        match t.get(*p) {
            Some(CTok::Not) => {
                *p += 1;
                let v = p_un(t, p)?;
                Some((v == 0) as u64)
            }
            Some(CTok::Num(v)) => {
                *p += 1;
                Some(*v)
            }
            Some(CTok::LP) => {
                *p += 1;
                let v = p_or(t, p)?;
                if t.get(*p) == Some(&CTok::RP) {
                    *p += 1;
                    Some(v)
                } else {
                    None
                }
            }
            _ => None,
        }
    }
    let mut p = 0;
    let v = p_or(toks, &mut p)?;
    if p == toks.len() { Some(v) } else { None }
}

/// operands: (spelling, value under the defines `#define M 2`, U undefined)
const OPERANDS: &[(&str, u64)] = &[
    ("0", 0),
    ("1", 1),
    ("2", 2),
    ("M", 2),
    ("U", 0),
    ("defined(M)", 1),
    ("defined U", 0),
    ("18446744073709551615", u64::MAX),
    ("true", 1),
    ("false", 0),
    ("3u", 3),
    ("defined(U)", 0),
];
const SMALL_OPERANDS: &[(&str, u64)] = &[("0", 0), ("1", 1), ("2", 2), ("U", 0)];
const OPS: &[(&str, CTok)] = &[("||", CTok::Or), ("&&", CTok::And), ("==", CTok::Eq), ("!=", CTok::Ne), ("<", CTok::Lt), ("<=", CTok::Le), (">", CTok::Gt), (">=", CTok::Ge)];
const PREFIXES: &[(&str, u32)] = &[("", 0), ("!", 1), ("!!", 2)];

struct CondCase {
    text: String,
    toks: Vec<CTok>,
    /// the same condition under an empty macro table (M undefined as well); None when no operand depends on the table
    toks_empty: Option<Vec<CTok>>,
}

/// operand (op operand){n}, optional prefixes, every contiguous parenthesised group
fn build_cond(operands: &[(&str, u64)], ids: &[u64], n_ops: usize, with_prefix: bool, group: Option<(usize, usize)>) -> CondCase {
    // ids layout: [operand0, (prefix0)?, op1, operand1, (prefix1)? ...]
    let mut text = String::new();
    let mut toks = Vec::new();
    let mut vals_empty: Vec<(usize, u64)> = Vec::new();
    let mut table_dependent = false;
    let mut k = 0;
    for i in 0..=n_ops {
        if i > 0 {
            let (s, t) = OPS[ids[k] as usize];
            k += 1;
            text.push(' ');
            text.push_str(s);
            text.push(' ');
            toks.push(t);
        }
        if let Some((a, _)) = group {
            if a == i {
                text.push('(');
                toks.push(CTok::LP);
            }
        }
        if with_prefix {
            let (s, n) = PREFIXES[ids[k] as usize];
            k += 1;
            text.push_str(s);
            for _ in 0..n {
                toks.push(CTok::Not);
            }
        }
        let (s, v) = operands[ids[k] as usize];
        k += 1;
        text.push_str(s);
        if s.contains("defined") || s == "M" {
            table_dependent = true;
        }
        vals_empty.push((toks.len(), if s == "M" || s == "defined(M)" { 0 } else { v }));
        toks.push(CTok::Num(v));
        if let Some((_, b)) = group {
            if b == i {
                text.push(')');
                toks.push(CTok::RP);
            }
        }
    }
    let toks_empty = if table_dependent {
        let mut t = toks.clone();
        for (i, v) in vals_empty {
            t[i] = CTok::Num(v);
        }
        Some(t)
    } else {
        None
    };
    CondCase { text, toks, toks_empty }
}

fn check_cond(c: &CondCase, acc: &mut Acc) {
    check_cond_env(c, &c.toks, "#define M 2", "kind: cond", acc);
    if let Some(t) = &c.toks_empty {
        // nothing at all is defined: the macro table is empty when the condition is evaluated
        check_cond_env(c, t, "", "kind: cond-empty-table", acc);
    }
}

fn check_cond_env(c: &CondCase, toks: &[CTok], first_line: &str, kind: &str, acc: &mut Acc) {
    acc.evals += 1;
    let want = match ref_eval(toks) {
        Some(v) => v != 0,
        None => {
            acc.count("machinery_reference_parse_failed");
            return;
        }
    };
    let src = format!("{}\n#if {}\nt1;\n#else\nt3;\n#endif\n", first_line, c.text);
    let replay = format!("{}\n{}", kind, c.text);
    let shown = if first_line.is_empty() { format!("#if {} (empty macro table)", c.text) } else { format!("#if {}", c.text) };
    match run_real_text_nodefine(&src) {
        Err(p) => acc.violation(Violation { signature: p.signature(), detail: format!("{} panicked: {}", shown, p.message), replay }),
        Ok(Err(e)) => acc.violation(Violation {
            signature: "condexpr|well-formed-rejected".into(),
            detail: format!("{} rejected: {:?}", shown, e),
            replay,
        }),
        Ok(Ok(lines)) => {
            let got = lines == vec![1];
            let got_else = lines == vec![3];
            if !(got || got_else) || got != want {
                acc.violation(Violation {
                    signature: "condexpr|wrong-value".into(),
                    detail: format!("{} selected lines {:?}; reference value over u64 is {}", shown, lines, want),
                    replay,
                });
            } else {
                acc.outcome(&(first_line.is_empty(), toks.iter().map(|t| format!("{:?}", t)).collect::<Vec<_>>().join(" "), want));
            }
        }
    }
}

fn run_real_text_nodefine(text: &str) -> Result<Result<Vec<usize>, PreprocessError>, PanicInfo> {
    run_real_text(text).map(|r| r.result)
}


// -------------------------------------------------------------------------------------------
// Part 3c: the `defined` operator under every *kind* of macro definition of the queried name
// (undefined / object-like / function-like / removed again / defined only in a skipped branch), in every
// spelling of the operator, in `#if`, `#elif` (evaluated) and `#elif` (not evaluated) position, alone and
// combined with a second name through every binary operator; plus `#ifdef` / `#ifndef` under the same kinds.

/// (name of the kind, class used in signatures, lines that set the kind up for the name `@`, is `@` defined afterwards)
const DEF_KINDS: &[(&str, &str, &str, bool)] = &[
    ("undefined", "undefined", "", false),
    ("object-empty", "object", "#define @\n", true),
    ("object-0", "object", "#define @ 0\n", true),
    ("object-1", "object", "#define @ 1\n", true),
    ("object-paren-body", "object", "#define @ (1)\n", true),
    ("function-1-param", "function", "#define @(x) x\n", true),
    ("function-0-params", "function", "#define @() 0\n", true),
    ("function-2-params", "function", "#define @(a, b) a\n", true),
    ("function-empty-body", "function", "#define @(a)\n", true),
    ("object-undefined-again", "removed", "#define @ 1\n#undef @\n", false),
    ("function-undefined-again", "removed", "#define @(x) x\n#undef @\n", false),
    ("object-in-skipped-branch", "removed", "#if 0\n#define @ 1\n#endif\n", false),
    ("function-in-skipped-branch", "removed", "#if 0\n#define @(x) x\n#endif\n", false),
    ("function-in-selected-branch", "function", "#if 1\n#define @(x) x\n#endif\n", true),
    ("object-then-function", "function", "#define @ 1\n#undef @\n#define @(x) x\n", true),
    ("function-then-object", "object", "#define @(x) x\n#undef @\n#define @ 1\n", true),
];
/// kinds of the second name (indices into DEF_KINDS)
const DEF_KINDS_Q: &[usize] = &[0, 3, 1, 5, 6, 10];
const DEF_FORMS: &[&str] = &["defined(@)", "defined @", "defined ( @ )"];
const DEF_PREFIX: &[&str] = &["", "!"];
/// position of the condition: `#if C`, `#if 0 / #elif C` (evaluated), `#if 1 / #elif C` (never selected)
const DEF_POSITIONS: &[&str] = &["if", "elif-evaluated", "elif-after-taken"];
/// number of condition shapes: 12 with one name, 6*8*6 with two names, 2 (#ifdef/#ifndef)
const DEF_SINGLE: u64 = 12;
const DEF_BINARY: u64 = 6 * 8 * 6;
const DEF_SHAPES: u64 = DEF_SINGLE + DEF_BINARY + 2;

fn defkind_total() -> u64 {
    DEF_KINDS.len() as u64 * DEF_KINDS_Q.len() as u64 * DEF_POSITIONS.len() as u64 * DEF_SHAPES
}

/// One case of the space, simplest first: shape is the fastest digit group only after kinds, i.e. the index is
/// (shape, position, kind of Q, kind of P) with the kind of P varying fastest.
fn check_defkind(idx: u64, acc: &mut Acc) {
    let mut d = Vec::new();
    let radices = [DEF_KINDS.len() as u64, DEF_KINDS_Q.len() as u64, DEF_POSITIONS.len() as u64, DEF_SHAPES];
    crate::util::decode(idx, &radices, &mut d);
    let kp = &DEF_KINDS[d[0] as usize];
    let kq = &DEF_KINDS[DEF_KINDS_Q[d[1] as usize]];
    let pos = DEF_POSITIONS[d[2] as usize];
    let shape = d[3];
    let atom = |code: u64, name: &str, defd: bool| -> (String, Vec<CTok>) {
        // code in 0..6 : prefix * 3 + form
        let pre = DEF_PREFIX[(code / 3) as usize];
        let form = DEF_FORMS[(code % 3) as usize].replace('@', name);
        let mut t = Vec::new();
        if !pre.is_empty() {
            t.push(CTok::Not);
        }
        t.push(CTok::Num(defd as u64));
        (format!("{}{}", pre, form), t)
    };
    let mut uses_q = false;
    let mut uses_p = true;
    // directive line carrying the condition, reference value
    let (directive, cond_text, want): (&str, String, bool) = if shape < DEF_SINGLE {
        let on_q = shape >= 6;
        let (txt, toks) = if on_q { atom(shape - 6, "Q", kq.3) } else { atom(shape, "P", kp.3) };
        uses_q = on_q;
        uses_p = !on_q;
        ("if", txt, ref_eval(&toks).unwrap() != 0)
    } else if shape < DEF_SINGLE + DEF_BINARY {
        let s = shape - DEF_SINGLE;
        let (l, op, r) = (s % 6, (s / 6) % 8, s / 48);
        let (lt, mut toks) = atom(l, "P", kp.3);
        let (rt, rtoks) = atom(r, "Q", kq.3);
        toks.push(OPS[op as usize].1);
        toks.extend(rtoks);
        uses_q = true;
        ("if", format!("{} {} {}", lt, OPS[op as usize].0, rt), ref_eval(&toks).unwrap() != 0)
    } else if shape == DEF_SINGLE + DEF_BINARY {
        ("ifdef", "P".to_string(), kp.3)
    } else {
        ("ifndef", "P".to_string(), !kp.3)
    };
    // #ifdef / #ifndef have no #elif spelling: only the `if` position
    if directive != "if" && pos != "if" {
        return;
    }
    acc.evals += 1;
    let mut src = String::new();
    src.push_str(&kp.2.replace('@', "P"));
    src.push_str(&kq.2.replace('@', "Q"));
    let expected: Vec<usize> = match pos {
        "if" => {
            src.push_str(&format!("#{} {}\nt1;\n#else\nt3;\n#endif\n", directive, cond_text));
            vec![if want { 1 } else { 3 }]
        }
        "elif-evaluated" => {
            src.push_str(&format!("#if 0\nt5;\n#elif {}\nt1;\n#else\nt3;\n#endif\n", cond_text));
            vec![if want { 1 } else { 3 }]
        }
        _ => {
            src.push_str(&format!("#if 1\nt5;\n#elif {}\nt1;\n#else\nt3;\n#endif\n", cond_text));
            vec![5]
        }
    };
    src.push_str("t7;\n");
    let mut expected = expected;
    expected.push(7);
    let mut classes: Vec<&str> = Vec::new();
    if uses_p {
        classes.push(kp.1);
    }
    if uses_q {
        classes.push(kq.1);
    }
    classes.sort();
    classes.dedup();
    let class = classes.join("+");
    let op_name = if directive == "if" { "defined" } else { directive };
    let shown = format!("P: {}, Q: {}; #{} {} ({})", kp.0, kq.0, if pos == "if" { directive } else { "elif" }, cond_text, pos);
    let replay = format!("kind: defkind\nidx: {}\n{}", idx, src);
    match run_real_text_nodefine(&src) {
        Err(p) => acc.violation(Violation { signature: p.signature(), detail: format!("{} panicked: {}", shown, p.message), replay }),
        Ok(Err(e)) => acc.violation(Violation {
            signature: format!("condexpr|{}|well-formed-rejected|{}", op_name, class),
            detail: format!("{} rejected: {:?}\n{}", shown, e, src),
            replay,
        }),
        Ok(Ok(lines)) => {
            if lines != expected {
                acc.violation(Violation {
                    signature: format!("condexpr|{}|wrong-value|{}", op_name, class),
                    detail: format!("{}: surviving text lines {:?}, C semantics select {:?}\n{}", shown, lines, expected, src),
                    replay,
                });
            } else {
                acc.outcome(&("defkind", kp.0, if uses_q { kq.0 } else { "" }, pos, directive, cond_text, lines));
            }
        }
    }
}

// -------------------------------------------------------------------------------------------
// Part 4: #include / #pragma / unknown or malformed directives inside unselected branches have no effect

const CTX_LETTERS: &[&str] = &["#if 0", "#if 1", "#ifdef D", "#ifndef D", "#elif 0", "#elif 1", "#else"];

/// every well-formed conditional context (no #endif) of ≤ 3 lines, with the model's verdict whether text after it is active
fn contexts() -> Vec<(Vec<&'static str>, bool, usize)> {
    let mut out = vec![(vec![], true, 0usize)];
    let n = CTX_LETTERS.len();
    for len in 1..=3usize {
        for idx in 0..n.pow(len as u32) {
            let mut k = idx;
            let mut lines = Vec::new();
            let mut m = CondModel::new();
            let mut ok = true;
            for _ in 0..len {
                let l = CTX_LETTERS[k % n];
                k /= n;
                if m.step(l) != StepResult::Ok {
                    ok = false;
                    break;
                }
                lines.push(l);
            }
            if ok {
                out.push((lines, m.active(), m.stack.len()));
            }
        }
    }
    out
}

struct Effect {
    name: &'static str,
    /// directive placed inside the context (in main or in the header)
    line: &'static str,
    in_header: bool,
}

const EFFECTS: &[Effect] = &[
    Effect { name: "include", line: "#include \"inc\"", in_header: false },
    Effect { name: "include-missing", line: "#include \"missing\"", in_header: false },
    Effect { name: "pragma-once", line: "#pragma once", in_header: true },
    Effect { name: "pragma-unknown", line: "#pragma foo", in_header: false },
    Effect { name: "unknown-directive", line: "#foo bar", in_header: false },
    Effect { name: "malformed-define", line: "#define 1", in_header: false },
    Effect { name: "malformed-undef", line: "#undef 1 2", in_header: false },
    Effect { name: "malformed-include", line: "#include foo", in_header: false },
    // text lines that cannot be macro-expanded: in an unselected branch they are never expanded
    Effect { name: "text-macro-wrong-arity", line: "FN(1, 2);", in_header: false },
    Effect { name: "text-macro-no-arguments", line: "FN();FN(,);", in_header: false },
    Effect { name: "text-macro-unterminated-arguments", line: "FN(1,", in_header: false },
    Effect { name: "text-macro-bad-paste", line: "PASTE(;) PASTE(.);", in_header: false },
    Effect { name: "text-macro-nested-wrong-arity", line: "FN(FN(1, 2));", in_header: false },
];

fn check_effect(ctx_lines: &[&str], active: bool, depth: usize, e: &Effect, acc: &mut Acc) {
    acc.evals += 1;
    let mut body = String::new();
    for l in ctx_lines {
        body.push_str(l);
        body.push('\n');
    }
    body.push_str(e.line);
    body.push('\n');
    for _ in 0..depth {
        body.push_str("#endif\n");
    }
    let (main, header) = if e.in_header {
        ("#define D 1\n#include \"h\"\n#include \"h\"\nm;\n".to_string(), format!("{}h;\n", body))
    } else {
        (format!("#define D 1\n#define FN(x) [x]\n#define PASTE(a) a ## +\n{}m;\n", body), String::new())
    };
    let replay = format!("kind: effect\n{}\n{}", e.name, ctx_lines.join("\n"));
    let r = guard(|| {
        let mut sm = SourceManager::new();
        let mut files = [("main.rssl", main.as_str()), ("inc", "i;\n"), ("h", header.as_str())];
        let r = rssl::preprocess::preprocess("main.rssl", &mut sm, &mut files, &[]);
        r.map(|t| rssl::preprocess::unlex(&t, &sm))
    });
    let ctx = ctx_lines.join(" / ");
    match r {
        Err(p) => acc.violation(Violation { signature: p.signature(), detail: format!("[{}] {} panicked: {}", ctx, e.line, p.message), replay }),
        Ok(res) => {
            let verdict: Result<(), String> = match (e.name, &res) {
                (n, Ok(out)) if n.starts_with("text-") => {
                    // skipped text contributes nothing; selected text is outside this part (C12 compares expansions)
                    let only_m = out.lines().map(|l| l.trim()).filter(|l| !l.is_empty()).all(|l| l == "m;");
                    if active || only_m { Ok(()) } else { Err(format!("text of an unselected branch reaches the output: {:?}", out)) }
                }
                (n, Err(err)) if n.starts_with("text-") => {
                    if active { Ok(()) } else { Err(format!("rejected although the text is in an unselected branch: {:?}", err)) }
                }
                ("include", Ok(out)) => {
                    let has = out.lines().any(|l| l.trim() == "i;");
                    if has == active { Ok(()) } else { Err(format!("included text present={} but branch active={}", has, active)) }
                }
                ("pragma-once", Ok(out)) => {
                    let n = out.lines().filter(|l| l.trim() == "h;").count();
                    let want = if active { 1 } else { 2 };
                    if n == want { Ok(()) } else { Err(format!("header body appears {} times, expected {} (#pragma once in an {} branch)", n, want, if active { "active" } else { "unselected" })) }
                }
                (_, Ok(_)) if e.name != "include" && e.name != "pragma-once" => {
                    if active { Err("ill-formed directive in an active branch was accepted".to_string()) } else { Ok(()) }
                }
                (_, Err(err)) => {
                    if active && e.name != "include" && e.name != "pragma-once" { Ok(()) } else { Err(format!("rejected although the directive is in an unselected branch (or is well formed): {:?}", err)) }
                }
                _ => Ok(()),
            };
            match verdict {
                Ok(()) => acc.outcome(&(e.name, ctx_lines.to_vec(), active)),
                Err(why) => acc.violation(Violation {
                    signature: format!("cond|directive-in-unselected-branch-has-effect|{}", e.name),
                    detail: format!("context [{}] (active={}), directive `{}`: {}", ctx, active, e.line, why),
                    replay,
                }),
            }
        }
    }
}

pub fn run(ctx: &Ctx) -> i32 {
    let mut rep = Report::new("model_checking");
    rep.rule = "E2: BFS over directive histories with the real preprocessor as transition function; a state is (real ConditionChain, real macro table restricted to D/U, reference-model state); non-trivial/distinct = distinct canonical states plus distinct condition token strings with their value".into();
    let nl = LETTERS.len() as u8;

    // ---- Part 1: BFS
    let max_depth = ctx.pick(10usize, 13usize);
    let state_cap = ctx.pick(400_000usize, 6_000_000usize);
    let mut seen: HashMap<Key, u32> = HashMap::new(); // key -> number of distinct histories that reached it
    let mut frontier: Vec<(Vec<u8>, Vec<Key>)> = vec![(vec![], vec![])];
    let root = Key { chain: vec![], d: true, u: false, model: CondModel::new() };
    seen.insert(root, 1);
    let mut transitions: u64 = 0;
    let mut merged: u64 = 0;
    let mut depth_reached = 0;
    let mut bfs_complete = true;
    let mut sample_traces: Vec<Json> = Vec::new();
    for depth in 1..=max_depth {
        if frontier.is_empty() {
            break;
        }
        if ctx.out_of_time() || seen.len() > state_cap {
            bfs_complete = false;
            rep.caps_hit.push(format!("BFS stopped before depth {} (states={}, cap={} or time budget)", depth, seen.len(), state_cap));
            break;
        }
        let fr = &frontier;
        let total = fr.len() as u64 * nl as u64;
        let results = std::sync::Mutex::new(Vec::<(Vec<u8>, Vec<Key>, Key)>::new());
        let r = run_par(ctx, total, 256, |idx, acc| {
            let (h, ks) = &fr[(idx / nl as u64) as usize];
            let a = (idx % nl as u64) as u8;
            let mut h2 = h.clone();
            h2.push(a);
            match check_history(&h2, acc, Some(ks)) {
                Checked::Live(k) => {
                    let mut ks2 = ks.clone();
                    ks2.push(k.clone());
                    results.lock().unwrap().push((h2, ks2, k));
                }
                Checked::Dead => {}
                Checked::Violated => {}
            }
        });
        if !r.completed {
            bfs_complete = false;
        }
        transitions += r.acc.evals;
        rep.absorb(&format!("bfs_depth_{}", depth), r);
        let mut res = results.into_inner().unwrap();
        res.sort_by(|a, b| a.0.cmp(&b.0)); // deterministic representative = lexicographically first history
        let mut next = Vec::new();
        for (h, ks, k) in res {
            match seen.get_mut(&k) {
                Some(n) => {
                    *n += 1;
                    merged += 1;
                }
                None => {
                    seen.insert(k, 1);
                    if sample_traces.len() < 3 && depth >= 4 && h.iter().filter(|l| **l <= 5).count() >= 2 {
                        sample_traces.push(obj(vec![("space", "bfs-history".into()), ("history", hist_str(&h).into())]));
                    }
                    next.push((h, ks));
                }
            }
        }
        depth_reached = depth;
        frontier = next;
    }
    let states = seen.len() as u64;
    let multi = seen.values().filter(|n| **n >= 2).count() as u64;
    for k in seen.keys() {
        rep.acc.nontrivial.insert(hash_of(k));
    }
    rep.cov("states", Json::Int(states as i64));
    rep.cov("transitions", Json::Int(transitions as i64));
    rep.cov("traces_validated_against_impl", Json::Int(transitions as i64));
    rep.cov("bfs_max_depth", Json::Int(depth_reached as i64));
    rep.cov("bfs_complete_to_depth", Json::Bool(bfs_complete));
    rep.cov("states_reached_by_2_or_more_histories", Json::Int(multi as i64));
    rep.cov("merged_transitions", Json::Int(merged as i64));
    if !bfs_complete {
        rep.exhaustive = false;
    }
    for s in sample_traces {
        rep.acc.samples.push((0, s));
    }

    // ---- Part 2: all sequences up to length L end to end
    let l_max = ctx.pick(5u32, 6u32);
    for len in 1..=l_max {
        let total = (nl as u64).pow(len);
        let r = run_par(ctx, total, 1024, |idx, acc| {
            let mut h = Vec::with_capacity(len as usize);
            let mut x = idx;
            for _ in 0..len {
                h.push((x % nl as u64) as u8);
                x /= nl as u64;
            }
            let _ = check_history(&h, acc, None);
            if idx % 400_009 == 7 {
                acc.sample(obj(vec![("space", "all-sequences".into()), ("history", hist_str(&h).into())]));
            }
        });
        rep.absorb(&format!("all_sequences_len_{}", len), r);
    }

    // ---- Part 3: condition values
    let mut cases: Vec<CondCase> = Vec::new();
    let no = OPERANDS.len() as u64;
    let np = PREFIXES.len() as u64;
    let nop = OPS.len() as u64;
    // n_ops 0..2 with prefixes over the full operand set, every group
    for n_ops in 0..=2usize {
        let mut radices = Vec::new();
        for i in 0..=n_ops {
            if i > 0 {
                radices.push(nop);
            }
            radices.push(np);
            radices.push(no);
        }
        let total: u64 = radices.iter().product();
        let mut groups: Vec<Option<(usize, usize)>> = vec![None];
        for a in 0..=n_ops {
            for b in a..=n_ops {
                groups.push(Some((a, b)));
            }
        }
        let thin = if ctx.quick() && n_ops == 2 { 7 } else { 1 };
        let mut d = Vec::new();
        let mut idx = 0;
        while idx < total {
            crate::util::decode(idx, &radices, &mut d);
            for g in &groups {
                cases.push(build_cond(OPERANDS, &d, n_ops, true, *g));
            }
            idx += thin;
        }
    }
    // n_ops 3 over the small operand set, no prefixes, every group
    {
        let n_ops = 3usize;
        let ns = SMALL_OPERANDS.len() as u64;
        let radices = vec![ns, nop, ns, nop, ns, nop, ns];
        let total: u64 = radices.iter().product();
        let mut groups: Vec<Option<(usize, usize)>> = vec![None];
        for a in 0..=n_ops {
            for b in a..=n_ops {
                if (a, b) != (0, n_ops) {
                    groups.push(Some((a, b)));
                }
            }
        }
        let thin = if ctx.quick() { 5 } else { 1 };
        let mut d = Vec::new();
        let mut idx = 0;
        while idx < total {
            crate::util::decode(idx, &radices, &mut d);
            for g in &groups {
                cases.push(build_cond(SMALL_OPERANDS, &d, n_ops, false, *g));
            }
            idx += thin;
        }
    }
    if ctx.quick() {
        rep.caps_hit.push("quick tier: 2-operator conditions use every 7th operand/prefix assignment, 3-operator conditions every 5th (thorough enumerates all)".into());
    }
    let r = run_par(ctx, cases.len() as u64, 512, |idx, acc| {
        let c = &cases[idx as usize];
        check_cond(c, acc);
        if idx % 250_007 == 3 {
            acc.sample(obj(vec![("space", "condition".into()), ("text", c.text.as_str().into())]));
        }
    });
    rep.absorb("condition_strings", r);

    // ---- Part 3b: trivia inside the condition (spaces, tabs, comments, line splices at every token boundary)
    {
        const TRIVIA: &[&str] = &["", "  ", "\t", "/*c*/", " /* c */ ", "\\\n", " \\\n ", "\\\r\n"];
        let mut base: Vec<CondCase> = Vec::new();
        let mut d = Vec::new();
        // every condition with one and two operators over the small operands, with and without a prefix, plus groups
        for (n_ops, with_prefix) in [(1usize, false), (1, true), (2, false)] {
            let mut radices: Vec<u64> = Vec::new();
            for i in 0..=n_ops {
                if i > 0 {
                    radices.push(OPS.len() as u64);
                }
                if with_prefix {
                    radices.push(PREFIXES.len() as u64);
                }
                radices.push(OPERANDS.len() as u64);
            }
            let total: u64 = radices.iter().product();
            let stride = if n_ops == 2 { ctx.pick(37u64, 5u64) } else { 1 };
            let mut idx = 0;
            while idx < total {
                crate::util::decode(idx, &radices, &mut d);
                base.push(build_cond(OPERANDS, &d, n_ops, with_prefix, None));
                if n_ops == 2 {
                    base.push(build_cond(OPERANDS, &d, n_ops, with_prefix, Some((1, 2))));
                }
                idx += stride;
            }
        }
        // boundaries: the single spaces of the text and the positions next to parentheses and `!`
        let nt = TRIVIA.len() as u64;
        let r = run_par(ctx, base.len() as u64 * nt, 256, |idx, acc| {
            let c = &base[(idx / nt) as usize];
            let t = TRIVIA[(idx % nt) as usize];
            let bytes = c.text.as_bytes();
            // token boundaries of the condition text (never inside `defined(M)` / `defined U`, which rssl keeps as a unit)
            let mut cuts: Vec<usize> = Vec::new();
            for i in 1..bytes.len() {
                let (a, b) = (bytes[i - 1] as char, bytes[i] as char);
                let inside_defined = c.text[..i].rfind("defined").map(|p| !c.text[p..i].contains(')') && (c.text[p..i].contains('(') || c.text[p..i].len() <= 8)).unwrap_or(false);
                if inside_defined {
                    continue;
                }
                if a == ' ' || b == ' ' || a == '(' || b == ')' || b == '(' || a == ')' || (a == '!' && b != '=') {
                    cuts.push(i);
                }
            }
            for cut in cuts {
                let text = format!("{}{}{}", &c.text[..cut], t, &c.text[cut..]);
                if t.is_empty() && text == c.text && cut != 1 {
                    continue;
                }
                let cc = CondCase { text, toks: c.toks.clone(), toks_empty: None };
                check_cond_env(&cc, &c.toks, "#define M 2", "kind: cond", acc);
            }
        });
        rep.cov("condition_trivia_kinds", Json::Int(TRIVIA.len() as i64));
        rep.absorb("condition_strings_with_trivia", r);
    }


    // ---- Part 3c: `defined` / #ifdef / #ifndef under every kind of macro definition of the queried names
    {
        let total = defkind_total();
        let r = run_par(ctx, total, 512, |idx, acc| {
            check_defkind(idx, acc);
            if idx % 20_011 == 5 {
                acc.sample(obj(vec![("space", "defined-under-definition-kinds".into()), ("idx", Json::Int(idx as i64))]));
            }
        });
        rep.cov("defined_definition_kinds", Json::Int(DEF_KINDS.len() as i64));
        rep.cov("defined_condition_shapes", Json::Int(DEF_SHAPES as i64));
        rep.absorb("defined_under_definition_kinds", r);
    }

    // ---- Part 4: other directives inside unselected branches
    let ctxs = contexts();
    let total = (ctxs.len() * EFFECTS.len()) as u64;
    let r = run_par(ctx, total, 64, |idx, acc| {
        let (lines, active, depth) = &ctxs[(idx as usize) / EFFECTS.len()];
        let e = &EFFECTS[(idx as usize) % EFFECTS.len()];
        check_effect(lines, *active, *depth, e, acc);
        if idx % 397 == 5 {
            acc.sample(obj(vec![("space", "directive-effect".into()), ("context", lines.join(" / ").into()), ("directive", e.line.into())]));
        }
    });
    rep.absorb("directives_in_branches", r);

    rep.assumptions = vec![
        "the BFS key contains the complete state the directive handler carries (ConditionChain vector and macro table, hook H3) plus the full reference-model state, so merged states have identical futures".into(),
        "sequences that C leaves ill-formed but the property does not list (second #else, #elif after #else) are only required not to panic and are not extended".into(),
        "condition reference: u64 values, precedence ! > < <= > >= > == != > && > ||, identifiers 0, defined(X); arithmetic operators are not supported by rssl's #if and are outside the property".into(),
        "#elif conditions in already-satisfied or skipped chains are well-formed in every generated history".into(),
        "definition kinds: `defined X` / `#ifdef X` are 1 exactly when a #define of X (object-like or function-like, any parameter count, any body) in a selected branch is in effect and not #undef'd; a function-like name used in a condition *outside* `defined` is not generated".into(),
    ];
    finish(ctx, rep)
}

pub fn replay(ctx: &Ctx, body: &str) -> i32 {
    let mut acc = Acc::default();
    let (kind, rest) = body.split_once('\n').unwrap_or((body, ""));
    match kind.trim() {
        "kind: history" => {
            let mut h = Vec::new();
            for line in rest.lines() {
                if line.starts_with("closing_endifs:") {
                    continue;
                }
                if let Some(i) = LETTERS.iter().position(|l| *l == line) {
                    h.push(i as u8);
                }
            }
            // twice: the verdict must be deterministic
            let mut acc2 = Acc::default();
            let _ = check_history(&h, &mut acc, None);
            let _ = check_history(&h, &mut acc2, None);
            if acc.viol.keys().collect::<Vec<_>>() != acc2.viol.keys().collect::<Vec<_>>() {
                eprintln!("machinery error: replay is not deterministic");
                return 2;
            }
        }
        "kind: effect" => {
            let mut it = rest.lines();
            let name = it.next().unwrap_or("");
            let lines: Vec<&'static str> = it.filter_map(|l| CTX_LETTERS.iter().copied().find(|c| *c == l)).collect();
            let mut m = CondModel::new();
            for l in &lines {
                m.step(l);
            }
            match EFFECTS.iter().find(|e| e.name == name) {
                Some(e) => check_effect(&lines, m.active(), m.stack.len(), e, &mut acc),
                None => {
                    eprintln!("machinery error: unknown effect {:?}", name);
                    return 2;
                }
            }
        }
        kk @ ("kind: cond" | "kind: cond-empty-table") => {
            let empty = kk == "kind: cond-empty-table";
            // re-tokenise the text with the reference tokenizer
            let text = rest.trim();
            let mut toks = Vec::new();
            // trivia inserted by the trivia space is removed for the reference tokenizer only
            let mut cleaned = text.replace("\\\r\n", " ").replace("\\\n", " ").replace('\t', " ");
            while let (Some(a), Some(b)) = (cleaned.find("/*"), cleaned.find("*/")) {
                if b < a {
                    break;
                }
                cleaned.replace_range(a..b + 2, " ");
            }
            let spaced = cleaned.replace('(', " ( ").replace(')', " ) ").replace("!!", " ! ! ").replace("defined ( M )", "defined(M)").replace("defined ( U )", "defined(U)");
            let mut it = spaced.split_whitespace().peekable();
            while let Some(w) = it.next() {
                let w = w.to_string();
                let mut w = w.as_str();
                while let Some(r) = w.strip_prefix('!') {
                    if r.starts_with('=') {
                        break;
                    }
                    toks.push(CTok::Not);
                    w = r;
                }
                if w.is_empty() {
                    continue;
                }
                if w == "defined" {
                    let n = it.next().unwrap_or("");
                    toks.push(CTok::Num((n == "M" && !empty) as u64));
                    continue;
                }
                if let Some((_, t)) = OPS.iter().find(|(s, _)| *s == w) {
                    toks.push(*t);
                } else if w == "(" {
                    toks.push(CTok::LP);
                } else if w == ")" {
                    toks.push(CTok::RP);
                } else if let Some((s, v)) = OPERANDS.iter().find(|(s, _)| *s == w) {
                    toks.push(CTok::Num(if empty && (*s == "M" || *s == "defined(M)") { 0 } else { *v }));
                } else {
                    eprintln!("machinery error: cannot re-tokenise {:?}", w);
                    return 2;
                }
            }
            let c = CondCase { text: text.to_string(), toks: toks.clone(), toks_empty: None };
            if empty {
                check_cond_env(&c, &toks, "", kk, &mut acc);
            } else {
                check_cond_env(&c, &toks, "#define M 2", kk, &mut acc);
            }
        }
        "kind: defkind" => {
            let idx = rest.lines().next().and_then(|l| l.strip_prefix("idx:")).and_then(|v| v.trim().parse::<u64>().ok());
            match idx {
                Some(i) if i < defkind_total() => check_defkind(i, &mut acc),
                _ => {
                    eprintln!("machinery error: bad defkind index");
                    return 2;
                }
            }
        }
        k => {
            eprintln!("machinery error: unknown replay kind {:?}", k);
            return 2;
        }
    }
    for (sig, (_, _, v)) in &acc.viol {
        println!("VIOLATION property={} replay=(replayed) signature={}", ctx.prop, sig);
        println!("  detail: {}", one_line(&v.detail, 400));
    }
    if acc.viol.is_empty() {
        println!("replay: property held on this case");
        0
    } else {
        1
    }
}

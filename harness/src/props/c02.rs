//! C02 — MSL export preserves the meaning of every accepted program that the Metal backend does not reject.
//!
//! Same source side as C01 (`exec::ir_interp` on the type checker's IR) and the same program spaces minus `double`; the
//! target side is `exec::c_interp` in its Metal dialect over the syntax tree the Metal generator hands to the formatter
//! (hook `rssl::msl::verif::take_last_ast`, there is no Metal reader). Functions that read or write non-constant globals
//! receive them as extra reference parameters: the harness allocates storage for every global named in a parameter list
//! (initialised as the source initialises it), reads it back afterwards and compares it with the source's final globals,
//! so a global that is not passed, passed by value or swapped with another one changes the observed state or makes the
//! call ill-formed ("not evaluable" is a violation here, not a skip).
//!
//! Additional spaces: all call-graph shapes over <= 4 functions x which function touches which of <= 3 static globals
//! (implicit parameter threading), all in/out/inout signatures over <= 3 parameters with aliasing, swizzle and array
//! element arguments (out-parameter trampolines).
//!
//! Signature vocabulary: `meaning|msl|<same classes as C01>`, `meaning|msl|decl|global-threading`,
//! `meaning|msl|decl|out-signature|<modes>`.

use super::c01::{self, Backend, Case, Opts};
use crate::engine::*;
use crate::json::Json;

const UNIT: usize = 40;

fn without_double(sp: c01::Space) -> Option<c01::Space> {
    if sp.prelude.contains("double") {
        return None;
    }
    let mut cases = Vec::new();
    for c in sp.cases {
        if !c.src.contains("double") && !c.src.contains("L;") && !c.src.contains("L ") && !c.src.contains("L)") {
            cases.push(c);
        } else if let Some(rest) = c.src.strip_prefix("double @(") {
            // the mixed int/float typing observes its result as double in C01: float here
            if !rest.contains("double") {
                cases.push(Case { src: format!("float @({}", rest), tag: c.tag });
            }
        }
    }
    if cases.is_empty() {
        return None;
    }
    Some(c01::Space { name: sp.name, prelude: sp.prelude, cases })
}

/// every DAG over n functions (c_k may call c_j for j < k) x which of the callee functions touches which global
fn call_graph_programs(n_funcs: usize, n_globals: usize) -> Vec<c01::Space> {
    let pairs: Vec<(usize, usize)> = (0..n_funcs).flat_map(|k| (0..k).map(move |j| (k, j))).collect();
    let n_edges = pairs.len();
    let touch_bits = (n_funcs - 1) * n_globals;
    let gnames = ["GA", "GB", "GC"];
    let mut out = Vec::new();
    for edges in 0..(1u32 << n_edges) {
        for touch in 0..(1u32 << touch_bits) {
            let mut prelude = String::new();
            for g in 0..n_globals {
                prelude.push_str(&format!("static int {} = {};\n", gnames[g], g + 1));
            }
            for k in 0..n_funcs {
                let mut body = String::new();
                // the top function touches nothing directly: it needs globals only through its callees
                if k + 1 < n_funcs {
                    for g in 0..n_globals {
                        if touch >> (k * n_globals + g) & 1 == 1 {
                            body.push_str(&format!("{} += x + {}; ", gnames[g], k * 10 + g + 1));
                        }
                    }
                }
                body.push_str("int r = x;");
                for (e, (from, to)) in pairs.iter().enumerate() {
                    if *from == k && edges >> e & 1 == 1 {
                        body.push_str(&format!(" r = r * 3 + c{}(x + {});", to, k));
                    }
                }
                prelude.push_str(&format!("int c{}(int x) {{ {} return r; }}\n", k, body));
            }
            let cases = (0..n_funcs).map(|k| Case { src: format!("int @(int x) {{ return c{}(x); }}", k), tag: "decl|global-threading".into() }).collect();
            out.push(c01::Space { name: format!("callgraph_{}_{}", edges, touch), prelude, cases });
        }
    }
    out
}

/// all in/out/inout signatures over <= 3 parameters; the callee reads its `in` copies after writing the outs
fn out_signature_programs() -> Vec<c01::Space> {
    let modes = ["in", "out", "inout"];
    let mut out = Vec::new();
    for k in 1..=3usize {
        for code in 0..3usize.pow(k as u32) {
            let ms: Vec<usize> = (0..k).map(|i| code / 3usize.pow(i as u32) % 3).collect();
            let name: String = ms.iter().map(|m| modes[*m]).collect::<Vec<_>>().join(",");
            let params: Vec<String> = ms.iter().enumerate().map(|(i, m)| format!("{} int p{}", modes[*m], i)).collect();
            let mut body = String::new();
            let mut ins: Vec<String> = Vec::new();
            for (i, m) in ms.iter().enumerate() {
                match *m {
                    0 => ins.push(format!("p{}", i)),
                    1 => body.push_str(&format!("p{} = {} + {}; ", i, if ins.is_empty() { "0".to_string() } else { ins.join(" + ") }, i + 1)),
                    _ => body.push_str(&format!("p{} = p{} * 2 + {}; ", i, i, i + 1)),
                }
            }
            let ret = if ins.is_empty() { "7".to_string() } else { ins.join(" * 10 + ") };
            let prelude = format!("int callee({}) {{ {}return {}; }}\n", params.join(", "), body, ret);
            let tag = format!("decl|out-signature|{}", name);
            let mut cases = Vec::new();
            let observe = |vars: &[&str]| vars.iter().map(|v| v.to_string()).collect::<Vec<_>>().join(" * 100 + ");
            // distinct variables
            let args: Vec<String> = (0..k).map(|i| format!("v{}", i)).collect();
            let decls: String = (0..k).map(|i| format!("int v{} = a + {}; ", i, i)).collect();
            let vars: Vec<&str> = args.iter().map(|s| s.as_str()).collect();
            cases.push(Case { src: format!("int @(int a) {{ {}int r = callee({}); return r * 1000000 + {}; }}", decls, args.join(", "), observe(&vars)), tag: tag.clone() });
            // swizzle components and array elements as arguments
            if k <= 3 {
                let sw = ["v.x", "v.y", "v.z"];
                cases.push(Case { src: format!("int @(int a) {{ int3 v = int3(a, a + 1, a + 2); int r = callee({}); return r * 1000000 + v.x * 10000 + v.y * 100 + v.z; }}", sw[..k].join(", ")), tag: tag.clone() });
                let ar = ["e[0]", "e[1]", "e[2]"];
                cases.push(Case { src: format!("int @(int a) {{ int e[3] = {{ a, a + 1, a + 2 }}; int r = callee({}); return r * 1000000 + e[0] * 10000 + e[1] * 100 + e[2]; }}", ar[..k].join(", ")), tag: tag.clone() });
            }
            // aliasing in the unambiguous form: one variable passed to an `in` and to one out / inout parameter
            for i in 0..k {
                for j in 0..k {
                    if ms[i] == 0 && ms[j] != 0 && ms.iter().filter(|m| **m != 0).count() == 1 {
                        let args: Vec<String> = (0..k).map(|q| if q == i || q == j { "x".to_string() } else { format!("v{}", q) }).collect();
                        let decls: String = (0..k).filter(|q| *q != i && *q != j).map(|q| format!("int v{} = a + {}; ", q, q)).collect();
                        cases.push(Case { src: format!("int @(int a) {{ int x = a; {}int r = callee({}); return r * 1000 + x; }}", decls, args.join(", ")), tag: format!("{}|aliased", tag) });
                    }
                }
            }
            out.push(c01::Space { name: format!("outsig_{}", name), prelude, cases });
        }
    }
    out
}

pub fn run(ctx: &Ctx) -> i32 {
    let mut rep = Report::new("exploration");
    rep.rule = "a function counts when the type checker accepted it, the Metal generator produced a syntax tree without a diagnostic and at least one argument tuple was evaluated by both interpreters; distinct = different (prelude, function source)".into();
    let opts = Opts { cap: 100, verbose: false, only_args: None };
    let backends = [Backend::Msl];
    let all: Vec<c01::Space> = c01::spaces(ctx).into_iter().filter_map(without_double).collect();
    // the ordinary spaces: units of 40 functions
    for sp in &all {
        let n_units = sp.cases.len().div_ceil(UNIT) as u64;
        let r = run_par(ctx, n_units, 1, |u, acc| {
            let lo = u as usize * UNIT;
            let hi = (lo + UNIT).min(sp.cases.len());
            let cs: Vec<&Case> = sp.cases[lo..hi].iter().collect();
            acc.add("functions_generated", cs.len() as u64);
            c01::check_cases(&sp.prelude, &cs, &backends, acc, &opts);
        });
        rep.cov(&format!("functions_{}", sp.name), Json::Int(sp.cases.len() as i64));
        rep.absorb(&sp.name, r);
    }
    // whole programs: out / inout signatures, global aliasing, positions of global uses and calls, struct casts, call graphs
    let mut programs = out_signature_programs();
    programs.extend(c01::program_spaces(ctx).into_iter().filter_map(without_double));
    c01::run_programs(ctx, "whole_programs", &programs, &backends, &opts, &mut rep);
    let graphs = if ctx.quick() { call_graph_programs(3, 2) } else { call_graph_programs(4, 3) };
    rep.cov("call_graph_programs", Json::Int(graphs.len() as i64));
    c01::run_programs(ctx, "call_graphs", &graphs, &backends, &opts, &mut rep);
    rep.cov("targets", Json::Arr(vec!["Msl (no-pipeline mode)".into()]));
    rep.assumptions.push("Metal semantics are those of exec::c_interp in its Metal dialect over the generator's syntax tree (references bind the argument object, metal:: spellings mapped by an independently written table, tag-dispatched trampoline overloads selected by arity); nothing checks that the text is accepted by a real Metal compiler".into());
    rep.assumptions.push("same value grid, the same skipping of cases that are unspecified in the source, and the same shared semantic decisions S1-S11 as C01; double is excluded (Metal rejects it), programs the Metal backend rejects with a diagnostic are outside the property and counted (export_rejected)".into());
    rep.assumptions.push("globals are matched by name between the source and the Metal tree; a global that a function does not receive keeps its initial value on the Metal side".into());
    finish(ctx, rep)
}

pub fn replay(ctx: &Ctx, body: &str) -> i32 {
    c01::replay(ctx, body)
}

//! C02 — MSL export preserves the meaning of every accepted program that the Metal backend does not reject.
//!
//! Same source side as C01 (`exec::ir_interp` on the type checker's IR) and the same program spaces minus `double`; the
//! target side is `exec::c_interp` in its Metal dialect over the syntax tree the Metal generator hands to the formatter
//! (hook `rssl::msl::verif::take_last_ast`, there is no Metal reader). Functions that read or write non-constant globals
//! receive them as extra reference parameters: the harness allocates storage for every global named in a parameter list
//! (initialised as the source initialises it), reads it back afterwards and compares it with the source's final globals,
//! so a global that is not passed, passed by value or swapped with another one changes the observed state or makes the
//! call ill-formed ("not evaluable" is a violation here, not a skip).
//!
//! Additional spaces: all call-graph shapes over <= 4 functions x which function touches which of <= 3 static globals
//! (implicit parameter threading), all in/out/inout signatures over <= 3 parameters with aliasing, swizzle and array
//! element arguments (out-parameter trampolines).
//!
//! List positions: the only mention of a static global / the only call of a function that needs one / the only call in
//! the module of a function with inout parameters (aliased arguments) sits at element k of n (n <= 3 quick, <= 4 thorough,
//! every k) of every list-like construct (declarators of a `for` init declaration and of a local declaration, call /
//! constructor / intrinsic arguments, flat / nested / struct aggregate entries, comma operands, switch arms, else-if bodies
//! and conditions, block statements, ?: and binary operands, subscripts) and at every single-expression statement part,
//! inside every statement context (quick: 8 contexts; thorough: also every nesting of two), observed through every call
//! graph over three functions.
//!
//! Function-local statics (functions with state): every type class x every place of the definition x declarator k of n,
//! observed through every sequence shape of <= 3 (thorough 4) calls inside one evaluation; initialisers are constant
//! expressions only, so when the initialisation happens cannot be observed.
//!
//! Signature vocabulary: `meaning|msl|<same classes as C01>`, `meaning|msl|decl|global-threading`,
//! `meaning|msl|decl|out-signature|<modes>`,
//! `meaning|msl|decl|{global-list-position,call-list-position,sole-inout-call-position,sole-inout-call-of-global-position}|<construct>|{only,first,later}`,
//! `meaning|msl|decl|{static-local,static-local-const}|<place of the definition>`.

use super::c01::{self, Backend, Case, Opts};
use crate::engine::*;
use crate::json::Json;

const UNIT: usize = 40;

fn without_double(sp: c01::Space) -> Option<c01::Space> {
    if sp.prelude.contains("double") {
        return None;
    }
    let mut cases = Vec::new();
    for c in sp.cases {
        if !c.src.contains("double") && !c.src.contains("L;") && !c.src.contains("L ") && !c.src.contains("L)") {
            cases.push(c);
        } else if let Some(rest) = c.src.strip_prefix("double @(") {
            // the mixed int/float typing observes its result as double in C01: float here
            if !rest.contains("double") {
                cases.push(Case { src: format!("float @({}", rest), tag: c.tag });
            }
        }
    }
    if cases.is_empty() {
        return None;
    }
    Some(c01::Space { name: sp.name, prelude: sp.prelude, cases })
}

/// every DAG over n functions (c_k may call c_j for j < k) x which of the callee functions touches which global
fn call_graph_programs(n_funcs: usize, n_globals: usize) -> Vec<c01::Space> {
    let pairs: Vec<(usize, usize)> = (0..n_funcs).flat_map(|k| (0..k).map(move |j| (k, j))).collect();
    let n_edges = pairs.len();
    let touch_bits = (n_funcs - 1) * n_globals;
    let gnames = ["GA", "GB", "GC"];
    let mut out = Vec::new();
    for edges in 0..(1u32 << n_edges) {
        for touch in 0..(1u32 << touch_bits) {
            let mut prelude = String::new();
            for g in 0..n_globals {
                prelude.push_str(&format!("static int {} = {};\n", gnames[g], g + 1));
            }
            for k in 0..n_funcs {
                let mut body = String::new();
                // the top function touches nothing directly: it needs globals only through its callees
                if k + 1 < n_funcs {
                    for g in 0..n_globals {
                        if touch >> (k * n_globals + g) & 1 == 1 {
                            body.push_str(&format!("{} += x + {}; ", gnames[g], k * 10 + g + 1));
                        }
                    }
                }
                body.push_str("int r = x;");
                for (e, (from, to)) in pairs.iter().enumerate() {
                    if *from == k && edges >> e & 1 == 1 {
                        body.push_str(&format!(" r = r * 3 + c{}(x + {});", to, k));
                    }
                }
                prelude.push_str(&format!("int c{}(int x) {{ {} return r; }}\n", k, body));
            }
            let cases = (0..n_funcs).map(|k| Case { src: format!("int @(int x) {{ return c{}(x); }}", k), tag: "decl|global-threading".into() }).collect();
            out.push(c01::Space { name: format!("callgraph_{}_{}", edges, touch), prelude, cases });
        }
    }
    out
}

/// all in/out/inout signatures over <= 3 parameters; the callee reads its `in` copies after writing the outs
fn out_signature_programs() -> Vec<c01::Space> {
    let modes = ["in", "out", "inout"];
    let mut out = Vec::new();
    for k in 1..=3usize {
        for code in 0..3usize.pow(k as u32) {
            let ms: Vec<usize> = (0..k).map(|i| code / 3usize.pow(i as u32) % 3).collect();
            let name: String = ms.iter().map(|m| modes[*m]).collect::<Vec<_>>().join(",");
            let params: Vec<String> = ms.iter().enumerate().map(|(i, m)| format!("{} int p{}", modes[*m], i)).collect();
            let mut body = String::new();
            let mut ins: Vec<String> = Vec::new();
            for (i, m) in ms.iter().enumerate() {
                match *m {
                    0 => ins.push(format!("p{}", i)),
                    1 => body.push_str(&format!("p{} = {} + {}; ", i, if ins.is_empty() { "0".to_string() } else { ins.join(" + ") }, i + 1)),
                    _ => body.push_str(&format!("p{} = p{} * 2 + {}; ", i, i, i + 1)),
                }
            }
            let ret = if ins.is_empty() { "7".to_string() } else { ins.join(" * 10 + ") };
            let prelude = format!("int callee({}) {{ {}return {}; }}\n", params.join(", "), body, ret);
            let tag = format!("decl|out-signature|{}", name);
            let mut cases = Vec::new();
            let observe = |vars: &[&str]| vars.iter().map(|v| v.to_string()).collect::<Vec<_>>().join(" * 100 + ");
            // distinct variables
            let args: Vec<String> = (0..k).map(|i| format!("v{}", i)).collect();
            let decls: String = (0..k).map(|i| format!("int v{} = a + {}; ", i, i)).collect();
            let vars: Vec<&str> = args.iter().map(|s| s.as_str()).collect();
            cases.push(Case { src: format!("int @(int a) {{ {}int r = callee({}); return r * 1000000 + {}; }}", decls, args.join(", "), observe(&vars)), tag: tag.clone() });
            // swizzle components and array elements as arguments
            if k <= 3 {
                let sw = ["v.x", "v.y", "v.z"];
                cases.push(Case { src: format!("int @(int a) {{ int3 v = int3(a, a + 1, a + 2); int r = callee({}); return r * 1000000 + v.x * 10000 + v.y * 100 + v.z; }}", sw[..k].join(", ")), tag: tag.clone() });
                let ar = ["e[0]", "e[1]", "e[2]"];
                cases.push(Case { src: format!("int @(int a) {{ int e[3] = {{ a, a + 1, a + 2 }}; int r = callee({}); return r * 1000000 + e[0] * 10000 + e[1] * 100 + e[2]; }}", ar[..k].join(", ")), tag: tag.clone() });
            }
            // aliasing in the unambiguous form: one variable passed to an `in` and to one out / inout parameter
            for i in 0..k {
                for j in 0..k {
                    if ms[i] == 0 && ms[j] != 0 && ms.iter().filter(|m| **m != 0).count() == 1 {
                        let args: Vec<String> = (0..k).map(|q| if q == i || q == j { "x".to_string() } else { format!("v{}", q) }).collect();
                        let decls: String = (0..k).filter(|q| *q != i && *q != j).map(|q| format!("int v{} = a + {}; ", q, q)).collect();
                        cases.push(Case { src: format!("int @(int a) {{ int x = a; {}int r = callee({}); return r * 1000 + x; }}", decls, args.join(", ")), tag: format!("{}|aliased", tag) });
                    }
                }
            }
            out.push(c01::Space { name: format!("outsig_{}", name), prelude, cases });
        }
    }
    out
}

// ---------------------------------------------------------------------------------------------
// list positions: the k-th element of every list-like construct, in every statement context
//
// The usage analysis behind the implicit global parameters and behind the out-parameter trampolines walks statements and
// expressions; everything that holds a *list* of sub-parts (declarators of one declaration, arguments, aggregate entries,
// operands of a comma, arms of a selection, statements of a block) can be walked incompletely. The spaces below put the
// only mention of a global / the only call of a function at element k of n of every such construct (all n <= N, all k < n,
// the other elements are literals), inside every statement context, and observe the function through every call graph.

struct ListPos {
    /// construct class; becomes part of the signature
    class: String,
    /// "only" (n = 1), "first" (k = 0 of several) or "later" (k > 0)
    index: &'static str,
    /// statements with `$E` at the position; they add to `r`
    stmts: String,
}

fn index_class(k: usize, n: usize) -> &'static str {
    if n == 1 {
        "only"
    } else if k == 0 {
        "first"
    } else {
        "later"
    }
}

/// helpers used by the positions (none of them touches a global)
fn list_helpers(max_n: usize) -> String {
    let mut s = String::new();
    for n in 1..=max_n.max(4) {
        let params: Vec<String> = (0..n).map(|j| format!("int a{}", j)).collect();
        let sum: Vec<String> = (0..n).map(|j| format!("a{} * {}", j, j + 1)).collect();
        s.push_str(&format!("int h{}({}) {{ return {}; }}\n", n, params.join(", "), sum.join(" + ")));
        let members: String = (0..n).map(|j| format!("int m{}; ", j)).collect();
        s.push_str(&format!("struct AG{} {{ {}}};\n", n, members));
    }
    s
}

fn list_positions(max_n: usize) -> Vec<ListPos> {
    let mut v: Vec<ListPos> = Vec::new();
    let e = "($E & 3)";
    // element list with the expression at k and literals elsewhere
    let elems = |n: usize, k: usize| -> Vec<String> { (0..n).map(|j| if j == k { e.to_string() } else { format!("{}", j + 1) }).collect() };
    let weighted = |names: &[String]| -> String { names.iter().enumerate().map(|(j, nm)| format!("{} * {}", nm, j + 1)).collect::<Vec<_>>().join(" + ") };
    for n in 1..=max_n {
        for k in 0..n {
            let ix = index_class(k, n);
            let es = elems(n, k);
            let d: Vec<String> = (0..n).map(|j| format!("d{}", j)).collect();
            let decls: Vec<String> = (0..n).map(|j| format!("d{} = {}", j, es[j])).collect();
            v.push(ListPos { class: "for-init-declarator".into(), index: ix, stmts: format!("for (int {}; d0 < 5; d0++) {{ r += {}; }}", decls.join(", "), weighted(&d)) });
            v.push(ListPos { class: "local-declarator".into(), index: ix, stmts: format!("int {}; r += {};", decls.join(", "), weighted(&d)) });
            v.push(ListPos { class: "call-argument".into(), index: ix, stmts: format!("r += h{}({});", n, es.join(", ")) });
            let q: Vec<String> = (0..n).map(|j| format!("q[{}]", j)).collect();
            v.push(ListPos { class: "aggregate-entry".into(), index: ix, stmts: format!("int q[{}] = {{ {} }}; r += {};", n, es.join(", "), weighted(&q)) });
            let m: Vec<String> = (0..n).map(|j| format!("s.m{}", j)).collect();
            v.push(ListPos { class: "struct-aggregate-entry".into(), index: ix, stmts: format!("AG{} s = {{ {} }}; r += {};", n, es.join(", "), weighted(&m)) });
            for row in 0..2usize {
                let lits: Vec<String> = (0..n).map(|j| format!("{}", j + 5)).collect();
                let rows = if row == 0 { [es.join(", "), lits.join(", ")] } else { [lits.join(", "), es.join(", ")] };
                let cells: Vec<String> = (0..2).flat_map(|a| (0..n).map(move |b| format!("q[{}][{}]", a, b))).collect();
                v.push(ListPos { class: "nested-aggregate-entry".into(), index: if row == 1 { "later" } else if n == 1 { "first" } else { ix }, stmts: format!("int q[2][{}] = {{ {{ {} }}, {{ {} }} }}; r += {};", n, rows[0], rows[1], weighted(&cells)) });
            }
            if n >= 2 {
                v.push(ListPos { class: "comma-operand".into(), index: ix, stmts: format!("r += ({});", es.join(", ")) });
                // n - 1 cases and a default arm
                let mut arms = String::new();
                for j in 0..n {
                    let body = if j == k { format!("r += {};", e) } else { format!("r += {};", j + 1) };
                    if j + 1 < n {
                        arms.push_str(&format!("case {}: {} break; ", j, body));
                    } else {
                        arms.push_str(&format!("default: {} break; ", body));
                    }
                }
                v.push(ListPos { class: "switch-arm".into(), index: ix, stmts: format!("switch (x & 3) {{ {}}}", arms) });
            }
            // statements of a block
            let sts: String = (0..n).map(|j| if j == k { format!("r += {}; ", e) } else { format!("r += {}; ", j + 1) }).collect();
            v.push(ListPos { class: "block-statement".into(), index: ix, stmts: format!("{{ {}}}", sts) });
            // else-if chains: the body and the condition of arm k
            let mut chain = String::new();
            let mut chain_c = String::new();
            for j in 0..n {
                let kw = if j == 0 { "if" } else { "else if" };
                chain.push_str(&format!("{} ((x & 3) == {}) {{ r += {}; }} ", kw, j, if j == k { e.to_string() } else { format!("{}", j + 1) }));
                chain_c.push_str(&format!("{} ({} == {}) {{ r += {}; }} ", kw, if j == k { e } else { "(x & 3)" }, j, j + 1));
            }
            v.push(ListPos { class: "else-if-body".into(), index: ix, stmts: chain });
            v.push(ListPos { class: "else-if-condition".into(), index: ix, stmts: chain_c });
        }
    }
    // constructors: always up to four components
    for n in 1..=4usize {
        for k in 0..n {
            let es = elems(n, k);
            if n == 1 {
                v.push(ListPos { class: "constructor-argument".into(), index: "only", stmts: format!("int w = int({}); r += w;", es[0]) });
            } else {
                let comps: Vec<String> = ["w.x", "w.y", "w.z", "w.w"][..n].iter().map(|c| c.to_string()).collect();
                v.push(ListPos { class: "constructor-argument".into(), index: index_class(k, n), stmts: format!("int{} w = int{}({}); r += {};", n, n, es.join(", "), weighted(&comps)) });
            }
        }
    }
    // intrinsics of one, two and three arguments
    v.push(ListPos { class: "intrinsic-argument".into(), index: "only", stmts: format!("r += abs({});", e) });
    for k in 0..2 {
        let es = elems(2, k);
        v.push(ListPos { class: "intrinsic-argument".into(), index: index_class(k, 2), stmts: format!("r += min({}, {}) + max({}, {}) * 3;", es[0], es[1], es[0], es[1]) });
    }
    for k in 0..3 {
        let es: Vec<String> = (0..3).map(|j| if j == k { e.to_string() } else { ["2", "0", "7"][j].to_string() }).collect();
        v.push(ListPos { class: "intrinsic-argument".into(), index: index_class(k, 3), stmts: format!("r += clamp({}, {}, {});", es[0], es[1], es[2]) });
    }
    // operands of the selection and of a binary operator
    v.push(ListPos { class: "ternary-operand".into(), index: "first", stmts: format!("r += ({} & 1) != 0 ? 2 : 3;", e) });
    v.push(ListPos { class: "ternary-operand".into(), index: "later", stmts: format!("r += (x & 1) != 0 ? {} : 3;", e) });
    v.push(ListPos { class: "ternary-operand".into(), index: "later", stmts: format!("r += (x & 1) != 0 ? 2 : {};", e) });
    v.push(ListPos { class: "binary-operand".into(), index: "first", stmts: format!("r += {} * 5 - 1;", e) });
    v.push(ListPos { class: "binary-operand".into(), index: "later", stmts: format!("r += 7 - {};", e) });
    v.push(ListPos { class: "subscript-index".into(), index: "first", stmts: format!("int g2[2][4] = {{ {{ 1, 2, 3, 4 }}, {{ 5, 6, 7, 8 }} }}; r += g2[{} & 1][x & 3];", e) });
    v.push(ListPos { class: "subscript-index".into(), index: "later", stmts: format!("int g2[2][4] = {{ {{ 1, 2, 3, 4 }}, {{ 5, 6, 7, 8 }} }}; r += g2[x & 1][{}];", e) });
    // the parts of the statements that hold exactly one expression
    for (class, stmts) in [
        ("expression-statement", "r += $E;"),
        ("if-condition", "if ($E > 1) r += 1;"),
        ("while-condition", "int n = 0; while (n < 3 && $E > n) { n++; } r += n;"),
        ("do-condition", "int n = 0; do { n++; } while (n < $E); r += n;"),
        ("for-init-expression", "int i; for (i = $E; i < 4; i++) r += i + 1;"),
        ("for-condition", "for (int i = 0; i < $E; i++) r += i + 1;"),
        ("for-increment", "for (int i = 0; i < 3; i += 1 + ($E & 1)) r += 1;"),
        ("switch-selector", "switch ($E & 1) { case 0: r += 5; break; default: r += 7; break; }"),
        ("array-index", "r += t[$E];"),
        ("array-index-store", "t[$E] = x; r += t[0] + t[1] * 2 + t[2] * 3 + t[3] * 4;"),
        ("cast-operand", "r += (int)(float)$E;"),
        ("unary-operand", "r -= -$E;"),
        ("short-circuit-right", "if (x > 100 || $E > 1) r += 3;"),
        ("swizzle-base", "r += int3($E, 2, 3).zx.y;"),
        ("member-base", "AG2 s = { 1, 2 }; s.m1 = $E; r += s.m0 + s.m1 * 2;"),
    ] {
        v.push(ListPos { class: class.into(), index: "only", stmts: stmts.replace("$E", e) });
    }
    v.push(ListPos { class: "return-expression".into(), index: "only", stmts: "return r + $E;".replace("$E", e) });
    v
}

/// statement contexts around the position: (name, text with `$S`)
fn statement_contexts(depth2: bool) -> Vec<(String, String)> {
    let base: Vec<(&str, &str)> = vec![
        ("plain", "$S"),
        ("block", "{ $S }"),
        ("if-body", "if (x < 1000) { $S }"),
        ("else-body", "if (x > 1000) { r += 1; } else { $S }"),
        ("for-body", "for (int o = 0; o < 2; o++) { $S }"),
        ("while-body", "int o = 0; while (o < 2) { o++; $S }"),
        ("do-body", "int o = 0; do { o++; $S } while (o < 2);"),
        ("switch-body", "switch (x & 1) { case 0: { $S break; } default: { r += 2; $S } }"),
    ];
    let mut out: Vec<(String, String)> = base.iter().map(|(n, t)| (n.to_string(), t.to_string())).collect();
    if depth2 {
        for (on, ot) in &base[1..] {
            for (inn, it) in &base[1..] {
                // the inner loop counters are renamed so that both levels can be loops
                let inner = it.replace("int o", "int o2").replace("o++", "o2++").replace("o < 2", "o2 < 2");
                out.push((format!("{}>{}", on, inn), ot.replace("$S", &inner)));
            }
        }
    }
    out
}

fn in_function(name: &str, body: &str, extra: &str, tail: &str) -> String {
    format!("int {}(int x) {{ int t[4] = {{ 1, 2, 3, 4 }}; int r = x; {} {} return r{}; }}\n", name, body, extra, tail)
}

/// G: c0 mentions the global only at the position, c1 / c2 reach it through every DAG over the three functions;
/// C: c0 needs the global, c1 calls c0 only at the position, c2 calls c1 directly / at the same position / not at all;
/// T: the only call of a function with two inout parameters in the whole module sits at the position, both arguments name
///    the same local (the result of the callee tells copy-in/copy-out from binding both references to one object, whatever
///    the order of the copy-out); T2: the only call passes the global the callee itself modifies.
fn list_position_programs(thorough: bool) -> Vec<c01::Space> {
    let max_n = if thorough { 4 } else { 3 };
    let positions = list_positions(max_n);
    let contexts = statement_contexts(thorough);
    let helpers = list_helpers(max_n);
    let wrappers = |tag: &str| -> Vec<Case> { (0..3).map(|k| Case { src: format!("int @(int x) {{ return c{}(x); }}", k), tag: tag.to_string() }).collect() };
    let mut out = Vec::new();
    for (cname, ctext) in &contexts {
        let deep = cname.contains('>');
        for p in &positions {
            let body = |expr: &str| ctext.replace("$S", &p.stmts.replace("$E", expr));
            // the signature names the construct and the index class; the statement context is visible in the detail
            let class = format!("{}|{}", p.class, p.index);
            let uniq = format!("{}_{}_{}", out.len(), class, cname);
            // G
            let edge_sets: Vec<u32> = if deep { vec![7] } else { (0..8).collect() };
            for edges in &edge_sets {
                let mut prelude = String::from("static int GA = 1;\nstatic int GB = 2;\n");
                prelude.push_str(&helpers);
                prelude.push_str(&in_function("c0", &body("GA"), "", ""));
                prelude.push_str(&format!("int c1(int x) {{ int r = x; {} return r; }}\n", if edges & 1 == 1 { "r = r * 3 + c0(x + 1);" } else { "" }));
                prelude.push_str(&format!("int c2(int x) {{ int r = x;{}{} return r; }}\n", if edges & 2 == 2 { " r = r * 3 + c0(x + 2);" } else { "" }, if edges & 4 == 4 { " r = r * 5 + c1(x + 3);" } else { "" }));
                out.push(c01::Space { name: format!("glist_{}_{}", uniq, edges), prelude, cases: wrappers(&format!("decl|global-list-position|{}", class)) });
            }
            // C
            let forms: Vec<(usize, bool)> = if deep { vec![(2, false)] } else { (0..3).flat_map(|f| [false, true].into_iter().map(move |t| (f, t))).collect() };
            for (c2_form, c1_touches) in forms {
                let mut prelude = String::from("static int GA = 1;\nstatic int GB = 2;\n");
                prelude.push_str(&helpers);
                prelude.push_str("int c0(int x) { GA += x + 1; return GA * 2 + x; }\n");
                prelude.push_str(&in_function("c1", &body("c0(x + 1)"), if c1_touches { "GB += 3;" } else { "" }, ""));
                match c2_form {
                    0 => prelude.push_str("int c2(int x) { int r = x; return r; }\n"),
                    1 => prelude.push_str("int c2(int x) { int r = x; r = r * 5 + c1(x + 3); return r; }\n"),
                    _ => prelude.push_str(&in_function("c2", &body("c1(x + 2)"), "", "")),
                }
                out.push(c01::Space { name: format!("clist_{}_{}_{}", uniq, c2_form, c1_touches), prelude, cases: wrappers(&format!("decl|call-list-position|{}", class)) });
            }
            // T: the function under test holds the only call
            let mut prelude = helpers.clone();
            prelude.push_str("int al(inout int a, inout int b) { a += 1; int k = b; b = a; return k; }\n");
            let src = format!("int @(int x) {{ int t[4] = {{ 1, 2, 3, 4 }}; int y = x & 15; int r = x; {} return r + y * 7; }}", body("al(y, y)"));
            out.push(c01::Space { name: format!("tlist_{}", uniq), prelude, cases: vec![Case { src, tag: format!("decl|sole-inout-call-position|{}", class) }] });
            // T2: the only call passes the global that the callee modifies itself
            let mut prelude = String::from("static int GA = 1;\n");
            prelude.push_str(&helpers);
            prelude.push_str("int ag(inout int p) { p += 1; GA += 10; return p; }\n");
            let src = format!("int @(int x) {{ int t[4] = {{ 1, 2, 3, 4 }}; int r = x; {} return r; }}", body("ag(GA)"));
            out.push(c01::Space { name: format!("t2list_{}", uniq), prelude, cases: vec![Case { src, tag: format!("decl|sole-inout-call-of-global-position|{}", class) }] });
        }
    }
    out
}

// ---------------------------------------------------------------------------------------------
// function-local statics: functions with state, observed over sequences of calls inside one evaluation
//
// A function with a mutable `static` local returns something different on its second call; one call of it can not tell a
// static from an ordinary local. Every program below holds one such function (every type class x every place where the
// definition can stand x which declarator of the definition it is) and is observed through every call sequence shape of
// up to L calls inside one evaluation (state starts afresh with every evaluation: S9 applied to locals).

/// (type class, type after `static`, declarator with initialiser, update statement, observation as int, is_const)
fn static_local_types() -> Vec<(&'static str, &'static str, &'static str, &'static str, &'static str, bool)> {
    vec![
        ("int", "int", "s = 3", "s += x + 1;", "s", false),
        ("uint", "uint", "s = 3u", "s = s * 2u + (uint)(x & 7);", "(int)(s & 0xffffu)", false),
        ("float", "float", "s = 0.5f", "s = s * 2.0f + (float)(x & 7);", "(int)s", false),
        ("bool", "bool", "s = false", "s = !s;", "(s ? 1 : 0)", false),
        ("vector", "int3", "s = int3(1, 2, 3)", "s.y += x & 7; s.xz = s.zx;", "(s.x * 100 + s.y * 10 + s.z)", false),
        ("array", "int", "s[2] = { 1, 2 }", "s[x & 1] += 1;", "(s[0] * 10 + s[1])", false),
        ("struct", "AG2", "s = { 1, 2 }", "s.m0 += x & 7; s.m1 += s.m0;", "(s.m0 * 100 + s.m1)", false),
        ("const-int", "const int", "s = 3", "", "(s + (x & 7))", true),
        ("const-array", "const int", "s[2] = { 4, 5 }", "", "s[x & 1]", true),
    ]
}

/// places where the definition can stand: (name, function body with `$D` the definition, `$U` the update and `$O` the observation)
fn static_local_places() -> Vec<(&'static str, &'static str)> {
    vec![
        ("function-top", "$D $U r = $O;"),
        ("nested-block", "{ $D $U r = $O; }"),
        ("if-body", "if ((x & 1) == 0) { $D $U r = $O; } else { r = 1; }"),
        ("loop-body", "for (int k = 0; k < 2; k++) { $D $U r = r * 3 + $O; }"),
        ("while-body", "int k = 0; while (k < 2) { k++; $D $U r = r * 3 + $O; }"),
        ("switch-body", "switch (x & 1) { case 0: { $D $U r = $O; break; } default: { r = 2; } }"),
        ("after-early-return", "if (x == 7) return 9; $D $U r = $O;"),
        ("after-use-of-argument", "int y = x + 1; r = y; $D $U r += $O;"),
    ]
}

/// the call sequence shapes over a stateful function `tick`, a second one `tock` with statics of the same names and
/// `via` that calls `tick`: 1..=max_calls successive calls, the same number of calls from a loop, every interleaving of
/// tick / tock and of direct / indirect calls of that length, a call in the argument of a call, equal arguments twice.
/// The signature names the place of the definition only; the shape of the sequence is visible in the detail.
fn call_sequences(max_calls: usize, tag: &str) -> Vec<Case> {
    let mut cases = Vec::new();
    let mut add = |src: String| cases.push(Case { src, tag: tag.to_string() });
    for n in 1..=max_calls {
        let calls: String = (0..n).map(|i| format!("r = r * 31 + tick(x + {}); ", i)).collect();
        add(format!("int @(int x) {{ int r = 0; {}return r; }}", calls));
        if n >= 2 {
            add(format!("int @(int x) {{ int r = 0; for (int i = 0; i < {}; i++) {{ r = r * 31 + tick(x + i); }} return r; }}", n));
            for (other, lo, hi) in [("tock", 1u32, (1u32 << n) - 1), ("via", 1u32, 1u32 << n)] {
                for code in lo..hi {
                    let calls: String = (0..n).map(|i| format!("r = r * 31 + {}(x + {}); ", if code >> i & 1 == 1 { other } else { "tick" }, i)).collect();
                    add(format!("int @(int x) {{ int r = 0; {}return r; }}", calls));
                }
            }
        }
    }
    add("int @(int x) { return tick(tick(x) & 7); }".into());
    add("int @(int x) { int a = tick(x); int b = tick(x); return a == b ? 1 : 2; }".into());
    cases
}

fn static_local_programs(thorough: bool) -> Vec<c01::Space> {
    let max_calls = if thorough { 4 } else { 3 };
    let mut out = Vec::new();
    for (tname, ty, declarator, update, obs, is_const) in static_local_types() {
        for (pname, place) in static_local_places() {
            // the observed static is declarator k of n of its definition (the other one is a second static of the same type)
            for n in 1..=2usize {
                for k in 0..n {
                    let other = declarator.replacen('s', "o", 1);
                    let list = if n == 1 { declarator.to_string() } else if k == 0 { format!("{}, {}", declarator, other) } else { format!("{}, {}", other, declarator) };
                    let def = format!("static {} {};", ty, list);
                    let body = place.replace("$D", &def).replace("$U", update).replace("$O", obs);
                    let mut prelude = String::from("struct AG2 { int m0; int m1; };\n");
                    prelude.push_str(&format!("int tick(int x) {{ int r = 0; {} return r; }}\n", body));
                    prelude.push_str(&format!("int tock(int x) {{ int r = 0; {} return r + 1; }}\n", body));
                    prelude.push_str("int via(int x) { return tick(x) + 1000; }\n");
                    let tag = format!("decl|{}|{}", if is_const { "static-local-const" } else { "static-local" }, pname);
                    out.push(c01::Space { name: format!("static_local_{}_{}_{}of{}", tname, pname, k, n), prelude, cases: call_sequences(max_calls, &tag) });
                }
            }
        }
    }
    // the static of a for-init definition (the loop variable keeps its value: the second call does not loop again)
    for n in 1..=2usize {
        for k in 0..n {
            let list = if n == 1 { "i = 0".to_string() } else if k == 0 { "i = 0, o = 5".to_string() } else { "o = 5, i = 0".to_string() };
            let mut prelude = String::from("struct AG2 { int m0; int m1; };\n");
            let body = format!("for (static int {}; i < 2 + (x & 1); i++) {{ r = r * 3 + i + 1{}; }}", list, if n == 2 { " + o++" } else { "" });
            prelude.push_str(&format!("int tick(int x) {{ int r = 0; {} return r; }}\n", body));
            prelude.push_str(&format!("int tock(int x) {{ int r = 0; {} return r + 1; }}\n", body));
            prelude.push_str("int via(int x) { return tick(x) + 1000; }\n");
            out.push(c01::Space { name: format!("static_local_for_init_{}of{}", k, n), prelude, cases: call_sequences(max_calls, "decl|static-local|for-init") });
        }
    }
    // two statics in one function, a static next to a static global (threaded as a parameter), a static in a method
    for (name, funcs) in [
        ("two-statics", "int tick(int x) { static int a = 1; static int b = 10; a += x & 3; b += a; return a * 100 + b; }\nint tock(int x) { static int a = 2; static int b = 20; b -= 1; a += b; return a + b; }\n"),
        ("shadowing-static", "int tick(int x) { static int s = 1; s += 1; int r = s; { static int s = 100; s += x & 3; r += s; } return r; }\nint tock(int x) { int s = 5; { static int s = 7; s++; x += s; } return x + s; }\n"),
        ("static-and-global", "static int GA = 1;\nint tick(int x) { static int s = 1; s += GA; GA += x & 3; return s * 10 + GA; }\nint tock(int x) { static int s = 2; GA += s; s += 1; return GA; }\n"),
        ("static-in-method", "struct SM { int v; int tk(int x) { static int s = 0; s += x & 3; v += s; return v; } };\nint tick(int x) { SM a; a.v = 1; SM b; b.v = 100; int p = a.tk(x); int q = b.tk(x); return p * 7 + q + a.v; }\nint tock(int x) { SM c; c.v = x & 3; return c.tk(1) + c.tk(2); }\n"),
        ("static-initialised-from-static-const", "static const int K = 4;\nint tick(int x) { static int s = K * 2; s += x & 3; return s; }\nint tock(int x) { static int s = K; s *= 2; return s; }\n"),
        ("static-passed-as-inout", "void bump(inout int v, int d) { v += d; }\nint tick(int x) { static int s = 1; bump(s, x & 3); bump(s, 1); return s; }\nint tock(int x) { static int3 s = int3(1, 2, 3); bump(s.y, 2); return s.y + x; }\n"),
    ] {
        let prelude = format!("{}int via(int x) {{ return tick(x) + 1000; }}\n", funcs);
        out.push(c01::Space { name: format!("static_local_{}", name), prelude, cases: call_sequences(max_calls, &format!("decl|static-local|{}", name)) });
    }
    out
}

pub fn run(ctx: &Ctx) -> i32 {
    let mut rep = Report::new("exploration");
    rep.rule = "a function counts when the type checker accepted it, the Metal generator produced a syntax tree without a diagnostic and at least one argument tuple was evaluated by both interpreters; distinct = different (prelude, function source)".into();
    let opts = Opts { cap: 100, verbose: false, only_args: None };
    let backends = [Backend::Msl];
    let all: Vec<c01::Space> = c01::spaces(ctx).into_iter().filter_map(without_double).collect();
    // the ordinary spaces: units of 40 functions
    for sp in &all {
        let n_units = sp.cases.len().div_ceil(UNIT) as u64;
        let r = run_par(ctx, n_units, 1, |u, acc| {
            let lo = u as usize * UNIT;
            let hi = (lo + UNIT).min(sp.cases.len());
            let cs: Vec<&Case> = sp.cases[lo..hi].iter().collect();
            acc.add("functions_generated", cs.len() as u64);
            c01::check_cases(&sp.prelude, &cs, &backends, acc, &opts);
        });
        rep.cov(&format!("functions_{}", sp.name), Json::Int(sp.cases.len() as i64));
        rep.absorb(&sp.name, r);
    }
    // whole programs: out / inout signatures, global aliasing, positions of global uses and calls, struct casts, call graphs
    let mut programs = out_signature_programs();
    programs.extend(c01::program_spaces(ctx).into_iter().filter_map(without_double));
    c01::run_programs(ctx, "whole_programs", &programs, &backends, &opts, &mut rep);
    let graphs = if ctx.quick() { call_graph_programs(3, 2) } else { call_graph_programs(4, 3) };
    rep.cov("call_graph_programs", Json::Int(graphs.len() as i64));
    c01::run_programs(ctx, "call_graphs", &graphs, &backends, &opts, &mut rep);
    // the k-th element of every list-like construct x statement contexts x call graphs (globals, calls, sole inout calls)
    let lists = list_position_programs(!ctx.quick());
    rep.cov("list_position_programs", Json::Int(lists.len() as i64));
    c01::run_programs(ctx, "list_positions", &lists, &backends, &opts, &mut rep);
    // functions with static locals x call sequences inside one evaluation
    let statics = static_local_programs(!ctx.quick());
    rep.cov("static_local_programs", Json::Int(statics.len() as i64));
    rep.cov("static_local_call_sequences_per_program", Json::Int(statics.first().map(|s| s.cases.len()).unwrap_or(0) as i64));
    c01::run_programs(ctx, "static_locals", &statics, &backends, &opts, &mut rep);
    rep.cov("targets", Json::Arr(vec!["Msl (no-pipeline mode)".into()]));
    rep.assumptions.push("Metal semantics are those of exec::c_interp in its Metal dialect over the generator's syntax tree (references bind the argument object, metal:: spellings mapped by an independently written table, tag-dispatched trampoline overloads selected by arity); nothing checks that the text is accepted by a real Metal compiler".into());
    rep.assumptions.push("same value grid, the same skipping of cases that are unspecified in the source, and the same shared semantic decisions S1-S11 as C01; double is excluded (Metal rejects it), programs the Metal backend rejects with a diagnostic are outside the property and counted (export_rejected)".into());
    rep.assumptions.push("function-local statics: one object per definition and evaluation, initialised when the definition is first executed and kept from one call to the next (both interpreters; S9 applied to locals); only constant initialisers are generated, uninitialised statics and statics in templates are outside the space".into());
    rep.assumptions.push("aliased inout arguments (one local passed to two inout parameters) are only generated with a callee whose return value and final parameter values do not depend on the order of the copy-out".into());
    rep.assumptions.push("globals are matched by name between the source and the Metal tree; a global that a function does not receive keeps its initial value on the Metal side".into());
    finish(ctx, rep)
}

pub fn replay(ctx: &Ctx, body: &str) -> i32 {
    c01::replay(ctx, body)
}
